// net_shims.cpp - libc interposition for the Server harnesses (see net_shims.hpp and DESIGN.md 2.4).
// Every decision comes from the harness hooks (which derive it from the seeded plan of the case); nothing depends on the wall clock.
#include "net_shims.hpp"
#include <dlfcn.h>
#include <errno.h>
#include <stdio.h>
#include <stdlib.h>
#include <string.h>
#include <time.h>
#include <unistd.h>
#include <sys/types.h>
#include <sys/socket.h>
#include <sys/epoll.h>
#include <sys/eventfd.h>
#include <netdb.h>
#include <netinet/in.h>
#include <pthread.h>

namespace netshim {

Hooks hooks = {0, 0, 0, 0, 0, 0, 0, 0};
volatile int mode = REAL;
int (*volatile resolveHook)(const char* node, uint32_t* addrHostOrder) = 0;

enum { MAXFD = 8192 };
static int g_tag[MAXFD];            // tag + 1, 0 = not registered
static uint32_t g_mask[MAXFD];      // epoll mask + presence bit in g_inset
static unsigned char g_inset[MAXFD];
static int64_t g_vnow = 0;
static const int64_t BASE_MS = 1000000;   // virtual CLOCK_MONOTONIC origin (a little over 16 minutes of "uptime")
static int g_lastEventFd = -1, g_lastEpollFd = -1;
static long g_nSend = 0, g_nRecv = 0, g_nWait = 0, g_nClock = 0, g_nCtl = 0, g_nResolve = 0;

typedef ssize_t (*send_t)(int, const void*, size_t, int);
typedef ssize_t (*recv_t)(int, void*, size_t, int);
typedef int (*epoll_wait_t)(int, struct epoll_event*, int, int);
typedef int (*epoll_ctl_t)(int, int, int, struct epoll_event*);
typedef int (*eventfd_t)(unsigned int, int);
typedef int (*epoll_create1_t)(int);
typedef int (*clock_gettime_t)(clockid_t, struct timespec*);
typedef int (*getaddrinfo_t)(const char*, const char*, const struct addrinfo*, struct addrinfo**);
typedef void (*freeaddrinfo_t)(struct addrinfo*);
static getaddrinfo_t r_getaddrinfo = 0; static freeaddrinfo_t r_freeaddrinfo = 0;
// results made by the getaddrinfo shim (freed by the freeaddrinfo shim, everything else goes to libc); called from the library's resolver threads
enum { MAXOWN = 64 };
static struct addrinfo* g_own[MAXOWN];
static pthread_mutex_t g_ownMutex = PTHREAD_MUTEX_INITIALIZER;
static send_t r_send = 0; static recv_t r_recv = 0; static epoll_wait_t r_epoll_wait = 0; static epoll_ctl_t r_epoll_ctl = 0;
static eventfd_t r_eventfd = 0; static epoll_create1_t r_epoll_create1 = 0; static clock_gettime_t r_clock_gettime = 0;

template <typename F> static inline F resolve(F& slot, const char* name) {
  F f = __atomic_load_n(&slot, __ATOMIC_ACQUIRE);
  if (!f) {
    f = (F)dlsym(RTLD_NEXT, name);
    if (!f) { fprintf(stderr, "net_shims: cannot resolve %s\n", name); abort(); }
    __atomic_store_n(&slot, f, __ATOMIC_RELEASE);
  }
  return f;
}

int64_t vnow() { return g_vnow; }
void advance(int64_t ms) { if (ms > 0) g_vnow += ms; }
void setClock(int64_t ms) { g_vnow = ms; }
int64_t originMs() { return BASE_MS; }
int64_t monotonicMs() { return BASE_MS + g_vnow; }
void registerFd(int fd, int tag) { if (fd >= 0 && fd < MAXFD) g_tag[fd] = tag + 1; }
void unregisterFd(int fd) { if (fd >= 0 && fd < MAXFD) g_tag[fd] = 0; }
int tagOf(int fd) { return fd >= 0 && fd < MAXFD ? g_tag[fd] - 1 : -1; }
void reset() {
  memset(g_tag, 0, sizeof g_tag); memset(g_mask, 0, sizeof g_mask); memset(g_inset, 0, sizeof g_inset);
  g_lastEventFd = g_lastEpollFd = -1;
}
uint32_t epollMask(int fd) { return fd >= 0 && fd < MAXFD && g_inset[fd] ? g_mask[fd] : 0xffffffffu; }
int lastEventFd() { return g_lastEventFd; }
int lastEpollFd() { return g_lastEpollFd; }
long nSend() { return __atomic_load_n(&g_nSend, __ATOMIC_RELAXED); }
long nRecv() { return __atomic_load_n(&g_nRecv, __ATOMIC_RELAXED); }
long nWait() { return __atomic_load_n(&g_nWait, __ATOMIC_RELAXED); }
long nClock() { return __atomic_load_n(&g_nClock, __ATOMIC_RELAXED); }
long nCtl() { return __atomic_load_n(&g_nCtl, __ATOMIC_RELAXED); }
long nResolve() { return __atomic_load_n(&g_nResolve, __ATOMIC_RELAXED); }

long realSend(int fd, const void* buf, size_t len, int flags) { return resolve(r_send, "send")(fd, buf, len, flags); }
long realRecv(int fd, void* buf, size_t len, int flags) { return resolve(r_recv, "recv")(fd, buf, len, flags); }
int realEpollWait(int epfd, struct epoll_event* ev, int max, int timeout) { return resolve(r_epoll_wait, "epoll_wait")(epfd, ev, max, timeout); }
int64_t realMonotonicMs() { struct timespec ts; resolve(r_clock_gettime, "clock_gettime")(CLOCK_MONOTONIC, &ts); return (int64_t)ts.tv_sec * 1000 + ts.tv_nsec / 1000000; }

}  // namespace netshim

using namespace netshim;

extern "C" {

ssize_t send(int fd, const void* buf, size_t len, int flags) {
  send_t real = resolve(r_send, "send");
  if (tagOf(fd) < 0 || !hooks.sendPlan) return real(fd, buf, len, flags);
  __atomic_fetch_add(&g_nSend, 1, __ATOMIC_RELAXED);
  int err = 0;
  long want = hooks.sendPlan(fd, buf, len, &err);
  long ret;
  if (want == -2) { ret = real(fd, buf, len, flags); err = ret < 0 ? errno : 0; }
  else if (want < 0) ret = -1;
  else {
    size_t goal = (size_t)want > len ? len : (size_t)want, done = 0; long spins = 0; err = 0;
    while (done < goal) {
      ssize_t r = real(fd, (const char*)buf + done, goal - done, flags);
      if (r > 0) { done += (size_t)r; continue; }
      if (r < 0 && (errno == EAGAIN || errno == EWOULDBLOCK || errno == EINTR)) {
        if (hooks.drain) hooks.drain(fd);
        if (++spins > 2000000) { fprintf(stderr, "net_shims: send cannot complete (peer does not drain)\n"); abort(); }
        continue;
      }
      err = r < 0 ? errno : EPIPE;   // genuine kernel failure (peer gone)
      break;
    }
    ret = (done == 0 && err) ? -1 : (long)done;
    if (ret >= 0) err = 0;
  }
  if (hooks.sendDone) hooks.sendDone(fd, buf, len, ret, err);
  if (ret < 0) errno = err;
  return ret;
}

ssize_t recv(int fd, void* buf, size_t len, int flags) {
  recv_t real = resolve(r_recv, "recv");
  if (tagOf(fd) < 0 || !hooks.recvDone) return real(fd, buf, len, flags);
  __atomic_fetch_add(&g_nRecv, 1, __ATOMIC_RELAXED);
  int err = 0;
  long want = hooks.recvPlan ? hooks.recvPlan(fd, len, &err) : -2;
  long ret;
  if (want == -1) ret = -1;
  else {
    size_t n = (want >= 1 && (size_t)want < len) ? (size_t)want : len;
    ret = real(fd, buf, n, flags); err = ret < 0 ? errno : 0;
  }
  hooks.recvDone(fd, buf, len, ret, err);
  if (ret < 0) errno = err;
  return ret;
}

int epoll_wait(int epfd, struct epoll_event* ev, int max, int timeout) {
  epoll_wait_t real = resolve(r_epoll_wait, "epoll_wait");
  __atomic_fetch_add(&g_nWait, 1, __ATOMIC_RELAXED);
  if (hooks.waitEnter) hooks.waitEnter(epfd, timeout);
  if (mode != VIRTUAL) {
    int n = real(epfd, ev, max, timeout);
    int e = errno;
    if (hooks.waitLeave) hooks.waitLeave(epfd, n, ev);
    errno = e;
    return n;
  }
  const int64_t t0 = g_vnow;
  for (;;) {
    int n = real(epfd, ev, max, 0);
    if (n != 0) { int e = errno; if (hooks.waitLeave) hooks.waitLeave(epfd, n, ev); errno = e; return n; }
    long elapsed = (long)(g_vnow - t0);   // the hook may have advanced the clock itself (external action scheduled before the timeout)
    long adv = timeout < 0 ? -1 : (timeout > elapsed ? timeout - elapsed : 0);
    int what = hooks.idle ? hooks.idle(epfd, timeout, elapsed, &adv) : IDLE_TIMEOUT;
    if (what == IDLE_AGAIN) continue;
    if (adv < 0) { fprintf(stderr, "net_shims: the loop would block forever (timeout %d) and the harness has nothing left to do\n", timeout); abort(); }
    g_vnow += adv;
    if (what == IDLE_EINTR) { if (hooks.waitLeave) hooks.waitLeave(epfd, -1, ev); errno = EINTR; return -1; }
    if (hooks.waitLeave) hooks.waitLeave(epfd, 0, ev);
    return 0;
  }
}

int epoll_ctl(int epfd, int op, int fd, struct epoll_event* ev) noexcept {
  epoll_ctl_t real = resolve(r_epoll_ctl, "epoll_ctl");
  uint32_t m = ev && op != EPOLL_CTL_DEL ? ev->events : 0;
  int r = real(epfd, op, fd, ev);
  if (r == 0 && fd >= 0 && fd < MAXFD) {
    __atomic_fetch_add(&g_nCtl, 1, __ATOMIC_RELAXED);
    if (op == EPOLL_CTL_DEL) { g_inset[fd] = 0; g_mask[fd] = 0; } else { g_inset[fd] = 1; g_mask[fd] = m; }
  }
  return r;
}

int eventfd(unsigned int count, int flags) noexcept {
  int fd = resolve(r_eventfd, "eventfd")(count, flags);
  g_lastEventFd = fd;
  return fd;
}

int epoll_create1(int flags) noexcept {
  int fd = resolve(r_epoll_create1, "epoll_create1")(flags);
  g_lastEpollFd = fd;
  return fd;
}

int getaddrinfo(const char* node, const char* service, const struct addrinfo* hints, struct addrinfo** res) {
  getaddrinfo_t real = resolve(r_getaddrinfo, "getaddrinfo");
  int (*hook)(const char*, uint32_t*) = resolveHook;
  if (!hook || !node) return real(node, service, hints, res);
  uint32_t addr = 0;
  int rc = hook(node, &addr);
  if (rc == RESOLVE_PASS) return real(node, service, hints, res);
  __atomic_fetch_add(&g_nResolve, 1, __ATOMIC_RELAXED);
  if (rc != 0) return rc;
  // one exactly-sized block per result: addrinfo followed by its sockaddr_in
  struct addrinfo* ai = (struct addrinfo*)calloc(1, sizeof(struct addrinfo) + sizeof(struct sockaddr_in));
  if (!ai) return EAI_MEMORY;
  struct sockaddr_in* sin = (struct sockaddr_in*)(ai + 1);
  sin->sin_family = AF_INET; sin->sin_addr.s_addr = htonl(addr);
  ai->ai_family = AF_INET; ai->ai_socktype = hints && hints->ai_socktype ? hints->ai_socktype : SOCK_STREAM; ai->ai_protocol = hints ? hints->ai_protocol : 0;
  ai->ai_addrlen = sizeof(struct sockaddr_in); ai->ai_addr = (struct sockaddr*)sin;
  pthread_mutex_lock(&g_ownMutex);
  int slot = -1; for (int i = 0; i < MAXOWN; ++i) if (!g_own[i]) { g_own[i] = ai; slot = i; break; }
  pthread_mutex_unlock(&g_ownMutex);
  if (slot < 0) { free(ai); return EAI_MEMORY; }
  *res = ai;
  return 0;
}

void freeaddrinfo(struct addrinfo* ai) noexcept {
  bool own = false;
  pthread_mutex_lock(&g_ownMutex);
  for (int i = 0; i < MAXOWN; ++i) if (ai && g_own[i] == ai) { g_own[i] = 0; own = true; break; }
  pthread_mutex_unlock(&g_ownMutex);
  if (own) free(ai); else resolve(r_freeaddrinfo, "freeaddrinfo")(ai);
}

int clock_gettime(clockid_t id, struct timespec* ts) noexcept {
  clock_gettime_t real = resolve(r_clock_gettime, "clock_gettime");
  if (mode != VIRTUAL || id != CLOCK_MONOTONIC) return real(id, ts);
  __atomic_fetch_add(&g_nClock, 1, __ATOMIC_RELAXED);
  int64_t t = BASE_MS + g_vnow;
  ts->tv_sec = (time_t)(t / 1000); ts->tv_nsec = (long)(t % 1000) * 1000000L;
  return 0;
}

}  // extern "C"
