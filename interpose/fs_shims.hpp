// fs_shims.hpp - libc interposition with countdown failpoints for the file-system checks (C19)
// The functions below are *defined in the harness executable* (fs_shims.cpp), so calls made by libnstd's objects resolve to them;
// the real libc function is reached through dlsym(RTLD_NEXT, ...). A failpoint is armed by the harness immediately before one
// library call and disarmed right after it; all decisions come from the case's seeded plan, never from time.
#pragma once
#include <stddef.h>

namespace fsshim {
enum Fn { F_OPEN, F_WRITE, F_READ, F_RENAME, F_UNLINK, F_MKDIR, F_RMDIR, F_LSEEK, F_SENDFILE, F_N };
const char* fnName(int fn);
// only absolute paths below `prefix` (and every relative path) are eligible for injection; fds 0..2 never are
void setPrefix(const char* prefix);
// make the nth (1-based) eligible call of `fn` from now on fail with errno=err; for F_WRITE/F_SENDFILE shortBytes >= 0 means
// "transfer only min(shortBytes, n) bytes and return that" instead of failing
void arm(int fn, long nth, int err, long shortBytes = -1);
void disarm();
long fired();           // number of injected failures since the last arm()
long calls(int fn);     // eligible calls of fn seen since process start
long totalInjected();

// ---- step hook ("a racing creator/remover between the library's system calls"): while a hook is set, the shim calls it immediately before forwarding
// every eligible call of the traced path family (stat/lstat/access/opendir/mkdir/rmdir/unlink; T_* below) with the 1-based number of that call since
// setStepHook() and the path argument, and `post` (may be 0) right after it with the result. File-system calls made by the hook itself go straight to libc
// (they are neither traced nor counted nor subject to failpoints). Single-threaded use only; never set while other threads call into the library.
enum Traced { T_STAT, T_LSTAT, T_ACCESS, T_OPENDIR, T_MKDIR, T_RMDIR, T_UNLINK, T_N };
const char* tracedName(int t);
typedef void (*StepHook)(int traced, const char* path, long step);
typedef void (*StepPost)(int traced, const char* path, long step, int ret, int err);
void setStepHook(StepHook pre, StepPost post);
void clearStepHook();
long steps();           // traced calls seen since the last setStepHook()
}
