// fs_shims.hpp - libc interposition with countdown failpoints for the file-system checks (C19)
// The functions below are *defined in the harness executable* (fs_shims.cpp), so calls made by libnstd's objects resolve to them;
// the real libc function is reached through dlsym(RTLD_NEXT, ...). A failpoint is armed by the harness immediately before one
// library call and disarmed right after it; all decisions come from the case's seeded plan, never from time.
#pragma once
#include <stddef.h>

namespace fsshim {
enum Fn { F_OPEN, F_WRITE, F_READ, F_RENAME, F_UNLINK, F_MKDIR, F_RMDIR, F_LSEEK, F_SENDFILE, F_N };
const char* fnName(int fn);
// only absolute paths below `prefix` (and every relative path) are eligible for injection; fds 0..2 never are
void setPrefix(const char* prefix);
// make the nth (1-based) eligible call of `fn` from now on fail with errno=err; for F_WRITE/F_SENDFILE shortBytes >= 0 means
// "transfer only min(shortBytes, n) bytes and return that" instead of failing
void arm(int fn, long nth, int err, long shortBytes = -1);
void disarm();
long fired();           // number of injected failures since the last arm()
long calls(int fn);     // eligible calls of fn seen since process start
long totalInjected();
}
