// net_shims.hpp - control interface of the libc interposition layer for the Server harnesses (C13/C14, DESIGN.md 2.4).
// The shims (send, recv, epoll_wait, epoll_ctl, eventfd, clock_gettime, getaddrinfo/freeaddrinfo) are defined in the harness executable, so calls made by the statically
// linked libnstd objects bind to them; the real functions are reached through dlsym(RTLD_NEXT, ...). Nothing here includes an nstd or STL header.
#pragma once
#include <stddef.h>
#include <stdint.h>

struct epoll_event;

namespace netshim {

enum Mode { REAL = 0, VIRTUAL = 1 };

// return codes of Hooks::idle
enum { IDLE_TIMEOUT = 0, IDLE_AGAIN = 1, IDLE_EINTR = 2 };

struct Hooks {
  // send() on a registered fd, before anything is done. Return value:
  //   >= 1 : number of bytes (<= len) the shim really transmits; it loops until the kernel has taken all of them (calling drain() whenever the kernel
  //          refuses) and returns that count to the library  ("full" = len, "partial" = k)
  //   -1   : fail with errno = *err without touching the socket (EAGAIN, EPIPE, ECONNRESET)
  //   -2   : pass the call through to the kernel unchanged
  long (*sendPlan)(int fd, const void* buf, size_t len, int* err);
  // after every send on a registered fd: what the library is told
  void (*sendDone)(int fd, const void* buf, size_t len, long ret, int err);
  // the kernel refused more bytes while the shim has to complete a transmission: let the peer read
  void (*drain)(int fd);
  // recv() on a registered fd. Return: >= 1 cap for the length, -1 fail with errno = *err, -2 pass through
  long (*recvPlan)(int fd, size_t len, int* err);
  void (*recvDone)(int fd, const void* buf, size_t len, long ret, int err);
  // every epoll_wait call of the library (virtual and real mode), before the kernel is asked
  void (*waitEnter)(int epfd, int timeout);
  // ... and just before it returns n (>0 events, 0 timeout, -1 error)
  void (*waitLeave)(int epfd, int n, struct epoll_event* ev);
  // virtual mode only: the kernel reports nothing ready (epoll_wait(.., 0) == 0). `elapsed` = virtual ms already spent inside this call.
  //   IDLE_AGAIN   : the hook did something (external action, interrupt): ask the kernel again
  //   IDLE_TIMEOUT : advance the virtual clock by *advance (preset to the remaining timeout) and return 0 to the library
  //   IDLE_EINTR   : advance the virtual clock by *advance and return -1 / EINTR
  int (*idle)(int epfd, int timeout, long elapsed, long* advance);
};

extern Hooks hooks;
extern volatile int mode;            // REAL: every call is passed through (hooks still observe); VIRTUAL: virtual clock + non-blocking epoll_wait

// virtual clock (ms since an arbitrary origin); CLOCK_MONOTONIC reads base + vnow in VIRTUAL mode
int64_t vnow();
void advance(int64_t ms);
void setClock(int64_t ms);
int64_t originMs();                  // value of the virtual CLOCK_MONOTONIC at vnow() == 0
int64_t monotonicMs();               // what the library reads in VIRTUAL mode: originMs() + vnow()

// fds whose send/recv are routed through the hooks (the library's client sockets); everything else passes through untouched
void registerFd(int fd, int tag);
void unregisterFd(int fd);
int tagOf(int fd);                   // -1 if not registered
void reset();                        // forget registrations, counters, the epoll registration table; clock keeps running

// observation of the library's poll state (epoll_ctl log): requested epoll event mask for fd, or 0xffffffff if fd is not in an epoll set
uint32_t epollMask(int fd);
int lastEventFd();                   // fd returned by the most recent eventfd() call (the Poll object's interrupt descriptor)
int lastEpollFd();

// name resolution: getaddrinfo() (and freeaddrinfo() for the results made here) is interposed as well. Server::connect(host, ...) resolves in a worker thread of the
// library's thread pool, so the hook is called IN THAT THREAD (it must not touch the harness' single-threaded bookkeeping; it may block - that is how the harness
// decides when a resolution completes). Return value:
//   RESOLVE_PASS : hand the call to libc unchanged        0 : success, *addrHostOrder is the IPv4 address        any EAI_* code (< 0) : fail with that code
// With no hook installed every call is passed through.
enum { RESOLVE_PASS = 1 };
extern int (*volatile resolveHook)(const char* node, uint32_t* addrHostOrder);

// counters (relaxed atomics, may be read from any thread)
long nSend(); long nRecv(); long nWait(); long nClock(); long nCtl(); long nResolve();

// direct access to the real functions for the harness (peer side I/O that must never be scripted)
long realSend(int fd, const void* buf, size_t len, int flags);
long realRecv(int fd, void* buf, size_t len, int flags);
int realEpollWait(int epfd, struct epoll_event* ev, int max, int timeout);
int64_t realMonotonicMs();

}  // namespace netshim
