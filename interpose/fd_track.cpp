// fd_track.cpp - see fd_track.hpp. Thread-safe (one mutex around the table); only observes, never changes a result.
#include "fd_track.hpp"
#include <dlfcn.h>
#include <errno.h>
#include <fcntl.h>
#include <pthread.h>
#include <stdarg.h>
#include <string.h>
#include <sys/select.h>
#include <sys/socket.h>
#include <sys/stat.h>
#include <sys/syscall.h>
#include <sys/types.h>
#include <unistd.h>

namespace {
enum { MAXFD = 4096, MAXLIVE = 256 };
struct Ent {
  unsigned char state;                 // 0 unknown, 1 open (registered), 2 released
  unsigned long owner; const char* api; // holder (0 = harness) and the API entry during which the number was handed out
  unsigned long dev, ino;              // identity of the kernel object at registration
  unsigned long releasedBy; const char* releasedIn;   // last close seen: by whom (0 = harness/unknown), inside which API entry
};
Ent tab[MAXFD];
int maxSeen = -1;
unsigned long liveOwners[MAXLIVE]; int nlive = 0;
long stats[fdtrack::S_N];
volatile int g_on = 0; long g_pid = 0; fdtrack::Handler g_handler = 0;
pthread_mutex_t mu = PTHREAD_MUTEX_INITIALIZER;
__thread unsigned long t_owner = 0; __thread const char* t_api = 0;

typedef int (*close_t)(int);
typedef int (*pipe_t)(int*);
typedef int (*pipe2_t)(int*, int);
typedef int (*dup_t)(int);
typedef int (*dup2_t)(int, int);
typedef int (*dup3_t)(int, int, int);
typedef int (*socketpair_t)(int, int, int, int*);
typedef int (*open_t)(const char*, int, ...);
typedef int (*select_t)(int, fd_set*, fd_set*, fd_set*, struct timeval*);
typedef ssize_t (*read_t)(int, void*, size_t);
typedef ssize_t (*write_t)(int, const void*, size_t);
close_t r_close; pipe_t r_pipe; pipe2_t r_pipe2; dup_t r_dup; dup2_t r_dup2; dup3_t r_dup3; socketpair_t r_socketpair; open_t r_open, r_open64; select_t r_select; read_t r_read; write_t r_write;

template <class T> inline T real(T& slot, const char* name) { if (!slot) slot = (T)dlsym(RTLD_NEXT, name); return slot; }
void resolveAll() {
  real(r_close, "close"); real(r_pipe, "pipe"); real(r_pipe2, "pipe2"); real(r_dup, "dup"); real(r_dup2, "dup2"); real(r_dup3, "dup3"); real(r_socketpair, "socketpair");
  real(r_open, "open"); real(r_open64, "open64"); real(r_select, "select"); real(r_read, "read"); real(r_write, "write");
}
// true only in the process that called enable(): a vfork child runs in this very memory (same globals, same thread-locals)
inline bool monitored() { return g_on && syscall(SYS_getpid) == g_pid; }

bool isLive(unsigned long owner) { for (int i = 0; i < nlive; ++i) if (liveOwners[i] == owner) return true; return false; }
bool sameObject(int fd, const Ent& e) { struct stat st; if (fstat(fd, &st) != 0) return false; return (unsigned long)st.st_dev == e.dev && (unsigned long)st.st_ino == e.ino; }

void report(int kind, int fd, const char* call, const Ent& e) {
  fdtrack::Violation v; v.kind = kind; v.fd = fd; v.api = t_api ? t_api : "?"; v.owner = t_owner;
  v.other = e.state == 1 ? e.owner : 0; v.otherApi = e.state == 1 && e.api ? e.api : ""; v.releasedBy = e.releasedBy; v.releasedIn = e.releasedIn ? e.releasedIn : ""; v.call = call;
  if (g_handler) g_handler(v);
}

void registerFd(int fd) {
  if (fd < 0 || fd >= MAXFD) return;
  unsigned long owner = t_owner;
  pthread_mutex_lock(&mu);
  Ent& e = tab[fd];
  if (e.state == 2 && e.releasedBy) {
    if (owner && e.releasedBy != owner) { ++stats[fdtrack::S_REUSE_OTHER_OBJECT]; if (isLive(e.releasedBy)) ++stats[fdtrack::S_REUSE_RELEASER_ALIVE]; }
    else if (!owner) ++stats[fdtrack::S_REUSE_LIB_TO_HARNESS];
  }
  e.state = 1; e.owner = owner; e.api = owner ? t_api : "(application)";
  struct stat st; if (fstat(fd, &st) == 0) { e.dev = (unsigned long)st.st_dev; e.ino = (unsigned long)st.st_ino; } else { e.dev = e.ino = 0; }
  if (fd > maxSeen) maxSeen = fd;
  ++stats[owner ? fdtrack::S_LIB_CREATES : fdtrack::S_HARNESS_CREATES];
  pthread_mutex_unlock(&mu);
}

// a call made by the library on behalf of t_owner touches fd: it must not be a number held by somebody else
void checkUse(int fd, const char* call) {
  if (fd < 0 || fd >= MAXFD) return;
  pthread_mutex_lock(&mu);
  Ent e = tab[fd];
  bool foreign = e.state == 1 && e.owner != t_owner && sameObject(fd, e);
  pthread_mutex_unlock(&mu);
  if (foreign) report(e.owner ? fdtrack::K_USE_OTHER_OBJECT : fdtrack::K_USE_HARNESS, fd, call, e);
}
}

namespace fdtrack {
const char* kindName(int kind) {
  static const char* n[] = { "double-close(EBADF)", "closes-descriptor-held-by-another-object", "closes-descriptor-held-by-the-application", "select-on-closed-descriptor(EBADF)",
                             "uses-descriptor-held-by-another-object", "uses-descriptor-held-by-the-application" };
  return kind >= 0 && kind < K_N ? n[kind] : "?";
}
void enable(Handler h) { resolveAll(); g_handler = h; g_pid = syscall(SYS_getpid); g_on = 1; }
void disable() { g_on = 0; }
Scope::Scope(unsigned long owner, const char* api) : prevOwner(t_owner), prevApi(t_api) { t_owner = owner; t_api = api; }
Scope::~Scope() { t_owner = prevOwner; t_api = prevApi; }
void born(unsigned long owner) { pthread_mutex_lock(&mu); if (nlive < MAXLIVE && !isLive(owner)) liveOwners[nlive++] = owner; pthread_mutex_unlock(&mu); }
void retire(unsigned long owner) { pthread_mutex_lock(&mu); for (int i = 0; i < nlive; ++i) if (liveOwners[i] == owner) { liveOwners[i] = liveOwners[--nlive]; break; } pthread_mutex_unlock(&mu); }
int ownedList(unsigned long owner, int* out, int max) {
  int n = 0; pthread_mutex_lock(&mu);
  for (int fd = 0; fd <= maxSeen; ++fd) if (tab[fd].state == 1 && tab[fd].owner == owner) { if (out && n < max) out[n] = fd; ++n; }
  pthread_mutex_unlock(&mu); return n;
}
int ownedCount(unsigned long owner) { return ownedList(owner, 0, 0); }
const char* createdIn(int fd) { if (fd < 0 || fd >= MAXFD) return ""; pthread_mutex_lock(&mu); const char* a = tab[fd].state == 1 && tab[fd].api ? tab[fd].api : ""; pthread_mutex_unlock(&mu); return a; }
long stat(int which) { return which >= 0 && which < S_N ? stats[which] : 0; }
}

extern "C" {

int close(int fd) {
  if (!monitored() || fd < 0 || fd >= MAXFD) return real(r_close, "close")(fd);
  unsigned long owner = t_owner;
  if (!owner) {   // the harness closes one of its own numbers
    pthread_mutex_lock(&mu); if (tab[fd].state == 1) { tab[fd].state = 2; tab[fd].releasedBy = 0; tab[fd].releasedIn = "(application)"; } pthread_mutex_unlock(&mu);
    return real(r_close, "close")(fd);
  }
  pthread_mutex_lock(&mu);
  ++stats[fdtrack::S_LIB_CLOSES];
  Ent e = tab[fd];
  bool foreign = e.state == 1 && e.owner != owner && sameObject(fd, e);
  if (!foreign && !(e.state == 1 && e.owner == owner)) ++stats[fdtrack::S_LIB_CLOSES_UNKNOWN_ORIGIN];
  pthread_mutex_unlock(&mu);
  if (foreign) report(e.owner ? fdtrack::K_CLOSE_OTHER_OBJECT : fdtrack::K_CLOSE_HARNESS, fd, "close", e);
  int r = real(r_close, "close")(fd); int err = errno;
  if (r == -1 && err == EBADF) report(fdtrack::K_CLOSE_EBADF, fd, "close", e);
  if (r == 0) { pthread_mutex_lock(&mu); tab[fd].state = 2; tab[fd].releasedBy = owner; tab[fd].releasedIn = t_api; pthread_mutex_unlock(&mu); }
  errno = err; return r;
}

int pipe(int fds[2]) {
  int r = real(r_pipe, "pipe")(fds);
  if (r == 0 && monitored()) { int e = errno; registerFd(fds[0]); registerFd(fds[1]); errno = e; }
  return r;
}
int pipe2(int fds[2], int flags) {
  int r = real(r_pipe2, "pipe2")(fds, flags);
  if (r == 0 && monitored()) { int e = errno; registerFd(fds[0]); registerFd(fds[1]); errno = e; }
  return r;
}
int socketpair(int domain, int type, int protocol, int sv[2]) {
  int r = real(r_socketpair, "socketpair")(domain, type, protocol, sv);
  if (r == 0 && monitored()) { int e = errno; registerFd(sv[0]); registerFd(sv[1]); errno = e; }
  return r;
}
int dup(int fd) {
  int r = real(r_dup, "dup")(fd);
  if (r >= 0 && monitored()) { int e = errno; registerFd(r); errno = e; }
  return r;
}
int dup2(int oldfd, int newfd) {
  int r = real(r_dup2, "dup2")(oldfd, newfd);
  if (r >= 0 && oldfd != newfd && monitored()) { int e = errno; registerFd(r); errno = e; }
  return r;
}
int dup3(int oldfd, int newfd, int flags) {
  int r = real(r_dup3, "dup3")(oldfd, newfd, flags);
  if (r >= 0 && monitored()) { int e = errno; registerFd(r); errno = e; }
  return r;
}
int open(const char* path, int flags, ...) {
  mode_t mode = 0;
  if (flags & (O_CREAT | __O_TMPFILE)) { va_list ap; va_start(ap, flags); mode = (mode_t)va_arg(ap, int); va_end(ap); }
  int r = real(r_open, "open")(path, flags, mode);
  if (r >= 0 && monitored()) { int e = errno; registerFd(r); errno = e; }
  return r;
}
int open64(const char* path, int flags, ...) {
  mode_t mode = 0;
  if (flags & (O_CREAT | __O_TMPFILE)) { va_list ap; va_start(ap, flags); mode = (mode_t)va_arg(ap, int); va_end(ap); }
  int r = real(r_open64, "open64")(path, flags, mode);
  if (r >= 0 && monitored()) { int e = errno; registerFd(r); errno = e; }
  return r;
}

int select(int nfds, fd_set* rd, fd_set* wr, fd_set* ex, struct timeval* tv) {
  if (!g_on || !t_owner || !monitored()) return real(r_select, "select")(nfds, rd, wr, ex, tv);
  fd_set crd, cwr; FD_ZERO(&crd); FD_ZERO(&cwr); if (rd) crd = *rd; if (wr) cwr = *wr;
  int lim = nfds < FD_SETSIZE ? nfds : FD_SETSIZE;
  pthread_mutex_lock(&mu); ++stats[fdtrack::S_LIB_SELECTS]; pthread_mutex_unlock(&mu);
  for (int fd = 0; fd < lim; ++fd) if (FD_ISSET(fd, &crd) || FD_ISSET(fd, &cwr)) checkUse(fd, "select");
  int r = real(r_select, "select")(nfds, rd, wr, ex, tv); int err = errno;
  if (r == -1 && err == EBADF) {
    int bad = -1; for (int fd = 0; fd < lim && bad < 0; ++fd) if ((FD_ISSET(fd, &crd) || FD_ISSET(fd, &cwr)) && fcntl(fd, F_GETFD) == -1) bad = fd;
    Ent e; memset(&e, 0, sizeof e); if (bad >= 0 && bad < MAXFD) { pthread_mutex_lock(&mu); e = tab[bad]; pthread_mutex_unlock(&mu); }
    report(fdtrack::K_SELECT_EBADF, bad, "select", e);
  }
  errno = err; return r;
}

ssize_t read(int fd, void* buf, size_t n) {
  if (g_on && t_owner && monitored()) { pthread_mutex_lock(&mu); ++stats[fdtrack::S_LIB_READS]; pthread_mutex_unlock(&mu); checkUse(fd, "read"); }
  return real(r_read, "read")(fd, buf, n);
}
ssize_t write(int fd, const void* buf, size_t n) {
  if (g_on && t_owner && monitored()) { pthread_mutex_lock(&mu); ++stats[fdtrack::S_LIB_WRITES]; pthread_mutex_unlock(&mu); checkUse(fd, "write"); }
  return real(r_write, "write")(fd, buf, n);
}

}
