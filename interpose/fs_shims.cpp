// fs_shims.cpp - see fs_shims.hpp. Single-threaded use only (C19 harness).
#include "fs_shims.hpp"
#include <dlfcn.h>
#include <errno.h>
#include <fcntl.h>
#include <stdarg.h>
#include <string.h>
#include <sys/types.h>
#include <sys/stat.h>
#include <sys/sendfile.h>
#include <unistd.h>

namespace {
struct State {
  int fn; long countdown; int err; long shortBytes; long fired; long total; long calls[fsshim::F_N];
  char prefix[256]; size_t prefixLen;
};
State g = { -1, 0, 0, -1, 0, 0, {0}, "", 0 };

template <class T> T real(T& slot, const char* name) {
  if (!slot) slot = (T)dlsym(RTLD_NEXT, name);
  return slot;
}

bool eligiblePath(const char* p) {
  if (!p) return false;
  if (p[0] != '/') return true;
  return g.prefixLen && !strncmp(p, g.prefix, g.prefixLen);
}

// returns true when this call has to fail / be cut short
bool hit(int fn, bool eligible) {
  if (!eligible) return false;
  ++g.calls[fn];
  if (g.fn != fn || g.countdown <= 0) return false;
  if (--g.countdown > 0) return false;
  ++g.fired; ++g.total;
  return true;
}
}

namespace fsshim {
const char* fnName(int fn) {
  static const char* n[] = { "open", "write", "read", "rename", "unlink", "mkdir", "rmdir", "lseek", "sendfile" };
  return fn >= 0 && fn < F_N ? n[fn] : "?";
}
void setPrefix(const char* p) { strncpy(g.prefix, p, sizeof g.prefix - 1); g.prefix[sizeof g.prefix - 1] = 0; g.prefixLen = strlen(g.prefix); }
void arm(int fn, long nth, int err, long shortBytes) { g.fn = fn; g.countdown = nth; g.err = err; g.shortBytes = shortBytes; g.fired = 0; }
void disarm() { g.fn = -1; g.countdown = 0; }
long fired() { return g.fired; }
long calls(int fn) { return g.calls[fn]; }
long totalInjected() { return g.total; }
}

extern "C" {

typedef int (*open_t)(const char*, int, ...);
static open_t r_open, r_open64;
int open(const char* path, int flags, ...) {
  mode_t mode = 0;
  if (flags & (O_CREAT | __O_TMPFILE)) { va_list ap; va_start(ap, flags); mode = (mode_t)va_arg(ap, int); va_end(ap); }
  if (hit(fsshim::F_OPEN, eligiblePath(path))) { errno = g.err; return -1; }
  return real(r_open, "open")(path, flags, mode);
}
int open64(const char* path, int flags, ...) {
  mode_t mode = 0;
  if (flags & (O_CREAT | __O_TMPFILE)) { va_list ap; va_start(ap, flags); mode = (mode_t)va_arg(ap, int); va_end(ap); }
  if (hit(fsshim::F_OPEN, eligiblePath(path))) { errno = g.err; return -1; }
  return real(r_open64, "open64")(path, flags, mode);
}

typedef ssize_t (*write_t)(int, const void*, size_t);
static write_t r_write;
ssize_t write(int fd, const void* buf, size_t n) {
  if (hit(fsshim::F_WRITE, fd > 2)) {
    if (g.shortBytes < 0) { errno = g.err; return -1; }
    if ((size_t)g.shortBytes < n) n = (size_t)g.shortBytes;
  }
  return real(r_write, "write")(fd, buf, n);
}

typedef ssize_t (*read_t)(int, void*, size_t);
static read_t r_read;
ssize_t read(int fd, void* buf, size_t n) {
  if (hit(fsshim::F_READ, fd > 2)) { errno = g.err; return -1; }
  return real(r_read, "read")(fd, buf, n);
}

typedef int (*rename_t)(const char*, const char*);
static rename_t r_rename;
int rename(const char* from, const char* to) {
  if (hit(fsshim::F_RENAME, eligiblePath(from) || eligiblePath(to))) { errno = g.err; return -1; }
  return real(r_rename, "rename")(from, to);
}

typedef int (*path_t)(const char*);
static path_t r_unlink, r_rmdir;
int unlink(const char* p) {
  if (hit(fsshim::F_UNLINK, eligiblePath(p))) { errno = g.err; return -1; }
  return real(r_unlink, "unlink")(p);
}
int rmdir(const char* p) {
  if (hit(fsshim::F_RMDIR, eligiblePath(p))) { errno = g.err; return -1; }
  return real(r_rmdir, "rmdir")(p);
}

typedef int (*mkdir_t)(const char*, mode_t);
static mkdir_t r_mkdir;
int mkdir(const char* p, mode_t m) {
  if (hit(fsshim::F_MKDIR, eligiblePath(p))) { errno = g.err; return -1; }
  return real(r_mkdir, "mkdir")(p, m);
}

typedef off_t (*lseek_t)(int, off_t, int);
static lseek_t r_lseek;
off_t lseek(int fd, off_t off, int whence) {
  if (hit(fsshim::F_LSEEK, fd > 2)) { errno = g.err; return (off_t)-1; }
  return real(r_lseek, "lseek")(fd, off, whence);
}
typedef off64_t (*lseek64_t)(int, off64_t, int);
static lseek64_t r_lseek64;
off64_t lseek64(int fd, off64_t off, int whence) {
  if (hit(fsshim::F_LSEEK, fd > 2)) { errno = g.err; return (off64_t)-1; }
  return real(r_lseek64, "lseek64")(fd, off, whence);
}

typedef ssize_t (*sendfile_t)(int, int, off_t*, size_t);
static sendfile_t r_sendfile;
ssize_t sendfile(int out, int in, off_t* off, size_t n) {
  if (hit(fsshim::F_SENDFILE, out > 2)) {
    if (g.shortBytes < 0) { errno = g.err; return -1; }
    if ((size_t)g.shortBytes < n) n = (size_t)g.shortBytes;
  }
  return real(r_sendfile, "sendfile")(out, in, off, n);
}
typedef ssize_t (*sendfile64_t)(int, int, off64_t*, size_t);
static sendfile64_t r_sendfile64;
ssize_t sendfile64(int out, int in, off64_t* off, size_t n) {
  if (hit(fsshim::F_SENDFILE, out > 2)) {
    if (g.shortBytes < 0) { errno = g.err; return -1; }
    if ((size_t)g.shortBytes < n) n = (size_t)g.shortBytes;
  }
  return real(r_sendfile64, "sendfile64")(out, in, off, n);
}

}
