// fs_shims.cpp - see fs_shims.hpp. Failpoints and step hook: single-threaded use only (C19 harness). With no failpoint armed and no hook set the shims
// only count and forward, which is all the multi-threaded mode of the harness relies on (the counters may then lose increments; they are not used there).
#include "fs_shims.hpp"
#include <dlfcn.h>
#include <errno.h>
#include <fcntl.h>
#include <stdarg.h>
#include <string.h>
#include <sys/types.h>
#include <sys/stat.h>
#include <sys/sendfile.h>
#include <sys/syscall.h>
#include <dirent.h>
#include <unistd.h>

namespace {
struct State {
  int fn; long countdown; int err; long shortBytes; long fired; long total; long calls[fsshim::F_N];
  char prefix[256]; size_t prefixLen;
};
State g = { -1, 0, 0, -1, 0, 0, {0}, "", 0 };
struct Hook { fsshim::StepHook pre; fsshim::StepPost post; long step; bool inside; };
Hook h = { 0, 0, 0, false };

template <class T> T real(T& slot, const char* name) {
  if (!slot) slot = (T)dlsym(RTLD_NEXT, name);
  return slot;
}

bool eligiblePath(const char* p) {
  if (!p) return false;
  if (p[0] != '/') return true;
  return g.prefixLen && !strncmp(p, g.prefix, g.prefixLen);
}

// returns true when this call has to fail / be cut short
bool hit(int fn, bool eligible) {
  if (!eligible || h.inside) return false;
  ++g.calls[fn];
  if (g.fn != fn || g.countdown <= 0) return false;
  if (--g.countdown > 0) return false;
  ++g.fired; ++g.total;
  return true;
}

// step hook: returns the step number (0 = not traced) after running the pre-hook
long stepPre(int t, const char* p, bool eligible) {
  if (!h.pre || h.inside || !eligible) return 0;
  long s = ++h.step; int e = errno; h.inside = true; h.pre(t, p, s); h.inside = false; errno = e; return s;
}
void stepPost(int t, const char* p, long s, int ret) {
  if (!s || !h.post) return;
  int e = errno; h.inside = true; h.post(t, p, s, ret, e); h.inside = false; errno = e;
}
}

namespace fsshim {
const char* tracedName(int t) {
  static const char* n[] = { "stat", "lstat", "access", "opendir", "mkdir", "rmdir", "unlink" };
  return t >= 0 && t < T_N ? n[t] : "?";
}
void setStepHook(StepHook pre, StepPost post) { h.pre = pre; h.post = post; h.step = 0; h.inside = false; }
void clearStepHook() { h.pre = 0; h.post = 0; }
long steps() { return h.step; }
const char* fnName(int fn) {
  static const char* n[] = { "open", "write", "read", "rename", "unlink", "mkdir", "rmdir", "lseek", "sendfile" };
  return fn >= 0 && fn < F_N ? n[fn] : "?";
}
void setPrefix(const char* p) { strncpy(g.prefix, p, sizeof g.prefix - 1); g.prefix[sizeof g.prefix - 1] = 0; g.prefixLen = strlen(g.prefix); }
void arm(int fn, long nth, int err, long shortBytes) { g.fn = fn; g.countdown = nth; g.err = err; g.shortBytes = shortBytes; g.fired = 0; }
void disarm() { g.fn = -1; g.countdown = 0; }
long fired() { return g.fired; }
long calls(int fn) { return g.calls[fn]; }
long totalInjected() { return g.total; }
}

extern "C" {

typedef int (*open_t)(const char*, int, ...);
static open_t r_open, r_open64;
int open(const char* path, int flags, ...) {
  mode_t mode = 0;
  if (flags & (O_CREAT | __O_TMPFILE)) { va_list ap; va_start(ap, flags); mode = (mode_t)va_arg(ap, int); va_end(ap); }
  if (hit(fsshim::F_OPEN, eligiblePath(path))) { errno = g.err; return -1; }
  return real(r_open, "open")(path, flags, mode);
}
int open64(const char* path, int flags, ...) {
  mode_t mode = 0;
  if (flags & (O_CREAT | __O_TMPFILE)) { va_list ap; va_start(ap, flags); mode = (mode_t)va_arg(ap, int); va_end(ap); }
  if (hit(fsshim::F_OPEN, eligiblePath(path))) { errno = g.err; return -1; }
  return real(r_open64, "open64")(path, flags, mode);
}

typedef ssize_t (*write_t)(int, const void*, size_t);
static write_t r_write;
ssize_t write(int fd, const void* buf, size_t n) {
  if (hit(fsshim::F_WRITE, fd > 2)) {
    if (g.shortBytes < 0) { errno = g.err; return -1; }
    if ((size_t)g.shortBytes < n) n = (size_t)g.shortBytes;
  }
  return real(r_write, "write")(fd, buf, n);
}

typedef ssize_t (*read_t)(int, void*, size_t);
static read_t r_read;
ssize_t read(int fd, void* buf, size_t n) {
  if (hit(fsshim::F_READ, fd > 2)) { errno = g.err; return -1; }
  return real(r_read, "read")(fd, buf, n);
}

typedef int (*rename_t)(const char*, const char*);
static rename_t r_rename;
int rename(const char* from, const char* to) {
  if (hit(fsshim::F_RENAME, eligiblePath(from) || eligiblePath(to))) { errno = g.err; return -1; }
  return real(r_rename, "rename")(from, to);
}

typedef int (*path_t)(const char*);
static path_t r_unlink, r_rmdir;
int unlink(const char* p) {
  long s = stepPre(fsshim::T_UNLINK, p, eligiblePath(p));
  if (hit(fsshim::F_UNLINK, eligiblePath(p))) { errno = g.err; stepPost(fsshim::T_UNLINK, p, s, -1); return -1; }
  int r = real(r_unlink, "unlink")(p); stepPost(fsshim::T_UNLINK, p, s, r); return r;
}
int rmdir(const char* p) {
  long s = stepPre(fsshim::T_RMDIR, p, eligiblePath(p));
  if (hit(fsshim::F_RMDIR, eligiblePath(p))) { errno = g.err; stepPost(fsshim::T_RMDIR, p, s, -1); return -1; }
  int r = real(r_rmdir, "rmdir")(p); stepPost(fsshim::T_RMDIR, p, s, r); return r;
}

typedef int (*mkdir_t)(const char*, mode_t);
static mkdir_t r_mkdir;
int mkdir(const char* p, mode_t m) {
  long s = stepPre(fsshim::T_MKDIR, p, eligiblePath(p));
  if (hit(fsshim::F_MKDIR, eligiblePath(p))) { errno = g.err; stepPost(fsshim::T_MKDIR, p, s, -1); return -1; }
  int r = real(r_mkdir, "mkdir")(p, m); stepPost(fsshim::T_MKDIR, p, s, r); return r;
}

// ---- traced only (no failpoints): the calls a library uses to look before it acts
typedef int (*stat_t)(const char*, struct stat*);
static stat_t r_stat, r_lstat;
int stat(const char* p, struct stat* st) {
  long s = stepPre(fsshim::T_STAT, p, eligiblePath(p));
  stat_t f = real(r_stat, "stat");
  int r = f ? f(p, st) : (int)syscall(SYS_newfstatat, AT_FDCWD, p, st, 0);
  stepPost(fsshim::T_STAT, p, s, r); return r;
}
int lstat(const char* p, struct stat* st) {
  long s = stepPre(fsshim::T_LSTAT, p, eligiblePath(p));
  stat_t f = real(r_lstat, "lstat");
  int r = f ? f(p, st) : (int)syscall(SYS_newfstatat, AT_FDCWD, p, st, AT_SYMLINK_NOFOLLOW);
  stepPost(fsshim::T_LSTAT, p, s, r); return r;
}
typedef int (*stat64_t)(const char*, struct stat64*);
static stat64_t r_stat64, r_lstat64;
int stat64(const char* p, struct stat64* st) {
  long s = stepPre(fsshim::T_STAT, p, eligiblePath(p));
  stat64_t f = real(r_stat64, "stat64");
  int r = f ? f(p, st) : (int)syscall(SYS_newfstatat, AT_FDCWD, p, st, 0);
  stepPost(fsshim::T_STAT, p, s, r); return r;
}
int lstat64(const char* p, struct stat64* st) {
  long s = stepPre(fsshim::T_LSTAT, p, eligiblePath(p));
  stat64_t f = real(r_lstat64, "lstat64");
  int r = f ? f(p, st) : (int)syscall(SYS_newfstatat, AT_FDCWD, p, st, AT_SYMLINK_NOFOLLOW);
  stepPost(fsshim::T_LSTAT, p, s, r); return r;
}
typedef int (*access_t)(const char*, int);
static access_t r_access;
int access(const char* p, int mode) {
  long s = stepPre(fsshim::T_ACCESS, p, eligiblePath(p));
  int r = real(r_access, "access")(p, mode);
  stepPost(fsshim::T_ACCESS, p, s, r); return r;
}
typedef DIR* (*opendir_t)(const char*);
static opendir_t r_opendir;
DIR* opendir(const char* p) {
  long s = stepPre(fsshim::T_OPENDIR, p, eligiblePath(p));
  DIR* d = real(r_opendir, "opendir")(p);
  stepPost(fsshim::T_OPENDIR, p, s, d ? 0 : -1); return d;
}

// the *at variants (dirfd == AT_FDCWD only) so that a library switching to them stays observable
static bool eligibleAt(int dirfd, const char* p) { return dirfd == AT_FDCWD ? eligiblePath(p) : (p && p[0] == '/' && eligiblePath(p)); }
typedef int (*fstatat_t)(int, const char*, struct stat*, int);
static fstatat_t r_fstatat;
int fstatat(int dirfd, const char* p, struct stat* st, int flags) {
  int t = (flags & AT_SYMLINK_NOFOLLOW) ? fsshim::T_LSTAT : fsshim::T_STAT;
  long s = stepPre(t, p, eligibleAt(dirfd, p));
  fstatat_t f = real(r_fstatat, "fstatat");
  int r = f ? f(dirfd, p, st, flags) : (int)syscall(SYS_newfstatat, dirfd, p, st, flags);
  stepPost(t, p, s, r); return r;
}
typedef int (*fstatat64_t)(int, const char*, struct stat64*, int);
static fstatat64_t r_fstatat64;
int fstatat64(int dirfd, const char* p, struct stat64* st, int flags) {
  int t = (flags & AT_SYMLINK_NOFOLLOW) ? fsshim::T_LSTAT : fsshim::T_STAT;
  long s = stepPre(t, p, eligibleAt(dirfd, p));
  fstatat64_t f = real(r_fstatat64, "fstatat64");
  int r = f ? f(dirfd, p, st, flags) : (int)syscall(SYS_newfstatat, dirfd, p, st, flags);
  stepPost(t, p, s, r); return r;
}
typedef int (*statx_t)(int, const char*, int, unsigned, struct statx*);
static statx_t r_statx;
int statx(int dirfd, const char* p, int flags, unsigned mask, struct statx* st) {
  int t = (flags & AT_SYMLINK_NOFOLLOW) ? fsshim::T_LSTAT : fsshim::T_STAT;
  long s = stepPre(t, p, eligibleAt(dirfd, p));
  statx_t f = real(r_statx, "statx");
  int r = f ? f(dirfd, p, flags, mask, st) : (int)syscall(SYS_statx, dirfd, p, flags, mask, st);
  stepPost(t, p, s, r); return r;
}
typedef int (*faccessat_t)(int, const char*, int, int);
static faccessat_t r_faccessat;
int faccessat(int dirfd, const char* p, int mode, int flags) {
  long s = stepPre(fsshim::T_ACCESS, p, eligibleAt(dirfd, p));
  int r = real(r_faccessat, "faccessat")(dirfd, p, mode, flags);
  stepPost(fsshim::T_ACCESS, p, s, r); return r;
}
typedef int (*mkdirat_t)(int, const char*, mode_t);
static mkdirat_t r_mkdirat;
int mkdirat(int dirfd, const char* p, mode_t m) {
  long s = stepPre(fsshim::T_MKDIR, p, eligibleAt(dirfd, p));
  if (hit(fsshim::F_MKDIR, eligibleAt(dirfd, p))) { errno = g.err; stepPost(fsshim::T_MKDIR, p, s, -1); return -1; }
  int r = real(r_mkdirat, "mkdirat")(dirfd, p, m); stepPost(fsshim::T_MKDIR, p, s, r); return r;
}

typedef off_t (*lseek_t)(int, off_t, int);
static lseek_t r_lseek;
off_t lseek(int fd, off_t off, int whence) {
  if (hit(fsshim::F_LSEEK, fd > 2)) { errno = g.err; return (off_t)-1; }
  return real(r_lseek, "lseek")(fd, off, whence);
}
typedef off64_t (*lseek64_t)(int, off64_t, int);
static lseek64_t r_lseek64;
off64_t lseek64(int fd, off64_t off, int whence) {
  if (hit(fsshim::F_LSEEK, fd > 2)) { errno = g.err; return (off64_t)-1; }
  return real(r_lseek64, "lseek64")(fd, off, whence);
}

typedef ssize_t (*sendfile_t)(int, int, off_t*, size_t);
static sendfile_t r_sendfile;
ssize_t sendfile(int out, int in, off_t* off, size_t n) {
  if (hit(fsshim::F_SENDFILE, out > 2)) {
    if (g.shortBytes < 0) { errno = g.err; return -1; }
    if ((size_t)g.shortBytes < n) n = (size_t)g.shortBytes;
  }
  return real(r_sendfile, "sendfile")(out, in, off, n);
}
typedef ssize_t (*sendfile64_t)(int, int, off64_t*, size_t);
static sendfile64_t r_sendfile64;
ssize_t sendfile64(int out, int in, off64_t* off, size_t n) {
  if (hit(fsshim::F_SENDFILE, out > 2)) {
    if (g.shortBytes < 0) { errno = g.err; return -1; }
    if ((size_t)g.shortBytes < n) n = (size_t)g.shortBytes;
  }
  return real(r_sendfile64, "sendfile64")(out, in, off, n);
}

}
