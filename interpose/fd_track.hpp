// fd_track.hpp - descriptor-ownership monitor for the child-process checks (C20).
// close/pipe/pipe2/dup/dup2/dup3/socketpair/open/open64/select/read/write are *defined in the harness executable* (fd_track.cpp), so the
// calls made by libnstd's objects resolve to them; the real libc function is reached through dlsym(RTLD_NEXT, ...). Nothing is injected,
// the calls are only observed:
//  * every descriptor number returned by a creating call is registered to the "owner" of the calling thread's current Scope (a library
//    object, identified by a serial number chosen by the harness) or to the harness itself when no Scope is active;
//  * a close() made inside a Scope (= by the library on behalf of that object) is a violation when the kernel answers EBADF (the number was
//    not open: double close) or when the number is currently registered - and still refers to the same kernel object (st_dev/st_ino recorded
//    at registration) - to ANOTHER owner: another library object or the harness (the object closes a number it released earlier and that has
//    been re-issued since). A number of unknown origin (created by a call that is not interposed) is never a violation;
//  * select() inside a Scope that fails with EBADF, and read/write/select inside a Scope on a number registered to another owner, are violations.
// Calls made in another process (the vfork/fork child shares this memory) are passed through untouched: only the process that called
// enable() is monitored. All decisions are functions of the call sequence, never of time.
#pragma once
#include <stddef.h>

namespace fdtrack {
enum Kind { K_CLOSE_EBADF, K_CLOSE_OTHER_OBJECT, K_CLOSE_HARNESS, K_SELECT_EBADF, K_USE_OTHER_OBJECT, K_USE_HARNESS, K_N };
const char* kindName(int kind);
struct Violation {
  int kind; int fd;
  const char* api; unsigned long owner;            // the Scope in which the call was made
  unsigned long other; const char* otherApi;       // current holder of the number (0 = the harness) and the API entry during which it was handed out
  unsigned long releasedBy; const char* releasedIn; // who closed this number last (0 = unknown) and inside which API entry
  const char* call;                                // "close", "select", "read", "write"
};
typedef void (*Handler)(const Violation&);
void enable(Handler h);       // from now on the calling process is monitored
void disable();

// RAII: the library calls made by this thread until the Scope ends are made on behalf of `owner` (> 0) inside API entry `api` (a string
// that outlives the process' use of the number: a literal)
struct Scope {
  unsigned long prevOwner; const char* prevApi;
  Scope(unsigned long owner, const char* api);
  ~Scope();
};

void born(unsigned long owner);     // the object exists from now on
void retire(unsigned long owner);   // the object is gone (destroyed); forgets its released-number memory
int ownedCount(unsigned long owner);                     // numbers currently registered to owner (open as far as the monitor knows)
int ownedList(unsigned long owner, int* out, int max);   // the numbers themselves, ascending
const char* createdIn(int fd);                           // API entry during which the number was handed out ("" when unknown)

enum Stat { S_LIB_CLOSES, S_LIB_CREATES, S_HARNESS_CREATES, S_REUSE_OTHER_OBJECT, S_REUSE_RELEASER_ALIVE, S_REUSE_LIB_TO_HARNESS, S_LIB_SELECTS, S_LIB_READS, S_LIB_WRITES,
            S_LIB_CLOSES_UNKNOWN_ORIGIN, S_N };
long stat(int which);
}
