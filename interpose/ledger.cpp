// ledger.cpp - allocation ledger for the `plain` variant (native speed, no ASan): replaces global operator new/delete in the harness executable.
// Detects double free / free of unknown pointers (header magic), write-after-free (freed blocks are poisoned with 0xDD, quarantined, and the poison is
// verified on eviction), and reports the number of live blocks. libnstd does not define operator new/delete itself, so every library allocation passes here.
#include <stdlib.h>
#include <string.h>
#include <stdint.h>
#include <stdio.h>
#include <execinfo.h>
#include <unistd.h>
extern "C" void verif_ledger_violation(const char* what, const void* block, unsigned long size) __attribute__((weak));
namespace {
struct Hdr { size_t size; uint64_t magic; };
const uint64_t LIVE = 0xA11C0C8EDB10C4ULL, DEAD = 0xDEADB10CDEADB10CULL;
long g_live = 0, g_allocs = 0, g_frees = 0, g_verified = 0;
enum { QN = 4096 };
Hdr* g_q[QN]; unsigned g_qpos = 0; volatile int g_qlock = 0;
void report(const char* what, const void* p, size_t n) { if (verif_ledger_violation) verif_ledger_violation(what, p, n); else { fprintf(stderr, "ledger: %s at %p (%lu bytes)\n", what, p, (unsigned long)n); abort(); } }
int g_trace = -1;
void* alloc(size_t n) { Hdr* h = (Hdr*)malloc(n + sizeof(Hdr)); if (!h) abort(); if (g_trace < 0) g_trace = getenv("VERIF_LEDGER_TRACE") ? 1 : 0; if (g_trace) { void* bt[12]; int k = backtrace(bt, 12); dprintf(2, "LEDGER+ %p %lu\n", (void*)(h + 1), (unsigned long)n); backtrace_symbols_fd(bt, k, 2); } h->size = n; h->magic = LIVE; __atomic_fetch_add(&g_live, 1, __ATOMIC_RELAXED); __atomic_fetch_add(&g_allocs, 1, __ATOMIC_RELAXED); memset(h + 1, 0xBE, n); return h + 1; }
void release(void* p) {
  if (!p) return;
  if (g_trace > 0) dprintf(2, "LEDGER- %p\n", p);
  Hdr* h = (Hdr*)p - 1;
  uint64_t m = __atomic_exchange_n(&h->magic, DEAD, __ATOMIC_RELAXED);
  if (m == DEAD) { report("double-free", p, h->size); return; }
  if (m != LIVE) { report("free-of-unknown-block", p, 0); return; }
  __atomic_fetch_sub(&g_live, 1, __ATOMIC_RELAXED); __atomic_fetch_add(&g_frees, 1, __ATOMIC_RELAXED);
  memset(p, 0xDD, h->size);
  while (__atomic_exchange_n(&g_qlock, 1, __ATOMIC_ACQUIRE)) {}
  Hdr* old = g_q[g_qpos]; g_q[g_qpos] = h; g_qpos = (g_qpos + 1) % QN;
  __atomic_store_n(&g_qlock, 0, __ATOMIC_RELEASE);
  if (old) { const unsigned char* b = (const unsigned char*)(old + 1); for (size_t i = 0; i < old->size; ++i) if (b[i] != 0xDD) { report("write-after-free", b, old->size); break; } if (old->magic != DEAD) report("write-after-free(header)", b, old->size); __atomic_fetch_add(&g_verified, 1, __ATOMIC_RELAXED); free(old); }
}
}
extern "C" long verif_ledger_live() { return __atomic_load_n(&g_live, __ATOMIC_RELAXED); }
extern "C" long verif_ledger_allocs() { return __atomic_load_n(&g_allocs, __ATOMIC_RELAXED); }
extern "C" long verif_ledger_verified() { return __atomic_load_n(&g_verified, __ATOMIC_RELAXED); }
void* operator new(size_t n) { return alloc(n); }
void* operator new[](size_t n) { return alloc(n); }
void operator delete(void* p) noexcept { release(p); }
void operator delete[](void* p) noexcept { release(p); }
void operator delete(void* p, size_t) noexcept { release(p); }
void operator delete[](void* p, size_t) noexcept { release(p); }
