// pthread_shims.cpp - interposition of condition-variable / mutex / semaphore calls made by libnstd (asan and plain builds only; under TSan the
// runtime's own interceptors must stay in place). Defined in the harness executable, so calls from the statically linked library objects bind here;
// the real functions are reached through dlvsym/dlsym(RTLD_NEXT).
//  * lifetime registry keyed by address: *_init -> live, *_destroy -> dead; signal/broadcast/wait/post on a dead object is reported
//    (ASan cannot see this: glibc is not instrumented).
//  * seeded perturbation before/after unlock, notify and wait (the windows C10/C11 name) and legal spurious wake-ups.
// All state is atomics or thread-local: the monitor is not itself a race.
#include <pthread.h>
#include <semaphore.h>
#include <dlfcn.h>
#include <stdint.h>
#include <sched.h>
#include <unistd.h>
#include <stdio.h>
#include <string.h>
#include <errno.h>

extern "C" {
// knobs set by the harness (plain ints, written before threads start or with relaxed atomics)
volatile int verif_pt_delay_permille = 0;      // probability (per mille) of a perturbation at each window
volatile int verif_pt_spurious_permille = 0;   // probability of a legal spurious wake-up in cond_wait/timedwait
volatile int verif_pt_eintr_permille = 0;      // probability that sem_timedwait/sem_wait is interrupted (returns -1, errno EINTR) before waiting
volatile uint64_t verif_pt_seed = 1;
// counters (read by the harness for the evidence)
volatile long verif_pt_delays = 0, verif_pt_spurious = 0, verif_pt_calls = 0, verif_pt_dead_uses = 0, verif_pt_eintrs = 0;
// harness callback; weak so that the shims link without it
void verif_pt_violation(const char* what, const void* addr) __attribute__((weak));
}

namespace {
enum { TABSZ = 1 << 16 };
struct Ent { const void* volatile addr; volatile int state; volatile int waiters; };   // 1 live, 2 dead; waiters = threads inside the real cond_wait
Ent g_tab[TABSZ];

inline size_t slot(const void* a) { return (size_t)(((uintptr_t)a >> 3) * 0x9e3779b97f4a7c15ULL >> 40) & (TABSZ - 1); }
Ent* lookup(const void* a, bool create) {
  size_t s = slot(a);
  for (int i = 0; i < 64; ++i) {
    Ent* e = &g_tab[(s + i) & (TABSZ - 1)];
    const void* cur = __atomic_load_n(&e->addr, __ATOMIC_RELAXED);
    if (cur == a) return e;
    if (!cur) { if (!create) return 0; const void* exp = 0; if (__atomic_compare_exchange_n(&e->addr, &exp, a, false, __ATOMIC_RELAXED, __ATOMIC_RELAXED) || exp == a) return e; }
  }
  return 0;
}
void mark(const void* a, int st) { Ent* e = lookup(a, true); if (e) __atomic_store_n(&e->state, st, __ATOMIC_RELAXED); }
void use(const void* a, const char* what) {
  Ent* e = lookup(a, false);
  if (e && __atomic_load_n(&e->state, __ATOMIC_RELAXED) == 2) {
    __atomic_fetch_add(&verif_pt_dead_uses, 1, __ATOMIC_RELAXED);
    if (verif_pt_violation) verif_pt_violation(what, a);
  }
}

__thread uint64_t t_rng = 0;
inline uint64_t rnd() {
  if (!t_rng) { static volatile uint64_t ctr = 0; t_rng = (verif_pt_seed + __atomic_add_fetch(&ctr, 1, __ATOMIC_RELAXED)) * 0x9e3779b97f4a7c15ULL | 1; }
  uint64_t x = t_rng; x ^= x << 13; x ^= x >> 7; x ^= x << 17; t_rng = x; return x;
}
inline void perturb() {
  int p = verif_pt_delay_permille; if (!p) return;
  uint64_t r = rnd();
  if ((int)(r % 1000) >= p) return;
  __atomic_fetch_add(&verif_pt_delays, 1, __ATOMIC_RELAXED);
  unsigned k = (unsigned)((r >> 20) % 8);
  if (k < 4) sched_yield(); else if (k < 7) usleep((useconds_t)(1 + (r >> 30) % 50)); else usleep((useconds_t)(100 + (r >> 30) % 400));
}

template <typename F> F real(F& cache, const char* name, const char* ver) {
  if (!cache) { void* p = ver ? dlvsym(RTLD_NEXT, name, ver) : 0; if (!p) p = dlsym(RTLD_NEXT, name); cache = (F)p; }
  return cache;
}
}

#define REAL(ret, name, ver, ...) typedef ret (*name##_t)(__VA_ARGS__); static name##_t name##_real = 0; name##_t fn = real(name##_real, #name, ver)

extern "C" int verif_pt_waiters(const void* cond) { Ent* e = lookup(cond, false); return e ? __atomic_load_n(&e->waiters, __ATOMIC_RELAXED) : 0; }
extern "C" {
int pthread_cond_init(pthread_cond_t* c, const pthread_condattr_t* a) { REAL(int, pthread_cond_init, "GLIBC_2.3.2", pthread_cond_t*, const pthread_condattr_t*); int r = fn(c, a); mark(c, 1); return r; }
int pthread_cond_destroy(pthread_cond_t* c) { REAL(int, pthread_cond_destroy, "GLIBC_2.3.2", pthread_cond_t*); use(c, "cond_destroy-on-destroyed"); perturb(); int r = fn(c); mark(c, 2); return r; }
int pthread_cond_signal(pthread_cond_t* c) { REAL(int, pthread_cond_signal, "GLIBC_2.3.2", pthread_cond_t*); __atomic_fetch_add(&verif_pt_calls, 1, __ATOMIC_RELAXED); perturb(); use(c, "cond_signal-on-destroyed"); int r = fn(c); perturb(); return r; }
int pthread_cond_broadcast(pthread_cond_t* c) { REAL(int, pthread_cond_broadcast, "GLIBC_2.3.2", pthread_cond_t*); __atomic_fetch_add(&verif_pt_calls, 1, __ATOMIC_RELAXED); perturb(); use(c, "cond_broadcast-on-destroyed"); int r = fn(c); perturb(); return r; }
int pthread_cond_wait(pthread_cond_t* c, pthread_mutex_t* m) {
  REAL(int, pthread_cond_wait, "GLIBC_2.3.2", pthread_cond_t*, pthread_mutex_t*);
  __atomic_fetch_add(&verif_pt_calls, 1, __ATOMIC_RELAXED);
  use(c, "cond_wait-on-destroyed");
  int sp = verif_pt_spurious_permille;
  if (sp && (int)(rnd() % 1000) < sp) {   // legal spurious wake-up: release, yield, re-acquire, return 0
    __atomic_fetch_add(&verif_pt_spurious, 1, __ATOMIC_RELAXED);
    typedef int (*mf)(pthread_mutex_t*); static mf ul = 0, lk = 0; real(ul, "pthread_mutex_unlock", 0); real(lk, "pthread_mutex_lock", 0);
    ul(m); sched_yield(); lk(m); return 0;
  }
  perturb();
  Ent* e = lookup(c, true); if (e) __atomic_fetch_add(&e->waiters, 1, __ATOMIC_RELAXED);   // still holding m: a later lock of m by another thread proves we are parked
  int r = fn(c, m);
  if (e) __atomic_fetch_sub(&e->waiters, 1, __ATOMIC_RELAXED);
  perturb();
  return r;
}
int pthread_cond_timedwait(pthread_cond_t* c, pthread_mutex_t* m, const struct timespec* ts) {
  REAL(int, pthread_cond_timedwait, "GLIBC_2.3.2", pthread_cond_t*, pthread_mutex_t*, const struct timespec*);
  __atomic_fetch_add(&verif_pt_calls, 1, __ATOMIC_RELAXED);
  use(c, "cond_timedwait-on-destroyed");
  int sp = verif_pt_spurious_permille;
  if (sp && (int)(rnd() % 1000) < sp) {
    __atomic_fetch_add(&verif_pt_spurious, 1, __ATOMIC_RELAXED);
    typedef int (*mf)(pthread_mutex_t*); static mf ul = 0, lk = 0; real(ul, "pthread_mutex_unlock", 0); real(lk, "pthread_mutex_lock", 0);
    ul(m); sched_yield(); lk(m); return 0;
  }
  perturb();
  Ent* e = lookup(c, true); if (e) __atomic_fetch_add(&e->waiters, 1, __ATOMIC_RELAXED);
  int r = fn(c, m, ts);
  if (e) __atomic_fetch_sub(&e->waiters, 1, __ATOMIC_RELAXED);
  perturb();
  return r;
}
int pthread_mutex_init(pthread_mutex_t* m, const pthread_mutexattr_t* a) { REAL(int, pthread_mutex_init, 0, pthread_mutex_t*, const pthread_mutexattr_t*); int r = fn(m, a); mark(m, 1); return r; }
int pthread_mutex_destroy(pthread_mutex_t* m) { REAL(int, pthread_mutex_destroy, 0, pthread_mutex_t*); use(m, "mutex_destroy-on-destroyed"); int r = fn(m); mark(m, 2); return r; }
int pthread_mutex_lock(pthread_mutex_t* m) { REAL(int, pthread_mutex_lock, 0, pthread_mutex_t*); use(m, "mutex_lock-on-destroyed"); perturb(); return fn(m); }
int pthread_mutex_unlock(pthread_mutex_t* m) { REAL(int, pthread_mutex_unlock, 0, pthread_mutex_t*); use(m, "mutex_unlock-on-destroyed"); int r = fn(m); perturb(); return r; }
int sem_init(sem_t* s, int sh, unsigned v) { REAL(int, sem_init, "GLIBC_2.2.5", sem_t*, int, unsigned); int r = fn(s, sh, v); mark(s, 1); return r; }
int sem_destroy(sem_t* s) { REAL(int, sem_destroy, "GLIBC_2.2.5", sem_t*); use(s, "sem_destroy-on-destroyed"); int r = fn(s); mark(s, 2); return r; }
int sem_post(sem_t* s) { REAL(int, sem_post, "GLIBC_2.2.5", sem_t*); __atomic_fetch_add(&verif_pt_calls, 1, __ATOMIC_RELAXED); perturb(); use(s, "sem_post-on-destroyed"); int r = fn(s); perturb(); return r; }
int sem_timedwait(sem_t* s, const struct timespec* ts) { REAL(int, sem_timedwait, "GLIBC_2.2.5", sem_t*, const struct timespec*); __atomic_fetch_add(&verif_pt_calls, 1, __ATOMIC_RELAXED); use(s, "sem_timedwait-on-destroyed");
  int ep = verif_pt_eintr_permille; if (ep && (int)(rnd() % 1000) < ep) { __atomic_fetch_add(&verif_pt_eintrs, 1, __ATOMIC_RELAXED); errno = EINTR; return -1; }   // as if a signal handler had run
  perturb(); int r = fn(s, ts); perturb(); return r; }
int sem_wait(sem_t* s) { REAL(int, sem_wait, "GLIBC_2.2.5", sem_t*); __atomic_fetch_add(&verif_pt_calls, 1, __ATOMIC_RELAXED); use(s, "sem_wait-on-destroyed"); perturb(); int r = fn(s); perturb(); return r; }
}
