// tsan_volatile.cpp - linked into every tsan-variant harness (DESIGN.md 2.3).
// gcc's `--param tsan-distinguish-volatile=1` emits calls to __tsan_volatile_{read,write}N, which libtsan does not define.
// libnstd's "atomics" are volatile words accessed with plain loads/stores next to __sync RMWs; they are given the semantics the code really gets on
// x86-64: loads acquire, stores release. Non-volatile conflicting accesses are still reported.
// Atomic::swap/testAndSet (= __sync_lock_test_and_set, acquire-only in the C++ model, a full-fence xchg on x86-64) are used to publish data; the exchange
// entry points are interposed and forwarded with seq_cst.
#include <dlfcn.h>
#include <stdint.h>
extern "C" {
void __tsan_acquire(void* addr);
void __tsan_release(void* addr);
static volatile long g_volatile_events = 0;
long verif_tsan_volatile_events() { return g_volatile_events; }
#define RD(n) void __tsan_volatile_read##n(void* a) { __tsan_acquire(a); ++g_volatile_events; } void __tsan_unaligned_volatile_read##n(void* a) { __tsan_acquire(a); }
#define WR(n) void __tsan_volatile_write##n(void* a) { __tsan_release(a); ++g_volatile_events; } void __tsan_unaligned_volatile_write##n(void* a) { __tsan_release(a); }
RD(1) RD(2) RD(4) RD(8) RD(16) WR(1) WR(2) WR(4) WR(8) WR(16)

#define XCHG(bits, T) \
  T __tsan_atomic##bits##_exchange(volatile T* a, T v, int mo) { \
    typedef T (*fn_t)(volatile T*, T, int); static fn_t real = 0; \
    if (!real) real = (fn_t)dlsym(RTLD_NEXT, "__tsan_atomic" #bits "_exchange"); \
    (void)mo; return real(a, v, 5 /* seq_cst */); }
XCHG(8, uint8_t) XCHG(16, uint16_t) XCHG(32, uint32_t) XCHG(64, uint64_t)
}
