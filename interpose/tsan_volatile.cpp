// tsan_volatile.cpp - linked into every tsan-variant harness (DESIGN.md 2.3).
// gcc's `--param tsan-distinguish-volatile=1` emits calls to __tsan_volatile_{read,write}N, which libtsan does not define.
// libnstd's "atomics" are volatile words accessed with plain loads/stores next to __sync RMWs; they are given the semantics the code really gets on
// x86-64: loads acquire, stores release. Non-volatile conflicting accesses are still reported.
// Atomic::swap/testAndSet (= __sync_lock_test_and_set, acquire-only in the C++ model, a full-fence xchg on x86-64) are used to publish data; the exchange
// entry points are interposed and forwarded with seq_cst.
// The read annotation runs just BEFORE the annotated load executes, so a release that lands between the two would be missed (one-off false report when
// the reader is preempted in that window). Every annotated address is therefore remembered per thread and acquired AGAIN at the thread's next
// annotated or interposed atomic operation, BEFORE that operation executes (the thread still holds whatever reference kept the address alive; after its
// own decrement the word may be freed by another thread). In libnstd's lock-free code a CAS/RMW always follows the volatile ticket read before data is touched.
#include <dlfcn.h>
#include <stdint.h>
#define NST __attribute__((no_sanitize_thread))
extern "C" {
void __tsan_acquire(void* addr);
void __tsan_release(void* addr);
// event counter: thread-local, flushed rarely, so that the annotation returns immediately before the annotated access executes
static long g_volatile_events = 0;
static __thread unsigned t_events = 0;
static __thread void* t_pending[4];
static __thread unsigned t_npending = 0;
NST static inline void note() { if ((++t_events & 4095) == 0) __atomic_fetch_add(&g_volatile_events, 4096, __ATOMIC_RELAXED); }
NST static inline void reacquire() { unsigned n = t_npending; if (!n) return; t_npending = 0; for (unsigned i = 0; i < n && i < 4; ++i) __tsan_acquire(t_pending[i]); }
NST static inline void remember(void* a) { if (t_npending < 4) t_pending[t_npending++] = a; else { t_pending[0] = t_pending[1]; t_pending[1] = t_pending[2]; t_pending[2] = t_pending[3]; t_pending[3] = a; } }
NST long verif_tsan_volatile_events() { return __atomic_load_n(&g_volatile_events, __ATOMIC_RELAXED); }
#define RD(n) NST void __tsan_volatile_read##n(void* a) { note(); reacquire(); remember(a); __tsan_acquire(a); } NST void __tsan_unaligned_volatile_read##n(void* a) { reacquire(); remember(a); __tsan_acquire(a); }
#define WR(n) NST void __tsan_volatile_write##n(void* a) { note(); reacquire(); __tsan_release(a); } NST void __tsan_unaligned_volatile_write##n(void* a) { reacquire(); __tsan_release(a); }
RD(1) RD(2) RD(4) RD(8) RD(16) WR(1) WR(2) WR(4) WR(8) WR(16)

#define REALFN(name) static name##_t real = 0; if (!real) real = (name##_t)dlsym(RTLD_NEXT, #name)
#define XCHG(bits, T) \
  NST T __tsan_atomic##bits##_exchange(volatile void* a, T v, int mo) { \
    typedef T (*fn_t)(volatile void*, T, int); static fn_t real = 0; \
    if (!real) real = (fn_t)dlsym(RTLD_NEXT, "__tsan_atomic" #bits "_exchange"); \
    (void)mo; reacquire(); return real(a, v, 5 /* seq_cst */); } \
  NST T __tsan_atomic##bits##_fetch_add(volatile void* a, T v, int mo) { \
    typedef T (*fn_t)(volatile void*, T, int); static fn_t real = 0; \
    if (!real) real = (fn_t)dlsym(RTLD_NEXT, "__tsan_atomic" #bits "_fetch_add"); \
    reacquire(); return real(a, v, mo); } \
  NST bool __tsan_atomic##bits##_compare_exchange_strong(volatile void* a, void* c, T v, int mo, int fmo) { \
    typedef bool (*fn_t)(volatile void*, void*, T, int, int); static fn_t real = 0; \
    if (!real) real = (fn_t)dlsym(RTLD_NEXT, "__tsan_atomic" #bits "_compare_exchange_strong"); \
    reacquire(); return real(a, c, v, mo, fmo); }
XCHG(8, unsigned char) XCHG(16, unsigned short) XCHG(32, unsigned int) XCHG(64, unsigned long)
NST void __tsan_atomic_thread_fence(int mo) {
  typedef void (*fn_t)(int); static fn_t real = 0; if (!real) real = (fn_t)dlsym(RTLD_NEXT, "__tsan_atomic_thread_fence");
  reacquire(); real(mo); }
}
