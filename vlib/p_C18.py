# C18 job table (see DESIGN.md section 3 / C18): text codecs and numeric conversions
from .jobs import job, Q, T
from . import codec_ref

SPEC = dict(
    level='exploration',
    rule='case = one enumerated slice or one generated input: cp = a block of 4096 code points (all 1,114,112 + a block of values above U+10FFFF); '
         'dec2/dec3 = all byte strings of length <=2 / =3 with a given first byte (prefix); dec4 = all 4-byte strings starting with a 4-byte lead 0xF0..0xF7; dec-rand = one UTF-8-ish random string of <=16 bytes with all its prefixes; '
         'int = the boundary set or 250 random 64-bit patterns seen through int/uint/int64/uint64, each from*() text also parsed by the member to*() / toDouble() of a String ATTACHED to exactly these '
         'characters inside a larger exactly-sized heap block whose bytes behind the range are {terminator, digits+terminator, digits up to the block end, sign+digit, .d/ed+terminator, one non-digit byte at the block end} '
         '(boundary set: every class twice; random values: one drawn class), plus from*(to*(view)) == view and decimal / %.17g double texts through toDouble on such views; hex = single bytes, all 2-byte strings, random buffers <600 bytes; '
         'b64/b64-3/b64-rand = RFC 4648 encodings (independent in-harness encoder, cross-checked against Python base64) of all byte strings of length <=2 / =3 / random <=300; '
         'b64-bytes = 4-byte groups with two positions running over all 256^2 values (alone, after and before a valid group) and random non-encodings. '
         'distinct = hash of the slice index and the observed results; non-trivial = every enumerated slice, random strings of >=2 bytes. '
         'Compared per input: toString vs reference encoder and (offline) Python utf-8; fromString(toString(c)) == c incl. surrogates; length; isValid '
         '(must accept strict UTF-8, must reject structurally malformed/truncated; overlong, surrogate and >U+10FFFF forms unconstrained); fromString on arbitrary bytes '
         '(value only for complete strict/surrogate sequences); from*/to* integers vs printf-free digits and Python int (attached views: value of exactly the attached characters, block unchanged); fromHex vs upper-case digits; fromBase64 vs original bytes.',
    assumptions=['String::attach(p, n) requires p[n] to be readable: the pinned operator const char*() tests str[len] to decide whether a terminated private copy is needed, so an attached '
                 'range that ends exactly at the end of its heap block is an ASan report in the UNCHANGED library; the views therefore keep at least one byte behind the range',
                 'ASan/UBSan red zones: every decoder input is the whole of an exactly-sized heap block (String inputs: owned copy and a String attached to an exactly-sized terminated block)',
                 'Python utf-8 codec, int, bytes.hex and base64 are the standards (self-checked on RFC examples at every run)',
                 'for surrogates only the inverse claim is checked; for values above U+10FFFF, truncated or malformed sequences only memory safety (and isValid == false for structurally broken input)',
                 'fromBase64 on inputs that are not canonical RFC 4648 encodings: memory safety, termination, length bound and determinism only',
                 'fallback build (-DVERIF_NO_PRIVATE): that a String really refers to the block it was attach()ed to is what the harness did, it is not confirmed by a look at the private fields'],
    technique='exhaustive enumeration of small input spaces under ASan/UBSan + reference comparison (online dumb models, offline Python stdlib)',
    exhaustive={Q: True, T: True},
    jobs=[
        job('cp', 'h_codec', 'cp', cases=-1, procs=16, rec=True),
        job('dec2', 'h_codec', 'dec2', cases=-1, procs=16, rec=True),
        job('dec3', 'h_codec', 'dec3', cases=-1, procs=16),
        job('dec4', 'h_codec', 'dec4', cases={Q: 0, T: -1}, procs=16),
        job('dec-rand', 'h_codec', 'dec-rand', cases={Q: 80000, T: 1500000}, procs=16, rec=True),
        job('int', 'h_codec', 'int', cases={Q: 802, T: 4001}, procs=16, rec=True),
        job('hex', 'h_codec', 'hex', cases={Q: 1000, T: 6000}, procs=16, rec=True),
        job('b64', 'h_codec', 'b64', cases=-1, procs=16, rec=True),
        job('b64-3', 'h_codec', 'b64-3', cases={Q: 0, T: -1}, procs=16, rec=True),
        job('b64-rand', 'h_codec', 'b64-rand', cases={Q: 12000, T: 200000}, procs=16, rec=True),
        job('b64-bytes', 'h_codec', 'b64-bytes', cases={Q: 96 + 400, T: 96 + 10000}, procs=16, probes=["String.fromBase64/byte>=0x80/ubsan:index-N-out-of-bounds-for-type-'unsigned-char-[N]'", 'String.fromBase64/byte>=0x80']),
    ],
    floors={Q: dict(ops=60000000, code_points=1114112, encodings_compared=1112064, inverse_checks=2228224, truncated_inputs=3000000, array_overload_groups=17408, out_of_range_code_points=4096,
                    offline_code_points_compared=1112064, offline_code_points_seen_incl_surrogates=1114112,
                    strings_len0=1, strings_len1=256, strings_len2=65536, strings_len3=16777216, decoder_inputs=17000000, fromstring_values_compared=4000000, offline_isvalid_compared=65793, offline_decodes_compared=2000,
                    int_values=400000, int_texts_compared=400000, int_parses=1200000, offline_ints_compared=20000,
                    int_attached_views=400000, int_attached_parses=1400000, int_attached_unterminated_parses=900000, int_attached_terminated_parses=50000, int_attached_views_with_digits_behind=200000,
                    int_attached_views_ending_at_block_end=150000, int_attached_round_trips=400000, int_attached_empty_views=24, attached_state_confirmed=2000000,
                    double_attached_parses=250000, double_texts_attached=6000, offline_attached_parses_compared=40000,
                    hex_single_bytes=256, hex_calls=70000, offline_hex_compared=3000,
                    b64_roundtrips=70000, offline_base64_compared=70000, b64_group_position_pairs=393216, b64_inputs_with_high_bytes=300000, b64_random_arbitrary=80000,
                    **{'set:first_sequence_classes': 6, 'set:code_point_classes': 5, 'set:int_classes': 7, 'set:b64_padding_classes': 3, 'set:b64_free_positions': 6,
                       'set:attached_follow_classes': 6, 'set:attached_state_classes': 3}),
            T: dict(ops=300000000, code_points=1114112, encodings_compared=1112064, inverse_checks=2228224, truncated_inputs=3000000, array_overload_groups=17408, out_of_range_code_points=4096,
                    offline_code_points_compared=1112064, offline_code_points_seen_incl_surrogates=1114112,
                    strings_len0=1, strings_len1=256, strings_len2=65536, strings_len3=16777216, strings_len4_lead4=134217728, decoder_inputs=150000000, fromstring_values_compared=7000000,
                    offline_isvalid_compared=65793, offline_decodes_compared=2000,
                    int_values=4000000, int_texts_compared=4000000, int_parses=12000000, offline_ints_compared=200000,
                    int_attached_views=4000000, int_attached_parses=13000000, int_attached_unterminated_parses=8500000, int_attached_terminated_parses=500000, int_attached_views_with_digits_behind=2000000,
                    int_attached_views_ending_at_block_end=1500000, int_attached_round_trips=4000000, int_attached_empty_views=24, attached_state_confirmed=20000000,
                    double_attached_parses=2500000, double_texts_attached=60000, offline_attached_parses_compared=250000,
                    hex_single_bytes=256, hex_calls=180000, offline_hex_compared=30000,
                    b64_roundtrips=17000000, offline_base64_compared=300000, b64_group_position_pairs=393216, b64_inputs_with_high_bytes=1000000, b64_random_arbitrary=2000000,
                    **{'set:first_sequence_classes': 6, 'set:code_point_classes': 5, 'set:int_classes': 7, 'set:b64_padding_classes': 3, 'set:b64_free_positions': 6,
                       'set:attached_follow_classes': 6, 'set:attached_state_classes': 3})},
    post=codec_ref.post,
)
