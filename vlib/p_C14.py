# C14 job table (see DESIGN.md section 3 / C14)
from .jobs import job, Q, T

SRC = ['harness/h_server_loop.cpp', 'interpose/net_shims.cpp']

SPEC = dict(
    level='exploration',
    rule='world: one seeded scenario of 5..25 external steps in virtual time over timers (intervals 1,2,3,5,10,1000 ms, bursts created in one tick), socket-pair clients, '
         'loopback listeners with raw connections, establishers to an open and a closed port - by address and by HOST NAME (Server::connect(host, port): unresolvable name, name of the open / closed port, '
         'numeric host string); name resolution is scripted: getaddrinfo is interposed and every resolution waits in the library\'s resolver thread until the scenario completes it as an external event '
         '(also after its establisher was removed, and all of them before the scenario ends), so establishers are removed while resolving / resolved but not yet processed by the loop, and onAbolished '
         'removes the failed establisher and reconnects by name at once (pool slot reuse); random Server API calls between run() calls and inside every callback kind '
         '(create, remove self/others - preferring sockets whose event is selected but undelivered -, write with forced partial/EAGAIN/error sends, suspend/resume, interrupt once/twice, '
         'writes to 2..3 clients that all fail hard in one go so that several onClosed notifications are queued in the same loop iteration - and onClosed drops another client whose notification is still queued); '
         'onAccepted and onConnected additionally act on the client they are handed before returning its callback object (nothing / write / suspend / suspend+write / write+suspend, the write '
         'with a forced partial / EAGAIN / hard-error send or left to the kernel) and the peer talks at once; '
         'EINTR and oversleep injected into epoll_wait. equal-due: enumerated - n timers due in the same tick, timer i removes timer j at its first activation (all n<=N, i, j, with/without slot reuse). '
         'threads: 1..3 threads call interrupt() at seeded real offsets while run() polls (plain and tsan builds); a completed interrupt() after which the loop thread stays parked in epoll_wait, never scheduled, for 30+5 s is a lost wake-up (bounded progress decided on /proc scheduler state, anything else that slow is inconclusive). '
         'distinct = hash of the callback/action sequence; non-trivial = at least one removal and three callbacks (threads: at least two run() returns). '
         'Checked on every callback: object alive, timer not early / ordered; on every poll: no due timer left, timeout within next due, interrupt honoured; '
         'at every idle point: independent poll() on every registered fd vs. the loop\'s poll set, failed I/O followed by onClosed, backlog accounting.',
    assumptions=['ASan/UBSan; library ASSERTs enabled (-DDEBUG); TSan with volatile-as-atomic annotation for the threaded job',
                 'Timer interval 0 is outside the statement (the dispatch loop cannot terminate)',
                 'Server API calls other than interrupt() are made only from the loop thread (between run() calls or inside callbacks)',
                 'inside onAccepted/onConnected the new client is disposed of by returning a null callback (optionally after remove()), never by remove() plus a non-null callback',
                 'a peer that closes while its client is suspended without backlog is not generated (the loop then spins on EPOLLHUP; no statement of C14 is violated by that)',
                 'loopback TCP delivery is asynchronous: the harness waits (bounded, real time) until its own poll() sees in-flight traffic before judging the loop; exceeding the bound is inconclusive, never a violation',
                 'readiness verdict: fd ready per independent poll() while the loop blocks is a violation only if the needed event bits are missing from the epoll registration observed at the epoll_ctl boundary; with the registration in place the kernel wake-up is considered in flight and re-polled',
                 'host-name establishers: the resolver threads of the library run for real; a resolution completes only when the scenario says so (the interposed getaddrinfo blocks until then) and the harness '
                 'then waits in real time (bounded, 30 s, exceeding it is inconclusive) until the resolver thread has written the loop\'s wake-up descriptor - only then the scenario continues, and a completion is never '
                 'scripted while that descriptor is already readable; with that, the callback sequence of a case does not depend on thread timing. The library\'s thread pool is configured (verification hook) to 12 workers, '
                 'at most 6 resolutions wait at any time',
                 'a by-name establisher must not get a callback before its resolution completed; once it completed and the loop was woken, the loop must have opened the connection or called onAbolished before it blocks again',
                 'threaded job: "run() returns after interrupt()" is awaited for 30 s real time; exceeding it is reported as inconclusive (the deterministic no-wakeup check is in the virtual-time job)'],
    technique='libc interposition (virtual clock, scripted epoll_wait/send/recv, gated getaddrinfo), alive-flag tombstones, independent poll() oracle, TSan',
    exhaustive={Q: False, T: False},
    jobs=[
        job('world', 'h_server_loop', 'world', cases={Q: 30000, T: 160000}, procs=16, sources=SRC),
        job('equal-due', 'h_server_loop', 'equal-due', cases=-1, scale={Q: 10, T: 12}, procs=16, sources=SRC),
        job('threads-plain', 'h_server_loop', 'threads', variant='plain', cases={Q: 900, T: 5000}, procs=8, weight=2, sources=SRC, timeout=600),
        job('threads-tsan', 'h_server_loop', 'threads', variant='tsan', cases={Q: 900, T: 5000}, procs=8, weight=2, sources=SRC, timeout=600),
    ],
    floors={Q: dict(cases=11000, callbacks=2000000, timer_activations=1500000, timers_removed=80000, timers_removed_from_equal_run_of_3plus=40000, clients_removed=70000,
                    removed_with_selected_event=3000, onAccepted=30000, onConnected=12000, onAbolished=8000, independent_poll_checks=1500000, timer_due_checks=500000,
                    eintr_injected=4000, oversleep_injected=50000, run_returns=100000, threaded_interrupt_calls=8000, threaded_run_returns=6000,
                    writes_in_onAccepted=20000, writes_in_onAccepted_leaving_backlog=12000, suspends_in_onAccepted=15000, nothing_in_onAccepted=9000,
                    writes_in_onConnected=9000, writes_in_onConnected_leaving_backlog=5000, suspends_in_onConnected=7000, nothing_in_onConnected=4000,
                    resumes_with_pending_data=11000, streams_verified_end_to_end=25000,
                    establishers_by_name=55000, resolutions_completed=55000, resolutions_completed_establisher_removed=15000, establishers_removed_while_resolving=15000,
                    establishers_removed_resolved_unprocessed=800, onAbolished_unresolvable_name=14000, onAbolished_by_name_connect_failed=7000, onConnected_by_name=15000,
                    reconnects_by_name_in_onAbolished=15000, reconnects_by_name_reusing_the_removed_slot=9000, establishers_by_numeric_host=4000,
                    broadcasts_to_dead_peers=12000, onClosed_while_other_close_notifications_pending=15000, clients_removed_with_close_notification_pending=7500,
                    **{'set:removal_classes': 20, 'set:interrupt_venues': 7, 'set:fresh_client_acts': 26, 'set:resolution_completions': 40, 'set:establisher_kinds': 6}),
            T: dict(cases=170000, callbacks=4000000, timer_activations=1600000, timers_removed=160000, timers_removed_from_equal_run_of_3plus=24000, clients_removed=80000,
                    removed_with_selected_event=8000, onAccepted=16000, onConnected=8000, onAbolished=4000, independent_poll_checks=1600000, timer_due_checks=1600000,
                    eintr_injected=8000, oversleep_injected=16000, run_returns=160000, threaded_interrupt_calls=100000, threaded_run_returns=50000,
                    writes_in_onAccepted=350000, writes_in_onAccepted_leaving_backlog=210000, suspends_in_onAccepted=270000, nothing_in_onAccepted=150000,
                    writes_in_onConnected=150000, writes_in_onConnected_leaving_backlog=90000, suspends_in_onConnected=120000, nothing_in_onConnected=65000,
                    resumes_with_pending_data=190000, streams_verified_end_to_end=400000,
                    establishers_by_name=290000, resolutions_completed=290000, resolutions_completed_establisher_removed=84000, establishers_removed_while_resolving=84000,
                    establishers_removed_resolved_unprocessed=5000, onAbolished_unresolvable_name=78000, onAbolished_by_name_connect_failed=39000, onConnected_by_name=85000,
                    reconnects_by_name_in_onAbolished=84000, reconnects_by_name_reusing_the_removed_slot=49000, establishers_by_numeric_host=23000,
                    broadcasts_to_dead_peers=60000, onClosed_while_other_close_notifications_pending=70000, clients_removed_with_close_notification_pending=35000,
                    **{'set:removal_classes': 20, 'set:interrupt_venues': 7, 'set:fresh_client_acts': 26, 'set:resolution_completions': 50, 'set:establisher_kinds': 6})},
)
