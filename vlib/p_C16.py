# C16 job table (see DESIGN.md section 3/C16): Xml::parse total + safe + failure position inside the text; comments wherever white space is allowed;
# toString -> parse identity; copies of Xml::Variant values independent of their source
from .jobs import job, Q, T
from .core import ASAN_OPTIONS

PROBES = ['Xml.parse/comment/memory-growth',
          'Xml.parse/processing-instruction/error-position-outside-text',
          'Xml.roundtrip/attribute-value:linebreak/serialised-text-rejected',
          'Xml.roundtrip/text:leading-whitespace/content',
          'Xml.Variant.operator=(Variant)/double-release',
          'Xml.Variant.toElement/shared/independence']

SPEC = dict(
    level='exploration',
    rule='case = one input (exh-c: one string over the 16 symbols < > / = " \' & ; # ! - ? space LF a 1, all strings up to the length bound; exh-t: one string of up to N markup tokens '
         '<a > </a> <!-- --> x space LF /> <? ?> " = &amp;; gen: one generated valid document (processing instructions, comments around the root, between tags, inside tags behind white space '
         'and next to text, named and decimal character references, both quote kinds) -> parse vs the generator\'s model tree (adjacent text pieces merged), then every prefix; '
         'mut: 1-4 mutations of a valid or corpus document; deep: 1-1000 nested elements, balanced, truncated, with attributes/text/line breaks; roundtrip: one random element tree '
         '(attribute values and non-blank, non-adjacent text over all bytes 1..255 with leading/trailing white space) -> toString -> parse -> strict structural comparison; '
         'variant: one history of 10-120 operations on up to 12 Xml::Variant handles (construct, copy-construct, copy-assign, self-assign, assign own child, assign text, mutate through toElement '
         'in the non-element / unshared / shared state, copy a whole element and mutate the copy, destroy) with every handle compared with its own model after every operation); '
         'wide: one document or tree with 4,200-9,000 (every 4th round 12,000-20,000) elements in one of 8 shapes (flat empty elements as <x/>, <x />, <x></x>, rows x empty cells, tree built through '
         'the Element interface, siblings with text/child content, nesting 2-7 with mostly content-less leaves, many generated elements of the gen grammar below one root, and on ONE Parser object '
         'a 1000-deep document, a truncated one, the flat document, the deep one again) -> accepted, same tree as the model, toString -> parse -> same tree, 3 random prefixes). '
         'exh-p: one string of up to N tokens <!DOCTYPE a, LF, CR, >, <a>, </a>, <a, [, ], <?p, ?>, <!--, -->, <![CDATA[, ]]>, "; prolog: one generated text in which things a tolerant parser might step over '
         '(document type declaration with SYSTEM/PUBLIC literals and an internal subset, XML declaration, processing instructions, comments, CDATA sections) stand in front of, inside or behind a '
         'root element that then fails or succeeds, with LF / CR / CRLF inside every kind of token (13 kinds) -> the text, every prefix and 6 damaged variants: no verdict on accepted/rejected, only safety and position inside the text; '
         'alias: the text argument of parse is owned by the tree of the output element (7 classes: attribute value / text child of the output element or of a descendant, a String sharing such a payload, '
         'output element = child of the owner; output tree with prior attributes and content) -> outcome, reported position and whole resulting tree equal to those of parsing an independent copy into an identically built element. '
         'Every text handed to the parser lives in a heap block of exactly len+1 bytes; every call runs under a 5 s CPU budget and a 64 MiB live-heap growth cap (ASan malloc hook; wide: plus 16 KiB per element of the document); '
         'on failure the reported (line, column) must designate a byte, line end or text end. distinct = hash of index / model tree / operation sequence; non-trivial = >= 2 bytes, >= 3 nodes, '
         'or (variant) at least one shared payload that was then modified through one handle.',
    assumptions=['ASan/UBSan/LSan; inputs in exactly-sized heap blocks; heap cap measured with __sanitizer_get_current_allocated_bytes from __sanitizer_malloc_hook (RLIMIT_AS is unusable under ASan)',
                 'valid documents: hexadecimal character references, CDATA, DOCTYPE and raw line breaks inside attribute values are not generated (the parser does not claim them); '
                 'comments inside a tag are only placed behind at least one white-space character; white space directly next to a comment inside text is not generated (its attribution is ambiguous)',
                 'parse results on documents with comments are compared after merging adjacent text items (x<!--c-->y may be one or two text items); round-trip comparison is strict',
                 'alias mode: the reference is the same library on an independent copy of the text (whether parse appends to or replaces prior content of the output element is not judged); '
                 'not generated: text = the output element\'s own type string, text = value of an attribute whose name occurs in the text (locations parse has to write)',
                 'Xml::Parser::parse(const char*, Element&) is declared but not defined in the library (link error) and therefore cannot be driven; the other three entry points are',
                 'fallback build (-DVERIF_NO_PRIVATE): the toElement state class shared/unshared of the variant mode comes from the harness\'s own record of which handles were copied from one '
                 'another; the probe of the operator= finding then relies on the sanitizer instead of reading the reference count'],
    technique='runtime monitoring: grammar/mutation/exhaustive input generation, model-tree comparison, handle histories with per-handle models, ASan/UBSan/LSan, CPU and heap budgets',
    exhaustive={Q: False, T: False},
    jobs=[
        job('exh-c', 'h_xml', 'exh-c', cases=-1, scale={Q: 4, T: 5}, procs=16, probes=PROBES),
        job('exh-t', 'h_xml', 'exh-t', cases=-1, scale={Q: 5, T: 6}, procs=16),
        job('gen', 'h_xml', 'gen', cases={Q: 1600, T: 32000}, procs=16),
        job('mut', 'h_xml', 'mut', cases={Q: 40000, T: 1000000}, procs=16),
        job('deep', 'h_xml', 'deep', cases={Q: 48, T: 480}, procs=16),
        job('roundtrip', 'h_xml', 'roundtrip', cases={Q: 8000, T: 200000}, procs=16),
        job('variant', 'h_xml', 'variant', cases={Q: 8000, T: 200000}, procs=16),
        job('wide', 'h_xml', 'wide', cases={Q: 64, T: 960}, procs=16,
            env={'ASAN_OPTIONS': ASAN_OPTIONS + ':quarantine_size_mb=32'}),   # trees of 5 KiB blocks: the default 256 MiB quarantine only costs page faults here
        job('exh-p', 'h_xml', 'exh-p', cases=-1, scale={Q: 4, T: 5}, procs=16),
        job('prolog', 'h_xml', 'prolog', cases={Q: 1600, T: 32000}, procs=16),
        job('alias', 'h_xml', 'alias', cases={Q: 7000, T: 140000}, procs=16),
    ],
    floors={Q: dict(ops=1000000, parses=500000, positions_checked=400000, prefix_parses=100000, mutation_parses=30000, roundtrips=8000, rt_bytes_compared=200000, rt_texts_with_leading_whitespace=1000,
                    valid_documents_compared=1000, value_nodes_compared=10000, comments_next_to_text=1000, comments_inside_tags=500, documents_with_processing_instruction=300,
                    deep_parses=48, deep_roundtrips=10, max_nesting_depth=1000, variant_ops=200000, op_copy_assign=10000, op_mutate_shared_element=3000, op_assign_own_child=500,
                    op_element_copy=1000, malloc_hook_calls=1000000, wide_cases=64, wide_documents_compared=60, wide_roundtrips=48, wide_trees_built=8, reused_parser_sequences=8,
                    wide_nodes_compared=800000, wide_elements_without_content=250000, max_elements_without_content_in_one_document=12000, max_siblings_in_one_element=12000,
                    prolog_cases=1600, doctype_documents=1000, doctype_documents_with_line_break_inside=800, doctype_documents_with_internal_subset=400, cdata_documents=80,
                    prolog_positions_checked=100000, prolog_positions_checked_behind_line_1=60000, prolog_damaged_parses=9600, exh_parses=700000,
                    alias_cases=6900, alias_results_compared=6900, alias_nodes_compared=50000, alias_output_tree_with_prior_state=4000, alias_accepted=2000, alias_rejected=1500,
                    **{'set:wide_patterns': 8, 'set:error_messages': 7, 'set:rt_char_classes': 11, 'set:rt_byte_values': 255, 'set:toElement_states': 3,
                       'set:linebreaks_inside_tokens': 39, 'set:prolog_constructs': 6, 'set:alias_classes': 7, 'set:alias_text_kinds': 6}),
            T: dict(ops=15000000, parses=12000000, positions_checked=10000000, prefix_parses=3000000, mutation_parses=900000, roundtrips=200000, rt_bytes_compared=5000000, rt_texts_with_leading_whitespace=30000,
                    valid_documents_compared=30000, value_nodes_compared=400000, comments_next_to_text=20000, comments_inside_tags=10000, documents_with_processing_instruction=5000,
                    deep_parses=480, deep_roundtrips=100, max_nesting_depth=1000, variant_ops=5000000, op_copy_assign=250000, op_mutate_shared_element=75000, op_assign_own_child=10000,
                    op_element_copy=25000, malloc_hook_calls=10000000, wide_cases=960, wide_documents_compared=900, wide_roundtrips=720, wide_trees_built=120, reused_parser_sequences=120,
                    wide_nodes_compared=12000000, wide_elements_without_content=4000000, max_elements_without_content_in_one_document=18000, max_siblings_in_one_element=18000,
                    prolog_cases=32000, doctype_documents=20000, doctype_documents_with_line_break_inside=16000, doctype_documents_with_internal_subset=8000, cdata_documents=1600,
                    prolog_positions_checked=2000000, prolog_positions_checked_behind_line_1=1200000, prolog_damaged_parses=192000, exh_parses=10000000,
                    alias_cases=139000, alias_results_compared=139000, alias_nodes_compared=1000000, alias_output_tree_with_prior_state=80000, alias_accepted=40000, alias_rejected=30000,
                    **{'set:wide_patterns': 8, 'set:error_messages': 7, 'set:rt_char_classes': 11, 'set:rt_byte_values': 255, 'set:toElement_states': 3,
                       'set:linebreaks_inside_tokens': 39, 'set:prolog_constructs': 6, 'set:alias_classes': 7, 'set:alias_text_kinds': 6})},
)
