# C04 job table (see DESIGN.md section 3): exactly-once construction/destruction, deep copies, self-arguments
from .jobs import job, Q, T

_TYPES = ['array', 'list', 'map', 'multimap', 'hashmap', 'hashset', 'poollist', 'poolmap']

_PROBES = dict(
    array=['Array.operator=/arg=self/content', 'Array.append/arg=self-elem/asan:heap-use-after-free', 'Array.resize/arg=self-elem/asan:heap-use-after-free'],
    list=['List.operator=/arg=self/content', 'List.append/arg=self/nonterminating', 'List.prepend/arg=self/content', 'List.insert/arg=self,pos=middle/nonterminating'],
    map=['Map.operator=/arg=self/content'], multimap=['MultiMap.operator=/arg=self/content'], hashmap=['HashMap.operator=/arg=self/content'], hashset=['HashSet.operator=/arg=self/content'])

SPEC = dict(
    level='exploration',
    rule='case = one swarm-weighted random history (20..500 operations, x6 in the -long jobs) on two containers of one type (Array, List, Map, MultiMap, HashMap, HashSet, PoolList, PoolMap) '
         'holding vh::Elem keys and values (each owns a heap block and is tracked by address in a registry), including copy construction, assignment, destruction of the '
         'source of a copy, x = x, x.append(x)/prepend(x)/insert(x)/remove(x), x.swap(x) and arguments that are references to the container\'s own keys/values '
         '(Array::append(a[i]) / resize(n, a[i]) exactly at the growth boundary). distinct = hash of the operation texts; non-trivial = reached >=2 entries, executed >=1 removal '
         'and >=1 copy or self-argument operation. After every operation: both containers are read completely (forward, backward, front/back, size) through the registry and '
         'compared with a reference model in which self-arguments are copied first; the number of live tracked elements must equal sentinels + entries * elements-per-entry (sentinels = what an empty default constructed container of the type holds by itself, measured at the start of every case, not assumed); '
         'at the end of the case everything is destroyed and the registry must be empty; LeakSanitizer check at process end.',
    assumptions=['ASan/UBSan + LeakSanitizer; library ASSERTs enabled (-DDEBUG)',
                 'equal keys of a MultiMap may be stored in any relative order (values compared as a multiset per key)',
                 'a pointer range into the array itself passed to Array::append(const T*, usize) is treated as outside the statement (not generated)',
                 'members that cannot be instantiated (PoolList::front/back, HashMap/PoolMap::front() const) are not called'],
    technique='runtime monitoring: tracked element type + live-count accounting + reference model + sanitizers over generated histories',
    exhaustive={Q: False, T: False},
    jobs=[job(t, 'h_once', t, cases={Q: 16000, T: 120000}, procs=2, timeout=900, probes=_PROBES.get(t, [])) for t in _TYPES] +
         [job(t + '-long', 'h_once', t + '-long', cases={Q: 500, T: 5000}, procs=2, timeout=900) for t in _TYPES],     # mode <type>-long: histories 6 times as long
    floors={Q: dict(ops=3200000, elements_observed=300000000, live_count_checks=4200000, cases_with_self_argument=30000, cases_with_copy=22000, self_elem_at_growth=22000, **{'set:op_classes': 160}),
            T: dict(ops=56000000, elements_observed=5400000000, live_count_checks=70000000, cases_with_self_argument=480000, cases_with_copy=360000, self_elem_at_growth=380000, **{'set:op_classes': 160})},
)
