# C15 job table (see DESIGN.md section 3/C15): Json::parse total + safe + failure position inside the text; toString -> parse identity; stripComments == reference
from .jobs import job, Q, T

PROBES = ['Json.parse/truncated-escape/asan:heap-buffer-overflow',
          'Json.parse/backslash-linebreak/error-position-outside-text',
          'Json.roundtrip/string:linebreak/content',
          'Json.stripComments/star-in-block-comment/content',
          'Json.stripComments/escape-in-string/content']

SPEC = dict(
    level='exploration',
    rule='case = one input (exh-*: one byte string over a 14-symbol structural / 8-symbol string-and-linebreak alphabet, all strings up to the length bound; '
         'gen: one grammar-generated valid document with woven-in comments -> stripComments vs reference stripper, parse of the stripped text vs the generator\'s model tree, '
         'every prefix of the text; mut: 1-4 byte/range/splice mutations of a valid or corpus document; deep: 1-1000 nested arrays/objects, balanced, truncated, with line breaks; '
         'roundtrip: one random Variant tree (null/bool/int/int64 boundary values/strings over all bytes 1..255/lists/insertion-ordered maps); strip-*: one token string; '
         'reuse: a sequence of 2-6 texts (valid with model, mutated, truncated, corpus, token soup, line breaks followed by a syntax error, the previous text again) handed to ONE Json::Parser object). '
         'Parser objects: in every mode two thirds of the parses that go through the Json::Parser class (parse(const char*) / parse(const String&)) use the case\'s long-lived Parser object, '
         'which is primed with 0-3 texts chosen by the case index when it is created (so the texts sharing a parser are a function of the case; gen feeds up to ~200 prefixes to one object); '
         'every parse on an already used Parser is compared with the static Json::parse of the same text: same verdict, identical tree (own structural walker), same error line, column and message. '
         'Every text handed to the library lives in a heap block of exactly len+1 bytes; every call runs under a 5 s CPU budget and a 64 MiB live-heap growth cap (ASan malloc hook); '
         'on failure the reported (line, column) must designate a byte, line end or text end under the parser\'s own line-break convention; every accepted tree inside the statement '
         '(no double, no NUL in strings) is serialised and parsed again and compared structurally (types, order, bytes) and with Variant::operator==. '
         'distinct = hash of the input index / model tree / token sequence; non-trivial = >= 2 bytes or >= 3 nodes (roundtrip: plus at least one non-ASCII-printable byte class).',
    assumptions=['ASan/UBSan; inputs in exactly-sized heap blocks; heap cap measured with __sanitizer_get_current_allocated_bytes from __sanitizer_malloc_hook (RLIMIT_AS is unusable under ASan)',
                 'integers: a parsed integer has type int iff it fits 32 bit, else int64 (the parser\'s convention); doubles, uint, arrays are outside the round-trip statement',
                 'valid documents: generated numbers with a fraction part are compared with strtod of the same token; exponent-only forms (1e5) are not generated (the tokenizer documents number-format checking as todo)',
                 'stripComments reference: // ends before the line break (CR or LF, kept); /* ends at the first */ after the opener; line breaks inside block comments are kept; a string literal runs to the next unescaped quote or the end of text'],
    technique='runtime monitoring: grammar/mutation/exhaustive input generation, reference stripper, model-tree comparison, ASan/UBSan/LSan, CPU and heap budgets',
    exhaustive={Q: False, T: False},
    jobs=[
        job('exh-a', 'h_json', 'exh-a', cases=-1, scale={Q: 5, T: 6}, procs=16, probes=PROBES),
        job('exh-b', 'h_json', 'exh-b', cases=-1, scale={Q: 6, T: 8}, procs=16),
        job('gen', 'h_json', 'gen', cases={Q: 3200, T: 80000}, procs=16),
        job('mut', 'h_json', 'mut', cases={Q: 40000, T: 1500000}, procs=16),
        job('deep', 'h_json', 'deep', cases={Q: 64, T: 640}, procs=16),
        job('roundtrip', 'h_json', 'roundtrip', cases={Q: 16000, T: 600000}, procs=16),
        job('strip-exh', 'h_json', 'strip-exh', cases=-1, scale={Q: 5, T: 6}, procs=16),
        job('strip-rand', 'h_json', 'strip-rand', cases={Q: 40000, T: 1500000}, procs=16),
        job('reuse', 'h_json', 'reuse', cases={Q: 30000, T: 1000000}, procs=16),
    ],
    floors={Q: dict(parses=500000, positions_checked=300000, prefix_parses=100000, mutation_parses=30000, roundtrips=20000, rt_string_bytes_compared=200000,
                    valid_documents_compared=2000, value_nodes_compared=10000, strip_calls=300000, strip_with_escape_in_string=10000, strip_with_star_in_block=10000,
                    deep_parses=64, deep_roundtrips=20, max_nesting_depth=1000, malloc_hook_calls=1000000,
                    parses_on_reused_parser=300000, reused_parser_crosschecks=300000, reused_parser_positions_compared=200000, reused_parser_nodes_compared=100000,
                    reused_rejected_after_linebreak_text=150000, reused_parser_parse_cstr=100000, reused_parser_parse_string=100000, reuse_sequences=30000,
                    reuse_sequences_with_linebreaks_and_rejection=10000, max_texts_on_one_parser=6, **{'set:reuse_transitions': 4, 'set:error_messages': 8, 'set:rt_char_classes': 8, 'set:rt_byte_values': 255}),
            T: dict(parses=25000000, positions_checked=15000000, prefix_parses=3000000, mutation_parses=1000000, roundtrips=600000, rt_string_bytes_compared=5000000,
                    valid_documents_compared=60000, value_nodes_compared=300000, strip_calls=4000000, strip_with_escape_in_string=100000, strip_with_star_in_block=100000,
                    deep_parses=640, deep_roundtrips=200, max_nesting_depth=1000, malloc_hook_calls=10000000,
                    parses_on_reused_parser=8000000, reused_parser_crosschecks=8000000, reused_parser_positions_compared=5000000, reused_parser_nodes_compared=3000000,
                    reused_rejected_after_linebreak_text=4000000, reused_parser_parse_cstr=3000000, reused_parser_parse_string=3000000, reuse_sequences=1000000,
                    reuse_sequences_with_linebreaks_and_rejection=300000, max_texts_on_one_parser=6, **{'set:reuse_transitions': 4, 'set:error_messages': 8, 'set:rt_char_classes': 8, 'set:rt_byte_values': 255})},
)
