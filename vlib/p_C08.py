# C08 job table (see DESIGN.md section 3): Buffer byte queue, terminator, no stray writes
from .jobs import job, Q, T

# first key component of the findings whose --probe lives in h_buffer (the probe is selected by key prefix / defect class there)
PROBES = ['Buffer.prepend', 'Buffer.prepend(Buffer)', 'Buffer.removeFront', 'Buffer.removeBack', 'Buffer.resize', 'Buffer.reserve', 'Buffer.assign', 'Buffer.operator=', 'Buffer.append',
          'Buffer.append(Buffer)', 'Buffer.swap']

SPEC = dict(
    level='exploration',
    rule='case = one swarm-weighted history of 30..300 operations over 3 Buffers and 4 guarded foreign blocks (append/prepend raw and Buffer, assign, operator=, '
         'copy-construct, constructors, resize, reserve, removeFront/removeBack with sizes below/equal/above size, clear, free, swap, attach into the middle of a foreign block, '
         'writes through the mutable view, writes by the owner of attached memory, b = b / b.append(b) / b.prepend(b)), sizes drawn around head-room, capacity and size so that every '
         'branch of prepend/resize is selected (branch class derived from the private fields before the call); or one Server send-backlog run (append tail 1 B..1 MiB, removeFront sent '
         'prefix, free on drain). distinct = hash of the (operation kind, buffer) sequence; non-trivial = reached >=2 bytes and executed >=1 removal. After every operation, for all 3 '
         'buffers: size(), isEmpty(), every pinned byte of the view, the byte behind the data when the buffer owns its storage, the window of a buffer without allocation (own empty sentinel or inside attached memory), all foreign bytes outside the attached range against a '
         'shadow copy; operator==/!= for all pairs (every 4th operation and after copies).',
    assumptions=['ASan red zones make "readable" precise, ASan malloc fill 0xbe makes "zero byte really written" precise',
                 'bytes exposed by a growing resize are unspecified: masked in the model, never compared; comparisons of buffers containing them are skipped',
                 'writes inside the attached range are allowed (statement); everything else of a foreign block must stay unchanged',
                 'the terminator is read only when the model says "owning" and the object holds an allocation',
                 'raw pointers into the receiver\'s own storage are not passed as arguments (b.append((byte*)b, n)); removeFront/removeBack arguments exceed size() by at most 64; '
                 'attached memory outlives the buffer attached to it; buffers stay below ~25 kB in histories (1 MiB chunks in the backlog mode)',
                 'fallback build (-DVERIF_NO_PRIVATE): sizes are aimed at the branch boundaries with capacity(), size(), the place of the exposed view and the harness\'s own head-room estimate; '
                 'branch / state classes are recorded as branches_estimated / op_state_cells_estimated; the structural check of a buffer without allocation is reduced to: the view never lies inside '
                 'another Buffer object and never leaves the foreign block it starts in; the terminator is read when the model says "owning" and the view is storage of the buffer\'s own'],
    technique='reference byte queue + ownership flag, guarded foreign blocks, ASan/UBSan/LSan',
    exhaustive={Q: False, T: False},
    jobs=[
        job('hist', 'h_buffer', 'hist', cases={Q: 96000, T: 640000}, procs=16, probes=PROBES),
        job('backlog', 'h_buffer', 'backlog', cases={Q: 3200, T: 16000}, procs=16),
    ],
    floors={Q: dict(ops=5000000, bytes_compared=2000000000, terminator_reads=10000000, compares=10000000, op_attach=100000, op_prepend=200000, op_self_argument=50000, op_poke_foreign=5000, non_owning_structure_checks=1000000,
                    backlog_drains=20000, **{'set:branches': 70, 'set:op_state_cells': 64}),
            T: dict(ops=80000000, bytes_compared=30000000000, terminator_reads=150000000, compares=150000000, op_attach=1500000, op_prepend=3000000, op_self_argument=700000, op_poke_foreign=80000, non_owning_structure_checks=15000000,
                    backlog_drains=250000, **{'set:branches': 70, 'set:op_state_cells': 64})},
)
