#!/usr/bin/env python3
# regenerates /verif/MANIFEST.json from vlib/props.py (run: python3 -m vlib.mkmanifest)
import json, os, sys, subprocess
sys.path.insert(0, os.path.dirname(os.path.dirname(os.path.abspath(__file__))))
from vlib import props, core

def hook_commits():
    p = os.path.join(core.VERIF, 'hook_commits.txt')
    return [l.split()[0] for l in open(p) if l.strip() and not l.startswith('#')] if os.path.exists(p) else []

def main():
    allp = [json.loads(l) for l in open(os.path.join(core.VERIF, 'properties.jsonl'))]
    checks, na = [], []
    for p in allp:
        pid = p['id']
        s = props.PROPS.get(pid)
        if not s or s.get('disabled'):
            na.append(dict(property_id=pid, reason=(s or {}).get('disabled', 'check not built yet in this round (planned in DESIGN.md section 3); nothing is claimed for it')))
            continue
        checks.append(dict(
            property_id=pid,
            quick_cmd='./check %s --tier quick' % pid,
            thorough_cmd='./check %s --tier thorough' % pid,
            evidence_file='evidence/%s.json' % pid,
            replay_cmd_template='./check %s --replay {path}' % pid,
            engine='nstd-runtime-monitors',
            level_claimed=dict(category=s.get('level', 'exploration'), text=s.get('level_text', s['rule'])[:1500], design_ref='DESIGN.md section 3, ' + pid),
            level_note=s.get('level_note', 'Held on the executions observed only. Trusted base: gcc 12 ASan/UBSan/TSan runtimes, the reference models in /verif/harness and /verif/vlib, the Linux kernel. ' + '; '.join(s.get('assumptions', []))),
            technique=s.get('technique', 'runtime monitoring: reference-model monitor + sanitizers over generated histories'),
        ))
    m = dict(
        version=1,
        setup_cmd='./check setup',
        hooks=dict(guard=core.GUARD, enable='checks compile /repo/src/**/*.cpp themselves with -D%s (no cmake); hooks are weak callbacks defined only by the harness' % core.GUARD,
                   baseline_off_cmd='cmake -S /repo -B /verif/.build/baseline_off -DCMAKE_BUILD_TYPE=Debug >/dev/null && cmake --build /verif/.build/baseline_off -j16 >/dev/null && ctest --test-dir /verif/.build/baseline_off -j8 --timeout 900',
                   source_commits=hook_commits(), add_only=True),
        engines=[dict(name='nstd-runtime-monitors', path='check', serves_properties=[c['property_id'] for c in checks],
                      kind_free_text='python driver (vlib/) that rebuilds /repo/src under gcc ASan+UBSan / TSan / plain, runs C++ harnesses (harness/) with reference-model monitors, structure walkers, libc interposition and offline log checkers, and decides from what they observed')],
        checks=checks,
        notes='All verdicts are "held on K observed executions"; see DESIGN.md. Exit 0 held / 1 VIOLATION / 2 inconclusive or harness failure.',
        not_applicable=na,
    )
    with open(os.path.join(core.VERIF, 'MANIFEST.json'), 'w') as f:
        json.dump(m, f, indent=1)
    print('MANIFEST.json: %d checks, %d not_applicable' % (len(checks), len(na)))

if __name__ == '__main__':
    main()
