# driver.py - generic check driver: build, probe known findings, run jobs, collect, decide, write evidence
import os, sys, re, json, time, shutil, tempfile, glob
from concurrent.futures import ThreadPoolExecutor
from . import core
from .core import HarnessFailure


def tier_val(v, tier):
    return v[tier] if isinstance(v, dict) else v


class Ctx:
    """what post-checkers get"""
    def __init__(self):
        self.prop = ''
        self.tier = ''
        self.seed = 1
        self.col = None
        self.recfiles = {}     # job name -> [paths]
        self.extra_cov = {}
        self.violations = []   # (key, replay, msg)
        self.logdir = ''


def run_check(prop, spec, tier, seed, replay=None):
    t0 = time.time()
    findings, fixed = core.load_known(prop)
    exclude = ','.join(k for k, _ in findings)
    logdir = os.path.join(core.REPLAYS, 'logs.%s.%d' % (prop, os.getpid()))
    shutil.rmtree(logdir, ignore_errors=True)
    os.makedirs(logdir, exist_ok=True)
    outdir = os.path.join(core.REPLAYS, prop)
    if not replay:
        shutil.rmtree(outdir, ignore_errors=True)
        for old in glob.glob(os.path.join(core.REPLAYS, prop + '.*')):
            try:
                os.unlink(old)
            except OSError:
                pass
    os.makedirs(outdir, exist_ok=True)

    jobs = [j for j in spec['jobs'] if tier_val(j.get('cases', 1), tier) != 0]
    if os.environ.get('VERIF_JOBS'):   # debugging aid: restrict to jobs whose name matches (floors will then usually not be reached)
        jobs = [j for j in jobs if re.search(os.environ['VERIF_JOBS'], j['name'])]
    # ---- build
    bins = {}
    try:
        for j in jobs:
            k = (j['variant'], j['harness'])
            if k not in bins:
                bins[k] = core.build_harness(j['variant'], j['harness'], j['sources'], j.get('cflags'), j.get('ldflags'))
    except HarnessFailure as e:
        print('HARNESS-FAILURE: %s' % e)
        return 2
    build_s = time.time() - t0
    degraded = sorted('%s:%s' % k for k in core.DEGRADED if k in bins)
    if degraded:
        print('NOTE: built without access to private library state (structural walkers off, public-API oracles only): %s' % ', '.join(degraded))

    if replay:
        return do_replay(prop, spec, bins, replay, logdir)

    col = core.Collected()
    tsan_seen = {}
    violations = []     # (key, replay, msg)
    known_hits = []
    inconclusive = []

    # ---- probes of listed findings (each in its own process)
    fkeys = dict(findings)
    for key, desc in findings:
        pj = None
        for j in jobs:
            if key.split('/')[0] in j.get('probes', []) or key in j.get('probes', []):
                pj = j
                break
        if pj is None:
            print('KNOWN-FINDING: property=%s %s %s' % (prop, key, desc))
            continue
        cmd = [bins[(pj['variant'], pj['harness'])], '--probe', key, '--out', outdir, '--seed', str(seed)]
        res = core.run_proc(cmd, core.base_env(pj['variant'], logdir, 'probe'), 120, 'probe.' + re.sub(r'\W', '_', key), logdir)
        c2 = core.Collected()
        done, ctx, _ = c2.add_stdout(res)
        still = (res.rc != 0) or c2.viol or res.timed_out
        if still:
            print('KNOWN-FINDING: property=%s %s %s' % (prop, key, desc))
            known_hits.append(key)
        else:
            print('NOTE: listed finding no longer reproduces: property=%s %s' % (prop, key))

    # ---- expand jobs into processes
    procs = []
    for j in jobs:
        n = tier_val(j.get('procs', core.NCPU), tier)
        cases = tier_val(j.get('cases', 1), tier)
        for i in range(n):
            tag = '%s.%d' % (j['name'], i)
            cmd = [bins[(j['variant'], j['harness'])], '--mode', j['mode'], '--seed', str(seed), '--cases', str(cases), '--start', '0',
                   '--shard', str(i), '--nshards', str(n), '--out', outdir]
            if exclude:
                cmd += ['--exclude', exclude]
            if 'scale' in j:
                cmd += ['--scale', str(tier_val(j['scale'], tier))]
            if j.get('rec'):
                cmd += ['--rec', os.path.join(logdir, 'rec.%s.txt' % tag)]
            cmd += [str(a) for a in tier_val(j.get('args', []), tier)]
            procs.append((j, tag, cmd))

    ctx = Ctx()
    ctx.prop, ctx.tier, ctx.seed, ctx.col, ctx.logdir = prop, tier, seed, col, logdir

    def runone(p):
        j, tag, cmd = p
        env = core.base_env(j['variant'], logdir, tag)
        env.update(j.get('env', {}))
        return j, core.run_proc(cmd, env, tier_val(j.get('timeout', 900), tier), tag, logdir, j.get('deadlock', False))

    # weights: multi-threaded harnesses occupy several cores
    maxpar = max(1, core.NCPU // max(tier_val(j.get('weight', 1), tier) for j in jobs)) if jobs else 1
    groups = {}
    for p in procs:
        groups.setdefault(tier_val(p[0].get('weight', 1), tier), []).append(p)
    results = []
    for w in sorted(groups):
        with ThreadPoolExecutor(max(1, core.NCPU // w)) as pool:
            results += list(pool.map(runone, groups[w]))

    for j, res in results:
        col.procs += 1
        done, dctx, deathreplay = col.add_stdout(res)
        # TSan reports (non-fatal, collected from the log files) - also for processes that ended with an oracle violation
        if j['variant'] == 'tsan':
            reps = core.parse_tsan(res.tsan_logs)
            col.tsan_reports += len(reps)
            for k, kind, blk in reps:
                e = tsan_seen.setdefault(k, dict(tags=set(), blk=blk, kind=kind, job=j, res=res))
                e['tags'].add(res.tag)
        if j.get('rec'):
            rp = os.path.join(logdir, 'rec.%s.txt' % res.tag)
            if os.path.exists(rp):
                ctx.recfiles.setdefault(j['name'], []).append(rp)
        if res.deadlock:
            rp = core.write_replay('%s.%s.deadlock.txt' % (prop, res.tag), 'cmd=%s\n\nall threads blocked without timeout:\n%s\n' % (' '.join(res.cmd), res.deadlock))
            violations.append(('%s/deadlock' % j['name'], rp, 'every thread blocked without timeout (provable deadlock)'))
            continue
        if res.timed_out:
            inconclusive.append('%s: watchdog fired after %.0fs (threads still runnable or not provably deadlocked)' % (res.tag, res.wall))
            continue
        if res.rc == 3:
            continue    # @VIOL collected
        if res.rc == 2:
            if not any(res.tag in b for b in col.harness_bugs):
                col.harness_bugs.append('%s: exit 2\n%s' % (res.tag, res.stdout[-500:] + res.stderr[-1500:]))
            continue
        death = None
        if res.rc != 0 or not done:
            death = core.classify_death(res)
            if death is None:
                col.harness_bugs.append('%s: rc=%s done=%s without classification\n%s' % (res.tag, res.rc, done, res.stderr[-2000:]))
                continue
        if death:
            kind, detail = death
            key = '%s/%s' % (dctx or j['name'], kind)
            body = 'cmd=%s\nkey=%s\ndetail=%s\nharness-replay=%s\n\n--- stderr ---\n%s\n' % (' '.join(res.cmd), key, detail, deathreplay, res.stderr[-30000:])
            if deathreplay and os.path.exists(deathreplay):
                body += '\n--- harness history ---\n' + open(deathreplay, errors='replace').read()[-200000:]
            rp = core.write_replay('%s.%s.death.txt' % (prop, res.tag), body)
            violations.append((key, rp, '%s %s' % (kind, detail)))
    # A TSan report counts as a violation only when it is reproducible: seen in >= 2 independent processes of this run, or again in one of up to
    # 3 re-runs of the reporting shard. (The volatile-as-atomic annotation is called just *before* the annotated load executes; a thread preempted in
    # that few-ns window can produce a one-off report on correctly synchronised code. A genuinely missing synchronisation recurs.) Unconfirmed
    # reports are listed in the evidence, never silently dropped.
    unconfirmed = []
    for k, e in sorted(tsan_seen.items()):
        confirmed = len(e['tags']) >= 2
        reruns = 0
        while not confirmed and reruns < 3:
            reruns += 1
            r2 = core.run_proc(e['res'].cmd, core.base_env('tsan', logdir, 'confirm%d' % reruns), tier_val(e['job'].get('timeout', 900), tier), 'confirm%d.%s' % (reruns, e['res'].tag), logdir, e['job'].get('deadlock', False))
            keys2 = set(x[0] for x in core.parse_tsan(r2.tsan_logs))
            confirmed = k in keys2
        col.tsan_distinct.add(k)
        if confirmed:
            key = '%s/tsan:%s' % (e['job']['name'], k)
            rp = core.write_replay('%s.%s.tsan%d.txt' % (prop, e['res'].tag, len(col.tsan_distinct)), 'cmd=%s\nkey=%s\nseen-in-processes=%s reruns=%d\n\n%s\n' % (' '.join(e['res'].cmd), key, sorted(e['tags']), reruns, e['blk']))
            violations.append((key, rp, 'ThreadSanitizer: ' + e['kind']))
        else:
            unconfirmed.append(dict(key=k, process=sorted(e['tags'])[0], reruns_without_recurrence=reruns, head=e['blk'][:600]))
            print('NOTE: one-off ThreadSanitizer report not reproduced in %d re-runs (not counted): %s' % (reruns, k))
    for key, rp, msg, tag in col.viol:
        violations.append((key, rp, msg))

    # ---- offline (python) checkers over recorded logs
    ctx.violations = violations
    if spec.get('post'):
        try:
            spec['post'](ctx)
        except HarnessFailure as e:
            col.harness_bugs.append('post-checker: %s' % e)
        except Exception as e:     # a post-checker crash must not hide violations already found
            import traceback
            col.harness_bugs.append('post-checker crashed: %s\n%s' % (e, traceback.format_exc()[-1500:]))

    # ---- verdict
    new_viol, seen = [], set()
    for key, rp, msg in violations:
        if key in fkeys:
            if key not in known_hits:
                print('KNOWN-FINDING: property=%s %s %s' % (prop, key, fkeys[key]))
                known_hits.append(key)
            continue
        if key in seen:
            continue
        seen.add(key)
        new_viol.append((key, rp, msg))

    floors = tier_val(spec.get('floors', {}), tier) or {}
    if degraded:
        floors = {k: v for k, v in floors.items() if k in ('ops', 'cases')}    # walker counters are necessarily 0 in the degraded build
    floor_fail = []
    allstats = dict(col.stats)
    allstats.update({k: v for k, v in col.maxs.items() if k not in allstats})
    allstats.update(ctx.extra_cov.get('_stats', {}))
    for k, need in floors.items():
        have = allstats.get(k, len(col.sets.get(k, ()))) if not k.startswith('set:') else len(col.sets.get(k[4:], ()))
        if have < need:
            floor_fail.append('%s=%s < floor %s' % (k, have, need))

    wall = time.time() - t0
    cov = dict(evaluations=int(col.stats.get('cases', 0)), distinct_nontrivial=len(col.fps), rule=spec['rule'],
               samples=col.samples[:6], counters=dict(sorted(col.stats.items())), maxima=dict(sorted(col.maxs.items())),
               observed_sets={k: sorted(v) for k, v in sorted(col.sets.items())},
               processes=col.procs, build_s=round(build_s, 1),
               builds=sorted(set('%s:%s' % (j['variant'], j['harness']) for j in jobs)),
               jobs=[dict(name=j['name'], variant=j['variant'], mode=j['mode'], cases=tier_val(j.get('cases', 1), tier)) for j in jobs],
               sanitizer=dict(tsan_report_blocks=col.tsan_reports, tsan_distinct=len(col.tsan_distinct), tsan_unconfirmed_one_off_reports=unconfirmed),
               degraded_no_private_access=degraded, known_findings_reproduced=known_hits, excluded_triggers=[k for k, _ in findings],
               inconclusive=inconclusive, violations_found=[dict(key=k, replay=r, msg=m[:300]) for k, r, m in new_viol])
    if spec.get('exhaustive'):
        cov['exhaustive'] = bool(tier_val(spec['exhaustive'], tier))
    for k, v in ctx.extra_cov.items():
        if k != '_stats':
            cov[k] = v
        else:
            cov['offline_counters'] = dict(sorted(v.items()))
    core.write_evidence(prop, tier, seed, spec.get('level', 'exploration'), cov, spec.get('assumptions', []), wall, len(new_viol))

    print('%s tier=%s seed=%d: %d cases, %d distinct non-trivial, %d processes, %.1fs (build %.1fs)' % (prop, tier, seed, cov['evaluations'], cov['distinct_nontrivial'], col.procs, wall, build_s))
    for k in sorted(col.stats):
        pass
    if new_viol:
        for key, rp, msg in new_viol:
            print('  violation key=%s : %s' % (key, msg[:400]))
        for key, rp, msg in new_viol:
            print('VIOLATION property=%s replay=%s' % (prop, rp))
        return 1
    if col.harness_bugs or inconclusive or floor_fail:
        for b in col.harness_bugs:
            print('HARNESS-FAILURE: %s' % b)
        for b in inconclusive:
            print('INCONCLUSIVE: %s' % b)
        for b in floor_fail:
            print('INCONCLUSIVE: observation floor not reached: %s' % b)
        return 2
    shutil.rmtree(logdir, ignore_errors=True)
    return 0


def do_replay(prop, spec, bins, path, logdir):
    txt = open(path, errors='replace').read()
    m = re.search(r'^cmd=(.*)$', txt, re.M)
    hdr = dict(re.findall(r'^(\w+)=(.*)$', txt.split('--- history')[0], re.M))
    if 'harness' in hdr and 'case' in hdr:
        j = next((j for j in spec['jobs'] if j['harness'] == hdr['harness'] and j['mode'] == hdr.get('mode')), None)
        if not j:
            j = next((j for j in spec['jobs'] if j['harness'] == hdr['harness']), None)
        if not j:
            print('cannot find job for replay')
            return 2
        cmd = [bins[(j['variant'], j['harness'])], '--mode', hdr.get('mode', j['mode']), '--seed', hdr['seed'], '--start', hdr['case'], '--cases', '1', '--out', os.path.join(core.REPLAYS, prop)]
        if hdr.get('exclude'):
            cmd += ['--exclude', hdr['exclude']]
        variant = j['variant']
    elif m:
        cmd = m.group(1).split()
        variant = 'asan'
        for j in spec['jobs']:
            if j['harness'] in cmd[0]:
                variant = j['variant']
                cmd[0] = bins[(j['variant'], j['harness'])]
    else:
        print('unrecognised replay file')
        return 2
    print('replaying: ' + ' '.join(cmd))
    res = core.run_proc(cmd, core.base_env(variant, logdir, 'replay'), 900, 'replay', logdir)
    sys.stdout.write(res.stdout[-5000:])
    sys.stdout.write(res.stderr[-8000:])
    c = core.Collected()
    c.add_stdout(res)
    if c.viol or res.rc not in (0,):
        print('VIOLATION property=%s replay=%s' % (prop, path))
        return 1
    return 0
