# C03 job table (see DESIGN.md section 3): List / Array / PoolList hold exactly the reference sequence; List::sort; large containers (mode big)
from .jobs import job, Q, T

SPEC = dict(
    level='exploration',
    rule='case = one operation history on two live containers of one type (List<Val>, Array<Val>, PoolList<PT>; Val = (key, unique id, tracked Elem), compared by key so that '
         'duplicates exist; PT = non-copyable element with 0..7 constructor arguments); swarm-weighted history of 20..600 operations (List: append, prepend, insert before '
         'begin/second/middle/last/end, append/prepend/insert of another list, remove by iterator / value, removeFront/Back, clear, swap, copy-construct, operator=, sort; '
         'Array: Array()/Array(capacity) lazy allocation, append, append(T*,n) from an exactly-sized heap block, append(Array), remove(index) incl. out of range, remove(iterator), '
         'removeFront/Back, reserve below/equal/above capacity, resize shrink/same/grow with and without value, clear, swap, copy-construct, operator=; PoolList: append with 0..7 '
         'arguments, remove by iterator / element reference, removeFront/Back, clear, swap). "array-grow" = directed sweep: 3 constructions x start capacity 0..17 x fill 0..c0+5 x '
         'every single operation of an enumerated set (block/array appends of 0..8, resize to 0..n+7, remove(index) 0..n+1, reserve 0..c0+9, copy, assign). "sort-exh" = every '
         'permutation of n<=N distinct keys and every sequence over 3 keys of length<=8, built by append / prepend / on recycled nodes. "sort-rand" = lists up to 2000 elements in 7 patterns. '
         'distinct = hash of the (operation kind, argument) sequence resp. of the enumerated input; non-trivial = reached >=2 elements and executed >=1 removal (sort: n>=2). '
         'After every operation: size, isEmpty, forward and backward iteration of (key, id, guard id), front/back (const and non-const), operator T*, capacity() >= size() and >= reserved, '
         'find for every universe key (first match), the returned iterator / reference, List ==/!= in both directions against the second list vs model equality, structural walk '
         '(links, free list acyclic and disjoint from the live items, every live and free item inside a block of the list and not overlapping another one, live + free == slots of '
         'the blocks with the slot count of each block derived from its allocation size under ASan - no slot count is assumed; Array begin/end/capacity coherent). When the private '
         'members the walker reads cannot be compiled against (renamed), the harness is built with -DVERIF_NO_PRIVATE: all public-API oracles stay, the walker is absent (evidence '
         'field degraded_no_private_access). sort oracle: ascending and multiset-equal on (key, id) to the list before. '
         '"big" = few long cases per process for size-dependent behaviour (case index mod 3 selects List / Array / PoolList): the container is grown (appends only, runs of append / prepend / '
         'insert before a position, overshoot + removal of the surplus, grow-and-thin-out, copy or assignment of a temporary; Array also Array(n), reserve + one block, resize, several blocks, '
         'single appends across the capacity) to a size in 1k..scale picked around powers of two (-3..+7) and round decimal numbers (-1..+3) or log-uniformly, then 5..9 phases of clear + refill, '
         'assignment onto / from it (second container as it is / fresh / small / large), copy construction + mutation of the copy, swap + mutation of both, bulk removal (every k-th element through '
         'one iterator walk with the returned successor checked, many from an end, by value / index / element reference), re-insertion of 1..9 / a fraction / all / all+1 elements, insertion of a '
         'whole list, Array resize / reserve / append(Array), one sort; bulk operations write one history line and each phase ends with the full comparison of both containers (contents both '
         'directions, structural walk, find for first / middle / last / absent key, List equality), no library threshold is known to the generator.',
    assumptions=['ASan/UBSan red zones; library ASSERTs enabled (-DDEBUG)',
                 'self-assignment / self-argument operations and element arguments aliasing the container are not generated here (property C04)',
                 'PoolList::front()/back() cannot be instantiated and are not called; first/last are observed through begin() and --end()',
                 'sort is not required to be stable'],
    exhaustive={Q: False, T: False},
    jobs=[
        job('list', 'h_seq', 'list', cases={Q: 20000, T: 80000}, procs=16),
        job('array', 'h_seq', 'array', cases={Q: 20000, T: 80000}, procs=16),
        job('plist', 'h_seq', 'plist', cases={Q: 10000, T: 40000}, procs=16),
        job('array-grow', 'h_seq', 'array-grow', cases=-1, procs=16),
        job('sort-exh', 'h_seq', 'sort-exh', cases=-1, scale={Q: 7, T: 8}, procs=16),
        job('sort-rand', 'h_seq', 'sort-rand', cases={Q: 2000, T: 8000}, scale=2000, procs=16),
        # few long cases: containers of 1k..scale elements (sizes around powers of two / round numbers), then clear / assignment / copy / swap / bulk removal / re-insertion
        job('big', 'h_seq', 'big', cases={Q: 192, T: 1920}, scale={Q: 20000, T: 50000}, procs=16),
        # the same generators against the -O2 build without sanitizers (the configuration the library ships in): model + structural walker only
        job('list-O2', 'h_seq', 'list', variant='plain', cases={Q: 2000, T: 15000}, procs=8, args=['--start', '500000']),
        job('array-O2', 'h_seq', 'array', variant='plain', cases={Q: 2000, T: 15000}, procs=8, args=['--start', '500000']),
        job('plist-O2', 'h_seq', 'plist', variant='plain', cases={Q: 2000, T: 15000}, procs=8, args=['--start', '500000']),
        job('sort-exh-O2', 'h_seq', 'sort-exh', variant='plain', cases=-1, scale={Q: 6, T: 8}, procs=8),
        job('big-O2', 'h_seq', 'big', variant='plain', cases={Q: 48, T: 480}, scale={Q: 20000, T: 50000}, procs=8, args=['--start', '500000']),
    ],
    floors={Q: dict(ops=1500000, finds=20000000, structure_walks=1700000, walks_with_block_sizes=1000000, op_sort=35000, sort_permutations=6788, sort_duplicate_sequences=19682, growths=70000, sweep_configurations=52236,
                    op_insert_list=18000, op_append_block=38000, op_append_array=33000, op_resize=40000, op_reserve=47000, op_remove_index=39000, op_remove_ref=15000, op_remove_value=40000,
                    op_copy_construct=30000, op_assign=30000, op_swap=60000, eq_true_nonempty=50000, eq_false_same_size=39000, max_size=16000,
                    big_phases=1000, big_checks_large=2400, big_elements_checked=12000000, big_inserted_large=2200000, big_removed=600000, big_clear_large=170, big_clear_large_with_free_items=80,
                    big_refill_after_clear=130, big_assign_onto_large=65, big_assign_from_large=80, big_copy_large=60, big_swap_large=100, big_bulk_removals_large=400,
                    **{'set:big_size_classes': 3, 'set:big_phase_kinds_list': 11, 'set:big_phase_kinds_array': 11, 'set:big_phase_kinds_plist': 5, 'set:big_swap_classes': 4, 'set:big_assign_classes': 6,
                       'set:append_arities': 8, 'set:remove_index_classes': 4, 'set:resize_classes': 4, 'set:reserve_classes': 6, 'set:copy_classes': 4, 'set:swap_classes': 9,
                       'set:sort_patterns': 7, 'set:insert_positions': 5, 'set:equality_relations': 4, 'set:slots_per_block': 1}),
            T: dict(ops=12000000, finds=180000000, structure_walks=14000000, walks_with_block_sizes=4000000, op_sort=280000, sort_permutations=92468, sort_duplicate_sequences=19682, growths=350000, sweep_configurations=52236,
                    op_insert_list=160000, op_append_block=310000, op_append_array=270000, op_resize=320000, op_reserve=320000, op_remove_index=320000, op_remove_ref=150000, op_remove_value=420000,
                    op_copy_construct=300000, op_assign=300000, op_swap=640000, eq_true_nonempty=460000, eq_false_same_size=340000, max_size=32000,
                    big_phases=8000, big_checks_large=19000, big_elements_checked=96000000, big_inserted_large=17000000, big_removed=4800000, big_clear_large=1300, big_clear_large_with_free_items=640,
                    big_refill_after_clear=1000, big_assign_onto_large=520, big_assign_from_large=640, big_copy_large=480, big_swap_large=800, big_bulk_removals_large=3200,
                    **{'set:big_size_classes': 3, 'set:big_phase_kinds_list': 11, 'set:big_phase_kinds_array': 11, 'set:big_phase_kinds_plist': 5, 'set:big_swap_classes': 4, 'set:big_assign_classes': 6,
                       'set:append_arities': 8, 'set:remove_index_classes': 4, 'set:resize_classes': 4, 'set:reserve_classes': 6, 'set:copy_classes': 4, 'set:swap_classes': 9,
                       'set:sort_patterns': 7, 'set:insert_positions': 5, 'set:equality_relations': 4, 'set:slots_per_block': 1})},
)
