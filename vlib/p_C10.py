# C10 job table (see DESIGN.md section 3)
from .jobs import job, Q, T

SRC = ['harness/h_future.cpp']
SPEC = dict(
    level='exploration',
    technique='runtime monitoring: exactly-once job ledger + completion oracles under TSan/ASan/plain with seeded schedule perturbation at hook points',
    rule='case = one seeded multi-client workload (1..8 client threads x 1..64 Future<int>/Future<void> objects x 1..50 rounds of start/abort/complete via join, destructor, '
         'result conversion or implicit join by restart; job bodies instant/spin/sleep/gated) on one of 16 thread-pool configurations (one per process, hook 2), with seeded delays at the 19 '
         'VERIF_POINT windows of src/Future.cpp and (asan/plain) at the pthread shims incl. legal spurious wake-ups. distinct = distinct interleaving signature (sum over threads of '
         'hash(global hook sequence number, hook id)); non-trivial = >=2 client threads and >=4 jobs. Oracles: per-job exec==1 and done before every completion primitive returns, '
         'echoed arguments, converted result, isAborted xor isFinished, aborted only if abort() was requested, no lost/duplicated job at the end, condition-variable lifetime registry, '
         'TSan (volatile-as-atomic) / ASan+LSan reports, provable-deadlock detector.',
    assumptions=['volatile words and __sync exchanges are modelled as acquire/release resp. seq_cst for TSan (x86-64 semantics, DESIGN.md 2.3)',
                 'liveness is decided as bounded progress: watchdog expiry without a provable all-threads-blocked state is inconclusive, not a violation'],
    jobs=[
        job('future-tsan', 'h_future', 'run', variant='tsan', sources=SRC, cflags=['-DVERIF_NO_PTSHIMS'], cases={Q: 1440, T: 40000}, procs=16, weight=1, timeout={Q: 300, T: 3000}, deadlock=True),
        job('future-asan', 'h_future', 'run', variant='asan', sources=SRC + ['interpose/pthread_shims.cpp'], cases={Q: 2400, T: 80000}, procs=16, weight=1, timeout={Q: 300, T: 3000}, deadlock=True),
        job('future-plain', 'h_future', 'run', variant='plain', sources=SRC + ['interpose/pthread_shims.cpp'], cases={Q: 4800, T: 160000}, procs=16, weight=1, timeout={Q: 300, T: 3000}, deadlock=True),
        # many short-lived processes: every process exit destroys the pool (spawned/retired/sleeping workers in every mix) - hangs in ~ThreadPool show here
        job('future-exit-plain', 'h_future', 'run', variant='plain', sources=SRC + ['interpose/pthread_shims.cpp'], cases={Q: 1280, T: 10240}, procs={Q: 64, T: 256}, weight=1, timeout={Q: 300, T: 600}, deadlock=True),
        job('future-exit-asan', 'h_future', 'run', variant='asan', sources=SRC + ['interpose/pthread_shims.cpp'], cases={Q: 640, T: 5120}, procs={Q: 64, T: 256}, weight=1, timeout={Q: 300, T: 600}, deadlock=True),
    ],
    floors={Q: dict(jobs=100000, **{'set:points_hit': 17, 'set:pool_configs': 16}), T: dict(jobs=2000000, **{'set:points_hit': 18, 'set:pool_configs': 16})},
)
