# props.py - per-property job tables (see DESIGN.md section 3)
import os
from . import core

from .jobs import job, Q, T


PROPS = {}

import importlib
for _i in range(1, 21):
    _id = 'C%02d' % _i
    if os.path.exists(os.path.join(os.path.dirname(__file__), 'p_%s.py' % _id)):
        PROPS[_id] = importlib.import_module('vlib.p_' + _id).SPEC


def setup():
    """pre-build the library variants (MANIFEST.setup_cmd)"""
    try:
        for v in ('asan', 'tsan', 'plain'):
            core.build_lib(v)
    except core.HarnessFailure as e:
        print('HARNESS-FAILURE: %s' % e)
        return 2
    print('setup ok')
    return 0
