# C02 job table (see DESIGN.md section 3): HashMap / HashSet / PoolMap as insertion-ordered unique-key tables
from .jobs import job, Q, T

SPEC = dict(
    level='exploration',
    rule='case = one operation history on two live tables of one type (HashMap<K,Elem> / HashSet<K> / PoolMap<K,PVal>; K = tracked Elem with generator-chosen hash '
         '(identity, constant, mod 2, mod 3, scrambled), String through the real hash(const String&) incl. strings with identical hash codes, or int incl. negative keys and '
         'stride = capacity), capacities drawn from {0->1,1,2,3,7,16,500, default ctor}; swarm-weighted history of 20..600 operations (append, prepend, insert before '
         'begin/second/middle/last/end, remove by key / iterator / value reference, removeFront/Back, clear, swap, copy-construct, operator=, HashSet append(other)/remove(other), '
         'perturbed rebuild of the second table for the equality oracle). "chains" = every insertion order of n<=N keys into capacity 1..3 tables built by append / prepend / '
         'insert-middle, then every single removal by iterator and by key, both drains, clear+reuse. distinct = hash of configuration and (operation kind, key) sequence; '
         'non-trivial = reached >=2 entries and executed >=1 removal. After every operation: size, isEmpty, forward and backward iteration (keys and values), front/back, '
         'find/contains for every universe key and 3 absent keys (find must return the entry at the model position), returned iterator / reference position, '
         'operator==/!= in both directions against the second table vs order-sensitive model equality, and the structural walk through the access override '
         '(order list links, every item in exactly the bucket hash%capacity, cell back-pointers, acyclic chains, sum of chain lengths == size, capacity member changes only by '
         'swap/assignment, free list acyclic and disjoint from live items, every live and free item inside a block of the table and not overlapping another one, '
         'live + free == slots of the blocks with the slot count of each block derived from its allocation size under ASan - no slot count, default capacity or other tuning '
         'constant of the implementation is assumed). When the private members the walker reads cannot be compiled against (renamed), the harness is built with '
         '-DVERIF_NO_PRIVATE: all public-API oracles stay, the walker and the chain-position classes are absent (evidence field degraded_no_private_access). '
         'PoolMap is additionally instantiated with mapped types that have no user-provided default constructor (long; a plain struct of int/long/pointer/double/byte array '
         'whose members the harness all sets non-zero) in the "pmapv" histories and in "chains": the value of every entry created from a key alone (append(key), insert(pos,key)) '
         'is compared with the reference map\'s V() (every member zero) before it is written, counted separately for recycled slots (address handed out before) and never-used slots, '
         'and every stored plain-struct value is re-read member by member on each iteration.',
    assumptions=['ASan/UBSan red zones; library ASSERTs enabled (-DDEBUG)',
                 'self-assignment / self-swap / self-argument bulk operations are not generated here (property C04)',
                 'HashMap/PoolMap::front() const and back() const cannot be instantiated and are not called; the non-const overloads are'],
    exhaustive={Q: False, T: False},
    jobs=[
        job('hmap', 'h_hash', 'hmap', cases={Q: 30000, T: 120000}, procs=16),
        job('hset', 'h_hash', 'hset', cases={Q: 30000, T: 120000}, procs=16),
        job('pmap', 'h_hash', 'pmap', cases={Q: 20000, T: 80000}, procs=16),
        # PoolMap with mapped types that have no user-provided default constructor (long / plain struct): value of entries created from a key only
        job('pmap-plain', 'h_hash', 'pmapv', cases={Q: 9000, T: 48000}, procs=16),
        job('chains', 'h_hash', 'chains', cases=-1, scale={Q: 5, T: 6}, procs=16),
        # the same generators against the -O2 build without sanitizers (the configuration the library ships in): model + structural walker only
        job('hmap-O2', 'h_hash', 'hmap', variant='plain', cases={Q: 3000, T: 20000}, procs=8, args=['--start', '500000']),
        job('hset-O2', 'h_hash', 'hset', variant='plain', cases={Q: 3000, T: 20000}, procs=8, args=['--start', '500000']),
        job('pmap-O2', 'h_hash', 'pmap', variant='plain', cases={Q: 3000, T: 20000}, procs=8, args=['--start', '500000']),
        job('pmap-plain-O2', 'h_hash', 'pmapv', variant='plain', cases={Q: 2000, T: 12000}, procs=8, args=['--start', '500000']),
    ],
    floors={Q: dict(ops=2500000, lookups=70000000, structure_walks=2500000, walks_with_block_sizes=2000000, insert_existing_key=800000, eq_true_nonempty=200000, eq_false_same_size=200000, op_swap=130000,
                    op_copy_construct=90000, op_assign=50000, op_bulk_append=18000, op_bulk_remove=18000, op_remove_value=23000, op_remove_key=200000, op_remove_it=150000,
                    op_insert_pos=300000, op_clear=150000, max_chain_length=40,
                    plain_value_new_entry_recycled_slot=300000, plain_value_new_entry_fresh_slot=150000,
                    **{'set:value_families': 3, 'set:plain_value_insert_paths': 2, 'set:chain_remove_pos': 5, 'set:insert_positions': 5, 'set:key_families': 12, 'set:capacities': 7, 'set:chain_lengths': 40, 'set:equality_relations': 6,
                       'set:swap_classes': 8, 'set:assign_classes': 4, 'set:slots_per_block': 1}),
            T: dict(ops=23000000, lookups=650000000, structure_walks=21000000, walks_with_block_sizes=8000000, insert_existing_key=7000000, eq_true_nonempty=1700000, eq_false_same_size=1900000, op_swap=1100000,
                    op_copy_construct=800000, op_assign=450000, op_bulk_append=150000, op_bulk_remove=150000, op_remove_value=200000, op_remove_key=2000000, op_remove_it=1400000,
                    op_insert_pos=2800000, op_clear=1800000, max_chain_length=45,
                    plain_value_new_entry_recycled_slot=1600000, plain_value_new_entry_fresh_slot=800000,
                    **{'set:value_families': 3, 'set:plain_value_insert_paths': 2, 'set:chain_remove_pos': 5, 'set:insert_positions': 5, 'set:key_families': 12, 'set:capacities': 7, 'set:chain_lengths': 45, 'set:equality_relations': 6,
                       'set:swap_classes': 8, 'set:assign_classes': 4, 'set:slots_per_block': 1})},
)
