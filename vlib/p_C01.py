# C01 job table (see DESIGN.md section 3)
from .jobs import job, Q, T

SPEC = dict(
    level='exploration',
    rule='case = one operation history on a Map/MultiMap (exhaustive: one insertion order of n<=N keys followed by every single removal and both drains; '
         'random: swarm-weighted history of 20..1500 ops). distinct = distinct hash of the (operation kind, key) sequence; non-trivial = reached >=2 entries and executed >=1 removal. '
         'After every operation: full forward/backward iteration, size, front/back, find/contains/count for every universe key, comparison count of find vs 2*floor(1.4405*log2(n+2)), '
         'AVL structure walk (parent links, heights, slopes, threaded list) via access override.',
    assumptions=['ASan/UBSan red zones; library ASSERTs enabled (-DDEBUG)', 'hinted insert of an equal key may land anywhere in its run of equal keys; MultiMap::find/remove(key) may pick any equal entry'],
    exhaustive={Q: False, T: False},
    jobs=[
        job('map-exh', 'h_map', 'map-exh', cases=-1, scale={Q: 7, T: 8}, procs=16, probes=[]),
        job('multi-exh', 'h_map', 'multi-exh', cases=-1, scale={Q: 6, T: 8}, procs=16, probes=['MultiMap.count/value', 'MultiMap.copy-construct/shallow']),
        job('map-rand', 'h_map', 'map-rand', cases={Q: 24000, T: 120000}, procs=16),
        job('multi-rand', 'h_map', 'multi-rand', cases={Q: 24000, T: 120000}, procs=16),
        job('map-depth', 'h_map', 'map-depth', cases={Q: 96, T: 320}, procs=16),
        job('multi-depth', 'h_map', 'multi-depth', cases={Q: 96, T: 320}, procs=16),
    ],
    floors={Q: dict(ops=100000, lookups=1000000, structure_walks=100000, two_child_removals=1000, **{'set:hint_classes': 7}),
            T: dict(ops=1000000, lookups=10000000, structure_walks=1000000, two_child_removals=10000, **{'set:hint_classes': 7})},
)


