#!/usr/bin/env python3
# selftest.py - mutation kill matrix: apply each /verif/mutants/<Cxx>-*.patch (or seeded/<id>/patch.diff) to a scratch copy of /repo, run the property's
# quick check with VERIF_REPO pointing at the copy, require exit 1 + VIOLATION line.  usage: python3 -m vlib.selftest [Cxx ...] [--seeded] [--jobs N]
import os, sys, re, json, glob, shutil, subprocess, time
from concurrent.futures import ThreadPoolExecutor
VERIF = os.path.dirname(os.path.dirname(os.path.abspath(__file__)))

def run_one(prop, patch, tier='quick'):
    name = os.path.basename(os.path.dirname(patch)) if patch.endswith('patch.diff') else os.path.basename(patch)
    scratch = '/var/tmp/verif-scratch-%d-%s' % (os.getpid(), re.sub(r'\W', '_', name))
    shutil.rmtree(scratch, ignore_errors=True)
    os.makedirs(scratch)
    try:
        for d in ('include', 'src'):
            shutil.copytree(os.path.join('/repo', d), os.path.join(scratch, d))
        r = subprocess.run(['patch', '-p1', '--no-backup-if-mismatch', '-s', '-i', patch], cwd=scratch, capture_output=True, text=True)
        if r.returncode != 0:
            return dict(mutant=name, property=prop, result='patch-failed', detail=(r.stdout + r.stderr)[-300:])
        env = dict(os.environ, VERIF_REPO=scratch)
        t0 = time.time()
        r = subprocess.run([os.path.join(VERIF, 'check'), prop, '--tier', tier], cwd=VERIF, env=env, capture_output=True, text=True)
        keys = re.findall(r'violation key=(\S+)', r.stdout)
        expected = 'killed'
        mp = os.path.join(os.path.dirname(patch), 'meta.json')
        if patch.endswith('patch.diff') and os.path.exists(mp):
            expected = json.load(open(mp)).get('expected_result', 'killed')
        res = 'killed' if r.returncode == 1 and 'VIOLATION property=%s' % prop in r.stdout else ('survived' if r.returncode == 0 else 'inconclusive(rc=%d)' % r.returncode)
        if expected == 'survived' and res == 'survived':
            res = 'survived(as judged: not a violation)'
        return dict(mutant=name, property=prop, result=res, keys=keys[:4], wall_s=round(time.time() - t0, 1), tail=r.stdout[-300:] if res != 'killed' else '')
    finally:
        shutil.rmtree(scratch, ignore_errors=True)
        # build cache of the scratch tree
        import hashlib
        h = hashlib.sha256(scratch.encode()).hexdigest()[:10]
        shutil.rmtree(os.path.join(VERIF, '.build', 'alt-' + h), ignore_errors=True)
        shutil.rmtree(os.path.join(VERIF, 'replays', 'alt-' + h), ignore_errors=True)

def main():
    args = [a for a in sys.argv[1:] if not a.startswith('--')]
    seeded = '--seeded' in sys.argv
    jobs = 2
    for a in sys.argv[1:]:
        if a.startswith('--jobs='):
            jobs = int(a[7:])
    work = []
    if seeded:
        for meta in sorted(glob.glob(os.path.join(VERIF, 'seeded', '*', 'meta.json'))):
            m = json.load(open(meta))
            if args and m['property'] not in args and os.path.basename(os.path.dirname(meta)) not in args:
                continue
            work.append((m['property'], os.path.join(os.path.dirname(meta), 'patch.diff')))
    else:
        for p in sorted(glob.glob(os.path.join(VERIF, 'mutants', 'C*.patch'))):
            prop = os.path.basename(p).split('-')[0]
            if args and prop not in args:
                continue
            work.append((prop, p))
    with ThreadPoolExecutor(jobs) as pool:
        results = list(pool.map(lambda w: run_one(*w), work))
    for r in results:
        print('%-8s %-55s %s %s' % (r['property'], r['mutant'], r['result'], ','.join(r.get('keys', []))[:150]))
    tag = '-'.join(args)
    if len(tag) > 60:
        import hashlib
        tag = '%d-items-%s' % (len(args), hashlib.sha256(tag.encode()).hexdigest()[:8])
    out = os.path.join(VERIF, 'selftest_results', ('seeded' if seeded else 'mutants') + ('-' + tag if args else '') + '.json')
    os.makedirs(os.path.dirname(out), exist_ok=True)
    json.dump(results, open(out, 'w'), indent=1)
    bad = [r for r in results if r['result'] != 'killed' and not r['result'].startswith('survived(as judged')]
    print('%d/%d killed' % (len(results) - len(bad), len(results)))
    return 1 if bad else 0

if __name__ == '__main__':
    sys.exit(main())
