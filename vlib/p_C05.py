# C05 job table (see DESIGN.md section 3): elements of node and pool containers never move while they live
from .jobs import job, Q, T

_TYPES = ['list', 'map', 'multimap', 'hashmap', 'hashset', 'poollist', 'poolmap']

SPEC = dict(
    level='exploration',
    rule='case = one long random history (300..3000 operations, x8 in the -long jobs) on two containers of one type (List, Map, MultiMap, HashMap, HashSet, PoolList, PoolMap) whose population '
         'oscillates between ~0 and up to 300 entries. For every entry the harness records at insertion (ids, address of key and value, the iterator the insertion returned) and later '
         'removes only through those recorded iterators. distinct = hash of the operation texts; non-trivial = population reached >=8 and >=8 removals happened while other entries stayed. '
         'After every operation the records around the touched position and 3 random records are re-validated (stored iterator -> recorded addresses, registry-live elements with the recorded ids, '
         '++/-- reach the neighbours\' stored iterators, find(key) returns the stored iterator); full sweeps of both containers every 37 operations, at small populations, after swap / clear / bulk '
         'operations and whenever a non-inserting operation copied a tracked element. swap must construct and destroy nothing and the other container must then own the same addresses. '
         'PoolList/PoolMap hold non-copyable types that remember their construction address: exactly one construction per append, at the returned address, none elsewhere. '
         'Job reentrant (case i works on container type i % 7; 150..900 operations, population <= 40): the same ledger over re-entrant element types - three out of four removals '
         '(remove(iterator) / remove(key) / remove(value) / removeFront / removeBack) arm one destructor of the dying entry to insert a new key, re-insert the dying key or remove another entry '
         'of the same container (nested operations from element *constructors* are deliberately not armed, see assumptions); the element stored by the nested operation '
         'must not be constructed inside the object whose destructor is still running (first member of every re-entrant type checks that, the Elem registry backs it up) and both '
         'containers are swept after every such operation.',
    assumptions=['ASan/UBSan + LeakSanitizer; library ASSERTs enabled (-DDEBUG)',
                 'List::sort is outside the statement (it is neither an insertion nor a removal and exchanges values between nodes); it is not part of the histories',
                 'a hinted insert of an equal key into a MultiMap may land anywhere in its run of equal keys; MultiMap::find/remove(key) may pick any equal entry',
                 'the library clients named by the property (Server pools, thread-pool contexts, Callback slot lists) are exercised by C14/C10/C12',
                 're-entrant elements: only what the unchanged library supports is exercised - nested operations from the destructor of the one entry a single removal destroys (all seven '
                 'containers unlink the node before and release it after the destructor). Not promised and never armed: element constructors (five of the seven containers of the unchanged '
                 'library construct in the head node of the free list and pop it afterwards, so a nested insertion from a constructor would get the same node; seeded change C05-B4, which makes '
                 'HashMap do the same, is therefore judged not to violate the property), destructors run by clear() / container destruction / assignment, nested '
                 'removal of the position argument or of the dying entry, the iterator returned by a removal whose destructor changed the container'],
    technique='runtime monitoring: address/iterator ledger per element + tracked non-copyable element types + sanitizers over long generated histories',
    exhaustive={Q: False, T: False},
    jobs=[job(t, 'h_stable', t, cases={Q: 2000, T: 16000}, procs=2, timeout=900) for t in _TYPES] +
         [job(t + '-long', 'h_stable', t + '-long', cases={Q: 40, T: 800}, procs=2, timeout=900) for t in _TYPES] +    # mode <type>-long: histories 8 times as long (2400..24000 operations)
         [job('reentrant', 'h_stable', 'reentrant', cases={Q: 1400, T: 14000}, procs=2, timeout=900)],                 # mode reentrant: case i works on container type i % 7
    # reentrant_classes = <removal entry point>/<what the destructor does> (84 today)
    # block_allocations depends on the library's items-per-block tuning constant (4 today: ~500000 observed in quick): the floor leaves room for blocks up to ~64 items
    floors={Q: dict(ops=6000000, address_checks=85000000, iterator_checks=37000000, lookups=30000000, full_sweeps=5000000, swaps=125000, entries_tracked=2700000, block_allocations=22000,
                    free_slot_reuses=1800000, root_changes=170000, population_turns=60000, max_ops_survived=2500,
                    nested_ops_from_destructor=120000, nested_insertions=60000, nested_reinsertions_of_dying_key=40000, nested_removals=30000,
                    **{'set:op_classes': 95, 'set:reentrant_classes': 80}),
            T: dict(ops=120000000, address_checks=1800000000, iterator_checks=800000000, lookups=600000000, full_sweeps=100000000, swaps=2600000, entries_tracked=50000000, block_allocations=440000,
                    free_slot_reuses=34000000, root_changes=3400000, population_turns=1100000, max_ops_survived=6000,
                    nested_ops_from_destructor=1200000, nested_insertions=600000, nested_reinsertions_of_dying_key=400000, nested_removals=300000,
                    **{'set:op_classes': 95, 'set:reentrant_classes': 80})},
)
