# C05 job table (see DESIGN.md section 3): elements of node and pool containers never move while they live
from .jobs import job, Q, T

_TYPES = ['list', 'map', 'multimap', 'hashmap', 'hashset', 'poollist', 'poolmap']

SPEC = dict(
    level='exploration',
    rule='case = one long random history (300..3000 operations, x8 in the -long jobs) on two containers of one type (List, Map, MultiMap, HashMap, HashSet, PoolList, PoolMap) whose population '
         'oscillates between ~0 and up to 300 entries. For every entry the harness records at insertion (ids, address of key and value, the iterator the insertion returned) and later '
         'removes only through those recorded iterators. distinct = hash of the operation texts; non-trivial = population reached >=8 and >=8 removals happened while other entries stayed. '
         'After every operation the records around the touched position and 3 random records are re-validated (stored iterator -> recorded addresses, registry-live elements with the recorded ids, '
         '++/-- reach the neighbours\' stored iterators, find(key) returns the stored iterator); full sweeps of both containers every 37 operations, at small populations, after swap / clear / bulk '
         'operations and whenever a non-inserting operation copied a tracked element. swap must construct and destroy nothing and the other container must then own the same addresses. '
         'PoolList/PoolMap hold non-copyable types that remember their construction address: exactly one construction per append, at the returned address, none elsewhere.',
    assumptions=['ASan/UBSan + LeakSanitizer; library ASSERTs enabled (-DDEBUG)',
                 'List::sort is outside the statement (it is neither an insertion nor a removal and exchanges values between nodes); it is not part of the histories',
                 'a hinted insert of an equal key into a MultiMap may land anywhere in its run of equal keys; MultiMap::find/remove(key) may pick any equal entry',
                 'the library clients named by the property (Server pools, thread-pool contexts, Callback slot lists) are exercised by C14/C10/C12'],
    technique='runtime monitoring: address/iterator ledger per element + tracked non-copyable element types + sanitizers over long generated histories',
    exhaustive={Q: False, T: False},
    jobs=[job(t, 'h_stable', t, cases={Q: 2000, T: 16000}, procs=2, timeout=900) for t in _TYPES] +
         [job(t + '-long', 'h_stable', t + '-long', cases={Q: 40, T: 800}, procs=2, timeout=900) for t in _TYPES],     # mode <type>-long: histories 8 times as long (2400..24000 operations)
    # block_allocations depends on the library's items-per-block tuning constant (4 today: ~500000 observed in quick): the floor leaves room for blocks up to ~64 items
    floors={Q: dict(ops=6000000, address_checks=85000000, iterator_checks=37000000, lookups=30000000, full_sweeps=5000000, swaps=125000, entries_tracked=2700000, block_allocations=22000,
                    free_slot_reuses=1800000, root_changes=170000, population_turns=60000, max_ops_survived=2500, **{'set:op_classes': 95}),
            T: dict(ops=120000000, address_checks=1800000000, iterator_checks=800000000, lookups=600000000, full_sweeps=100000000, swaps=2600000, entries_tracked=50000000, block_allocations=440000,
                    free_slot_reuses=34000000, root_changes=3400000, population_turns=1100000, max_ops_survived=6000, **{'set:op_classes': 95})},
)
