# C17 job table (see DESIGN.md section 3 / C17): SHA-256 and HMAC-SHA-256 against the standard
from .jobs import job, Q, T
from . import sha_ref

SPEC = dict(
    level='exploration',
    rule='case = one message (chunk sweep: one of lengths 0..300 x {seeded, all-zero, all-0xff} content; rand: random length up to 70000; big: one long pattern message; '
         'huge (plain -O2 build, one case per process): one message whose BIT length needs (or just does not need) more than 32 bits - 2^29-1, 2^29, 2^29+seeded, 2^30+seeded bytes, thorough also '
         '2^31, 2^32-1, 2^32, 2^32+seeded, 2^33 bytes - made of one seeded 2^20-byte splitmix64 block repeated and fed in seeded pieces of 0 bytes .. 2 MiB from a 2 MiB window, or passed in ONE '
         'hash() / hmac() call (seeded key length 0..200) as a contiguous read-only mapping of that block repeated, so no case holds more than ~4 MiB; the digests / MACs are recomputed offline by hashlib / hmac over the same block; '
         'hmac: one key length 0..200 x content kind with message lengths {0,1,55,56,63,64,65,119,120,1000}; hmac-rand: random key <400 / message <3000; '
         'alias: calls whose 32-byte result buffer is (part of) an input buffer - case kind = index mod 6: hmac result == start of the key buffer (key lengths 0..200 in turn, buffer of '
         'exactly max(len,32) bytes, 14 message lengths), hmac result overlapping the key / the message / both at arbitrary offsets of a shared exactly-sized block, '
         'hash(data,n,result) with result inside data (lengths 0..300 in turn, result at start / end / middle), finalize() into the buffer the last update() read from). '
         'distinct = hash of (length, content kind, digest prefix, chunking shape); non-trivial = message length >= 1 (every hmac case is non-trivial). '
         'Online: the digest of EVERY chunking (all 2-way splits x 4 hasher states {fresh, reused after finalize, reset mid-message, reset after construction}, '
         '2-way splits with each piece in its own exactly-sized block, single-byte updates, zero-length updates, 1000 sampled (quick) / all (thorough) 3-way splits, '
         'random k-way splits up to 40 pieces) is compared byte-wise with the one-shot Sha256::hash digest of the same message. '
         'Aliased calls: result == MAC/digest of copies of the inputs taken before the call (same call on the copies with a separate result buffer), every byte of the shared block '
         'outside the result and every non-shared input unchanged; the aliased results are also recomputed offline. '
         'mt / mt-tsan: case = 2..8 threads (index mod 7), each with 4..10 seeded work items of its own and as many rounds over them as make the same 6000..20000 compressed blocks for every thread (hash(), a reused hasher of its own fed in 1..3 pieces with reset() in '
         'between, a fresh hasher per call, hmac(), the RFC 2104 construction from two hashers of its own), all threads released by one barrier; every result is compared with the value of '
         'the same input computed (and recorded for the offline comparison) by the main thread before the threads existed; two serial control rounds of every work list first; the '
         'ThreadSanitizer build of the same mode reports unsynchronised accesses to state shared between hashers. '
         'Offline: every one-shot digest and every MAC is recomputed with Python hashlib/hmac (vlib/sha_ref.py), which is itself anchored on FIPS 180-4 / RFC 4231 vectors.',
    assumptions=['ASan/UBSan red zones: messages, keys, pieces, the 32-byte digest destination and the hasher object live in exactly-sized heap blocks',
                 'Python hashlib.sha256 and hmac are the standard (self-checked against 12 published vectors at every run)',
                 'aliasing result and input buffers is within the contract of hmac/hash/finalize: inputs are const pointers read as of the time of the call, nothing in the API forbids '
                 'an in-place call (k = HMAC(k, info)) and the pinned implementation consumes every input before it writes the result',
                 'hasher objects that are not shared between threads are independent (a Sha256 is plain data, hash()/hmac() work on a local object, the pinned implementation has no '
                 'mutable static state): a result computed while other threads hash must equal the result computed single-threaded',
                 'equality with the standard for chunked hashing is established transitively: chunked digest == one-shot digest (online) and one-shot digest == hashlib (offline)'],
    technique='reference-implementation comparison (online self-consistency + offline hashlib/hmac over a recorded log), exhaustive small sub-spaces',
    exhaustive={Q: True, T: True},
    jobs=[
        # first in the list: its few long-running single-case processes start at once and run alongside everything else
        job('huge', 'h_sha', 'huge', variant='plain', cases={Q: 6, T: 14}, procs={Q: 6, T: 14}, rec=True, timeout=3000),
        job('chunk-q', 'h_sha', 'chunk-q', cases={Q: -1, T: 0}, procs=16, rec=True),
        job('chunk-t', 'h_sha', 'chunk-t', cases={Q: 0, T: -1}, procs=16, rec=True),
        job('rand', 'h_sha', 'rand', cases={Q: 8000, T: 80000}, procs=16, rec=True),
        job('hmac', 'h_sha', 'hmac', cases=-1, procs=16, rec=True),
        job('hmac-rand', 'h_sha', 'hmac-rand', cases={Q: 8000, T: 200000}, procs=16, rec=True),
        job('alias', 'h_sha', 'alias', cases={Q: 7236, T: 72360}, procs=16, rec=True),
        job('big', 'h_sha', 'big', cases={Q: 5, T: 7}, procs={Q: 5, T: 7}, rec=True, timeout=1200),
        job('vectors', 'h_sha', 'vectors', cases=-1, procs=1, rec=True),
        job('mt', 'h_sha', 'mt', cases={Q: 280, T: 4000}, procs=4, weight=4, rec=True, timeout=1200),
        job('mt-tsan', 'h_sha', 'mt-tsan', variant='tsan', cases={Q: 84, T: 800}, procs=4, weight=4, rec=True, timeout=1200),
    ],
    floors={Q: dict(digests=500000, updates=1500000, chunkings2=300000, chunkings3=500000, chunkings_k=10000, single_byte_runs=900, hmacs=10000,
                    hasher_reuse_after_finalize=100000, hasher_reset_mid_message=100000, offline_digests_compared=4900, offline_macs_compared=10000,
                    offline_vectors_compared=12, long_messages=5,
                    huge_messages=6, huge_chunked=4, huge_one_shot=1, huge_hmacs=1, huge_messages_of_2p29_bytes_or_more=5, offline_huge_results_compared=6, offline_huge_results_of_2p29_bytes_or_more=5,
                    alias_hmac_result_is_key_buffer=8000, alias_hmac_result_overlaps_key=3000, alias_hmac_result_in_middle_of_key=1000, alias_hmac_result_in_message_of_32_or_more=2000,
                    alias_hmac_result_in_middle_of_message=1000, alias_hmac_shared_block=3000, alias_hmac_result_overlaps_key_and_message=300, alias_hash_result_in_data=3000,
                    alias_finalize_into_last_input=3000, alias_results_compared=25000, alias_bytes_outside_result_compared=500000, offline_aliased_results_compared=20000,
                    mt_cases=360, mt_results_compared=1000000, mt_static_hash_digests=150000, mt_reused_hasher_digests=150000, mt_fresh_hasher_digests=150000, mt_static_hmacs=150000,
                    mt_hmacs_from_own_hashers=150000, mt_control_results_compared=16000, mt_expected_digests_recorded=5000, mt_expected_macs_recorded=3000,
                    mt_cases_with_observed_overlap=250, mt_thread_rounds_during_which_another_thread_advanced=10000, mt_max_threads=8, **{'set:mt_thread_counts': 7},
                    **{'set:padding_classes': 6, 'set:hmac_key_classes': 4, 'set:bit_length_classes': 2, 'set:alias_key_classes': 5, 'set:huge_length_classes': 3}),
            T: dict(digests=14000000, updates=35000000, chunkings2=500000, chunkings3=13000000, chunkings_k=300000, single_byte_runs=900, hmacs=200000,
                    lengths_with_all_3way_splits=903, hasher_reuse_after_finalize=100000, hasher_reset_mid_message=100000,
                    offline_digests_compared=80000, offline_macs_compared=200000, offline_vectors_compared=12, long_messages=7,
                    huge_messages=14, huge_chunked=9, huge_one_shot=3, huge_hmacs=2, huge_messages_of_2p29_bytes_or_more=13, huge_messages_of_2p32_bytes_or_more=5,
                    offline_huge_results_compared=14, offline_huge_results_of_2p29_bytes_or_more=13,
                    alias_hmac_result_is_key_buffer=160000, alias_hmac_result_overlaps_key=60000, alias_hmac_result_in_middle_of_key=20000, alias_hmac_result_in_message_of_32_or_more=40000,
                    alias_hmac_result_in_middle_of_message=20000, alias_hmac_shared_block=60000, alias_hmac_result_overlaps_key_and_message=6000, alias_hash_result_in_data=60000,
                    alias_finalize_into_last_input=60000, alias_results_compared=500000, alias_bytes_outside_result_compared=10000000, offline_aliased_results_compared=400000,
                    mt_cases=4800, mt_results_compared=13000000, mt_static_hash_digests=2500000, mt_reused_hasher_digests=2500000, mt_fresh_hasher_digests=2500000, mt_static_hmacs=2500000,
                    mt_hmacs_from_own_hashers=2500000, mt_control_results_compared=220000, mt_expected_digests_recorded=65000, mt_expected_macs_recorded=43000,
                    mt_cases_with_observed_overlap=3500, mt_thread_rounds_during_which_another_thread_advanced=150000, mt_max_threads=8, **{'set:mt_thread_counts': 7},
                    **{'set:padding_classes': 6, 'set:hmac_key_classes': 4, 'set:bit_length_classes': 4, 'set:alias_key_classes': 5, 'set:huge_length_classes': 6})},
    post=sha_ref.post,
)
