# C09 job table (see DESIGN.md section 3)
from .jobs import job, Q, T

SRC = ['harness/h_refcount.cpp']
SPEC = dict(
    level='exploration',
    technique='runtime monitoring: handle-count model + destructor ledger for RefCount::Ptr, per-thread content models for String/Variant payloads, under TSan (volatile-as-atomic), ASan+LSan and an allocation ledger at native speed',
    rule='ptr-seq: single-threaded histories of 20-300 operations over 6 Ptr<Base> and 3 Ptr<Derived> handles (assign raw/handle/converted handle/null, self-assignment, swap between handles of '
         'different/same payloads, copy-construct, compare); after every operation each handle designates its model payload, payloads are alive iff the model still references them. '
         'conc: 2-8 threads each own private String/Variant (string, list, array and map payloads, a quarter of the containers with 150-340 items)/Xml::Variant/Ptr handles to 1-3 common payloads and run 200-2500 seeded operations (temporary copies, assignment, in-place modification that must '
         'detach, swap, re-pointing, mailbox exchange of fresh copies under a lock, destruction while other threads run); some runs pinned to one CPU to force preemption inside the windows. '
         'duel: 2-4 threads receive the last handles of a fresh payload each round and release them at the same moment through random release paths (500-4000 rounds per case). Oracles: per-thread content model of every private handle (foreign in-place change or premature release shows as a content difference), conservative holder counts checked in the '
         'pointee destructor (released while referenced), destructor-once ledger, created==destroyed after the last handle, TSan/ASan/LSan, allocation ledger (double free, write after free, '
         'blocks live after the run). distinct = hash of (case, operations executed); non-trivial = >=2 threads and >=400 operations (conc) / a payload was shared and one released (ptr-seq).',
    assumptions=['no handle object is ever used by two threads (the property\'s precondition); only payloads are shared',
                 'volatile reference counters are modelled as acquire/release for TSan (DESIGN.md 2.3); a report must recur to count'],
    jobs=[
        job('ptr-seq', 'h_refcount', 'ptr-seq', sources=SRC, cases={Q: 96000, T: 800000}, procs=16, probes=['RefCount.Ptr.swap/different-payloads']),
        job('conc-tsan', 'h_refcount', 'conc', variant='tsan', sources=SRC, cases={Q: 1920, T: 16000}, procs=16, timeout={Q: 900, T: 3000}, deadlock=True),
        job('conc-asan', 'h_refcount', 'conc', variant='asan', sources=SRC, cases={Q: 3840, T: 32000}, procs=16, timeout={Q: 900, T: 3000}, deadlock=True),
        job('conc-plain', 'h_refcount', 'conc', variant='plain', sources=SRC + ['interpose/ledger.cpp'], cflags=['-DVERIF_LEDGER'], cases={Q: 12800, T: 96000}, procs=16, timeout={Q: 900, T: 3000}, deadlock=True),
        job('duel-tsan', 'h_refcount', 'duel', variant='tsan', sources=SRC, cases={Q: 128, T: 1600}, procs=16, weight=4, timeout={Q: 900, T: 3000}, deadlock=True),
        job('duel-asan', 'h_refcount', 'duel', variant='asan', sources=SRC, cases={Q: 256, T: 3200}, procs=16, weight=4, timeout={Q: 900, T: 3000}, deadlock=True),
        job('duel-plain', 'h_refcount', 'duel', variant='plain', sources=SRC + ['interpose/ledger.cpp'], cflags=['-DVERIF_LEDGER'], cases={Q: 512, T: 6400}, procs=16, weight=4, timeout={Q: 900, T: 3000}, deadlock=True),
    ],
    floors={Q: dict(ops=6000000, in_place_modifications=600000, mailbox_exchanges=60000, op_swap=300000, ledger_freed_blocks_poison_verified=300000, duel_rounds=400000, op_assign_raw_of_held=100000, variant_array_payloads=1000, variant_map_payloads=1000, variant_list_payloads=1000, **{'set:duel_release_paths': 6}),
            T: dict(ops=40000000, in_place_modifications=4000000, mailbox_exchanges=400000, op_swap=2000000, ledger_freed_blocks_poison_verified=2000000)},
)
