# C11 job table (see DESIGN.md section 3)
from .jobs import job, Q, T
from . import lincheck

SRC = ['harness/h_sync.cpp']
SH = SRC + ['interpose/pthread_shims.cpp']


def jobs3(name, mode, q, t, rec=True):
    return [job('%s-tsan' % name, 'h_sync', mode, variant='tsan', sources=SRC, cflags=['-DVERIF_NO_PTSHIMS'], cases={Q: q // 2, T: t // 2}, procs=16, rec=rec, timeout={Q: 600, T: 3000}, deadlock=True),
            job('%s-asan' % name, 'h_sync', mode, variant='asan', sources=SH, cases={Q: q, T: t}, procs=16, rec=rec, timeout={Q: 600, T: 3000}, deadlock=True),
            job('%s-plain' % name, 'h_sync', mode, variant='plain', sources=SH, cases={Q: q, T: t}, procs=16, rec=rec, timeout={Q: 600, T: 3000}, deadlock=True)]


SPEC = dict(
    level='exploration',
    technique='runtime monitoring: recorded invoke/return histories checked offline for linearizability against sequential specs; online exclusion/timing/counting oracles; TSan/ASan; pthread lifetime registry with injected delays and spurious wake-ups',
    rule='case = one scenario: 2-4 threads (plus the main thread) run seeded scripts of 3-10 operations on one primitive (Mutex: lock/tryLock/unlock re-entrantly; Semaphore: signal/wait/'
         'wait(timeout)/tryWait; Signal: set/reset/wait/wait(timeout); Monitor: set and guarded lock-wait-unlock blocks), under pthread-shim perturbation (asan/plain) or TSan. '
         'Every operation is recorded with global invoke/return sequence numbers and monotonic time. distinct = hash of the observed invoke/return order; non-trivial = >= 6 operations. '
         'Oracles: offline linearizability of each Mutex/Semaphore/Signal history; plain occupancy/owner variables inside critical sections; timed waits returning false lasted >= timeout - 1 ms; '
         'Monitor: k-th successful wait needs k set() calls invoked before it returns, and a waiter proven inside wait() is released by set(); destroy-right-after-wait templates; set();reset() with W waiters proven parked must release all W; strict Monitor handshake (one set() issued while a waiter is proven inside wait() and the previous set() was consumed => exactly one more successful wait, with timed waiters timing out concurrently); sem_timedwait interrupted by injected EINTR must be retried; Thread::join value and visibility.',
    assumptions=['kernel-originated spurious wake-ups and wall-clock steps cannot be forced; shim-injected legal spurious wake-ups are used instead',
                 'bounded progress: a blocked scenario is a violation only if every thread is provably blocked without timeout, or a 30-60 s handshake bound expires (5+ orders of magnitude above a wake-up)'],
    jobs=jobs3('mutex', 'mutex', 1600, 32000) + jobs3('semaphore', 'semaphore', 1600, 32000) + jobs3('signal', 'signal', 1600, 32000) + jobs3('monitor', 'monitor', 1600, 32000)
         + jobs3('destroy', 'destroy', 3200, 64000, rec=False) + jobs3('pulse', 'pulse', 1600, 32000, rec=False)[1:] + jobs3('monitor-strict', 'monitor-strict', 640, 12800, rec=False) + jobs3('thread', 'thread', 1600, 32000, rec=False),
    post=lambda ctx: lincheck.check_files(ctx, None),
    floors={Q: dict(ops=100000, histories_linearizability_checked=9000, timed_false_lower_bound_checked=2000, destroy_after_wait_runs=4000, pulse_runs=2000, monitor_strict_sets=5000, monitor_strict_timed_timeouts=1000, pthread_shim_injected_eintr=200, thread_joins=5000, monitor_successful_waits=1000),
            T: dict(ops=2000000, histories_linearizability_checked=180000, timed_false_lower_bound_checked=40000, destroy_after_wait_runs=80000, pulse_runs=40000, monitor_strict_sets=100000, monitor_strict_timed_timeouts=20000, pthread_shim_injected_eintr=4000, thread_joins=100000, monitor_successful_waits=20000)},
)
