# core.py - build cache, parallel runner, sanitizer-report parsing, known-findings matching, evidence writer
import os, sys, re, json, glob, hashlib, subprocess, time, shutil, signal, struct, threading
from concurrent.futures import ThreadPoolExecutor

VERIF = os.path.dirname(os.path.dirname(os.path.abspath(__file__)))
REPO = os.environ.get('VERIF_REPO', '/repo')
BUILD = os.path.join(VERIF, '.build') if REPO == '/repo' else os.path.join(VERIF, '.build', 'alt-' + hashlib.sha256(REPO.encode()).hexdigest()[:10])
REPLAYS = os.path.join(VERIF, 'replays') if REPO == '/repo' else os.path.join(VERIF, 'replays', 'alt-' + hashlib.sha256(REPO.encode()).hexdigest()[:10])   # runs against a scratch tree (VERIF_REPO) keep their own replay/fingerprint area
NCPU = os.cpu_count() or 16
GUARD = 'LIBNSTD_VERIF'

COMMON = ['-g', '-fno-omit-frame-pointer', '-D' + GUARD, '-pthread']
VARIANTS = {
    'asan': dict(cxx='g++', flags=['-O1', '-fsanitize=address,undefined', '-fno-sanitize-recover=all', '-fno-sanitize=pointer-overflow',
                                   '-fsanitize-address-use-after-scope', '-DDEBUG'] + COMMON, link=['-fsanitize=address,undefined']),
    'tsan': dict(cxx='g++', flags=['-O1', '-fsanitize=thread', '--param', 'tsan-distinguish-volatile=1', '-DDEBUG'] + COMMON, link=['-fsanitize=thread']),
    'plain': dict(cxx='g++', flags=['-O2', '-DDEBUG'] + COMMON, link=[]),
    'fuzz': dict(cxx='clang++-14', flags=['-O1', '-fsanitize=fuzzer-no-link,address,undefined', '-fno-sanitize-recover=all', '-fno-sanitize=object-size,pointer-overflow',
                                          '-DDEBUG'] + COMMON, link=['-fsanitize=fuzzer,address,undefined']),
}
ASAN_OPTIONS = 'abort_on_error=0:exitcode=99:detect_leaks=1:detect_stack_use_after_return=1:allocator_may_return_null=1:handle_sigill=1:handle_abort=1:handle_sigfpe=1:malloc_context_size=12'
UBSAN_OPTIONS = 'print_stacktrace=1:halt_on_error=1'
LSAN_OPTIONS = 'exitcode=98'


class HarnessFailure(Exception):
    pass


DEGRADED = {}     # (variant, harness) -> first compile error, when the harness had to be built without access to private library state


def sha(*parts):
    h = hashlib.sha256()
    for p in parts:
        if isinstance(p, str):
            p = p.encode()
        h.update(p)
        h.update(b'\0')
    return h.hexdigest()[:16]


def read(path):
    with open(path, 'rb') as f:
        return f.read()


_hdr_hash = None


def headers_hash():
    global _hdr_hash
    if _hdr_hash is None:
        files = sorted(glob.glob(os.path.join(REPO, 'include', '**', '*.hpp'), recursive=True) + glob.glob(os.path.join(REPO, 'include', '**', '*.h'), recursive=True))
        _hdr_hash = sha(*[f + '\n' + read(f).decode('latin1') for f in files])
    return _hdr_hash


_cxx_ver = {}


def cxx_version(cxx):
    if cxx not in _cxx_ver:
        _cxx_ver[cxx] = subprocess.run([cxx, '--version'], capture_output=True, text=True).stdout.split('\n')[0]
    return _cxx_ver[cxx]


def compile_obj(variant, src, extra_flags, outdir, tag):
    v = VARIANTS[variant]
    flags = v['flags'] + extra_flags + ['-I' + os.path.join(REPO, 'include'), '-I' + os.path.join(VERIF, 'harness')]
    dep = ''
    if src.startswith(VERIF):
        # harness / interpose sources depend on the harness headers too
        hs = sorted(glob.glob(os.path.join(VERIF, 'harness', '*.hpp')) + glob.glob(os.path.join(VERIF, 'interpose', '*.hpp')))
        dep = sha(*[read(h) for h in hs])
    key = sha(cxx_version(v['cxx']), ' '.join(flags), headers_hash(), read(src), dep)
    base = tag + '-' + os.path.basename(src).replace('.cpp', '')
    obj = os.path.join(outdir, '%s-%s.o' % (base, key))
    if os.path.exists(obj):
        return obj
    for old in glob.glob(os.path.join(outdir, base + '-????????????????.o')):
        try:
            os.unlink(old)
        except OSError:
            pass
    tmp = obj + '.tmp%d' % os.getpid()
    cmd = [v['cxx']] + flags + ['-c', src, '-o', tmp]
    r = subprocess.run(cmd, capture_output=True, text=True)
    if r.returncode != 0:
        raise HarnessFailure('compile failed: %s\n%s' % (' '.join(cmd), r.stderr[-4000:]))
    os.rename(tmp, obj)
    return obj


def lib_sources():
    return sorted(glob.glob(os.path.join(REPO, 'src', '*.cpp')) + glob.glob(os.path.join(REPO, 'src', '*', '*.cpp')))


def build_lib(variant, pool=None):
    outdir = os.path.join(BUILD, variant)
    os.makedirs(outdir, exist_ok=True)
    srcs = lib_sources()
    own = pool is None
    if own:
        pool = ThreadPoolExecutor(NCPU)
    try:
        futs = [pool.submit(compile_obj, variant, s, [], outdir, 'lib') for s in srcs]
        return [f.result() for f in futs]
    finally:
        if own:
            pool.shutdown()


def build_harness(variant, name, sources, extra_flags=None, extra_link=None):
    """sources: paths relative to /verif. Returns the binary path."""
    extra_flags = extra_flags or []
    extra_link = extra_link or []
    outdir = os.path.join(BUILD, variant)
    os.makedirs(os.path.join(outdir, 'bin'), exist_ok=True)
    v = VARIANTS[variant]
    with ThreadPoolExecutor(NCPU) as pool:
        libf = [pool.submit(compile_obj, variant, s, [], outdir, 'lib') for s in lib_sources()]
        hsrcs = [os.path.join(VERIF, s) for s in sources] + [os.path.join(VERIF, 'harness', 'vh.cpp')]
        if variant == 'tsan':
            hsrcs.append(os.path.join(VERIF, 'interpose', 'tsan_volatile.cpp'))
        priv = ['-fno-access-control', '-Wno-invalid-offsetof']
        nopriv = ['-DVERIF_NO_PRIVATE']      # fallback: public API only (structural walkers off), used when the private layout the walkers read has changed
        force = bool(os.environ.get('VERIF_FORCE_NO_PRIVATE'))
        libobjs = [f.result() for f in libf]
        try:
            if force:
                raise HarnessFailure('forced')
            hf = [pool.submit(compile_obj, variant, s, priv + extra_flags, outdir, 'h') for s in hsrcs]
            hobjs = [f.result() for f in hf]
        except HarnessFailure as first:
            try:
                hf = [pool.submit(compile_obj, variant, s, nopriv + extra_flags, outdir, 'hnp') for s in hsrcs]
                hobjs = [f.result() for f in hf]
            except HarnessFailure:
                raise first if not force else HarnessFailure('harness does not compile with -DVERIF_NO_PRIVATE')
            DEGRADED[(variant, name)] = str(first)[:400]
        objs = hobjs + libobjs
    key = sha(*objs, ' '.join(extra_link))
    binp = os.path.join(outdir, 'bin', '%s-%s' % (name, key))
    if os.path.exists(binp):
        return binp
    for old in glob.glob(os.path.join(outdir, 'bin', name + '-????????????????')):
        try:
            os.unlink(old)
        except OSError:
            pass
    tmp = binp + '.tmp%d' % os.getpid()
    cmd = [v['cxx']] + v['link'] + ['-g', '-o', tmp] + objs + ['-rdynamic', '-lpthread', '-lrt', '-ldl'] + extra_link
    r = subprocess.run(cmd, capture_output=True, text=True)
    if r.returncode != 0:
        raise HarnessFailure('link failed: %s\n%s' % (' '.join(cmd[:6]) + ' ...', r.stderr[-4000:]))
    os.rename(tmp, binp)
    return binp


# ------------------------------------------------------------------------------------------------ running

def base_env(variant, logdir, tag):
    env = dict(os.environ)
    env['ASAN_OPTIONS'] = ASAN_OPTIONS
    env['UBSAN_OPTIONS'] = UBSAN_OPTIONS
    env['LSAN_OPTIONS'] = LSAN_OPTIONS
    env['TSAN_OPTIONS'] = 'halt_on_error=0:exitcode=0:second_deadlock_stack=1:history_size=4:log_path=%s' % os.path.join(logdir, 'tsan.' + tag)
    env.pop('LD_PRELOAD', None)
    return env


class ProcResult:
    def __init__(self):
        self.rc = None
        self.stdout = ''
        self.stderr = ''
        self.timed_out = False
        self.wall = 0.0
        self.cmd = []
        self.tag = ''
        self.tsan_logs = []
        self.deadlock = None


def sample_threads(pid):
    """Return {tid: (state, syscall_line, ctxsw)} for the deadlock detector."""
    out = {}
    try:
        tids = os.listdir('/proc/%d/task' % pid)
    except OSError:
        return out
    for t in tids:
        try:
            st = open('/proc/%d/task/%s/stat' % (pid, t)).read()
            state = st[st.rindex(')') + 2]
            sc = open('/proc/%d/task/%s/syscall' % (pid, t)).read().strip()
            status = open('/proc/%d/task/%s/status' % (pid, t)).read()
            cs = sum(int(x) for x in re.findall(r'ctxt_switches:\s+(\d+)', status))
            out[t] = (state, sc, cs)
        except (OSError, ValueError):
            pass
    return out


def provably_deadlocked(pid, ignore=()):
    """True iff every thread (except the sanitizer runtime's background threads recorded at start-up) is asleep in a futex/epoll_wait/read
    without timeout and nothing moved within 400 ms."""
    a = sample_threads(pid)
    time.sleep(0.4)
    b = sample_threads(pid)
    if not a or set(a) != set(b):
        return False
    for t in b:
        if t in ignore:
            continue
        state, sc, cs = b[t]
        if state != 'S' or a[t][2] != cs:
            return False
        f = sc.split()
        if not f or f[0] == 'running':
            return False
        nr = int(f[0])
        args = [int(x, 16) for x in f[1:7]] if len(f) >= 7 else []
        if nr == 202:      # futex(uaddr, op, val, timeout, ...)
            op = args[1] & 0x7f
            if op in (0, 9, 11, 6) and args[3] != 0:   # WAIT / WAIT_BITSET / LOCK_PI with timeout
                return False
        elif nr in (232, 281):   # epoll_wait / epoll_pwait: timeout is arg 3 (int, -1 = infinite)
            if (args[3] & 0xffffffff) != 0xffffffff:
                return False
        elif nr in (0, 61, 247):   # read, wait4, waitid: no timeout
            pass
        elif nr in (7, 271, 23, 270, 35, 230):  # poll family, select, nanosleep: have timeouts
            return False
        else:
            return False
    return True


def gdb_stacks(pid):
    try:
        r = subprocess.run(['gdb', '-batch', '-p', str(pid), '-ex', 'thread apply all bt 12'], capture_output=True, text=True, timeout=60)
        return r.stdout[-20000:]
    except Exception as e:
        return 'gdb failed: %s' % e


def run_proc(cmd, env, timeout, tag, logdir, detect_deadlock=False):
    res = ProcResult()
    res.cmd = cmd
    res.tag = tag
    so = os.path.join(logdir, tag + '.out')
    se = os.path.join(logdir, tag + '.err')
    t0 = time.time()
    with open(so, 'wb') as fo, open(se, 'wb') as fe:
        p = subprocess.Popen(cmd, stdout=fo, stderr=fe, env=env, cwd=VERIF, start_new_session=True)
        deadline = t0 + timeout
        next_dl = t0 + 20
        bg = set()
        while True:
            try:
                p.wait(timeout=1.0)
                break
            except subprocess.TimeoutExpired:
                now = time.time()
                if detect_deadlock and now >= next_dl:
                    next_dl = now + 10
                    if not bg:
                        try:
                            m = re.search(r'@BGTIDS(.*)', open(so, errors='replace').read(4096))
                            bg = set(m.group(1).split()) if m else set()
                        except OSError:
                            pass
                    if provably_deadlocked(p.pid, bg) and provably_deadlocked(p.pid, bg):
                        res.deadlock = gdb_stacks(p.pid)
                        try:
                            os.killpg(p.pid, signal.SIGKILL)
                        except OSError:
                            pass
                        p.wait()
                        break
                if now >= deadline:
                    res.timed_out = True
                    if detect_deadlock and provably_deadlocked(p.pid, bg):
                        res.deadlock = gdb_stacks(p.pid)
                    try:
                        os.killpg(p.pid, signal.SIGKILL)
                    except OSError:
                        pass
                    p.wait()
                    break
    res.rc = p.returncode
    res.wall = time.time() - t0
    res.stdout = read(so).decode('latin1')
    res.stderr = read(se).decode('latin1')
    res.tsan_logs = sorted(glob.glob(os.path.join(logdir, 'tsan.' + tag + '.*')))
    return res


# ------------------------------------------------------------------------------------------------ report parsing

def strip_nums(s):
    s = re.sub(r'0x[0-9a-f]+', 'X', s)
    return re.sub(r'\d+', 'N', s)


def lib_frames(text, limit=3):
    """library/harness frames of the first stack in a sanitizer report: function names only"""
    out = []
    for m in re.finditer(r'#\d+ (?:0x[0-9a-f]+ in )?(.+?) (/\S+?):(\d+)', text):
        fn, path = m.group(1), m.group(2)
        if '/repo' in path or REPO in path or '/verif/' in path:
            fn = re.sub(r'\(.*', '', fn)
            out.append('%s@%s' % (fn, os.path.basename(path)))
            if len(out) >= limit:
                break
    return out


def classify_death(res):
    """Return (kind, detail) for a process that died abnormally, or None."""
    err = res.stderr
    m = re.search(r'ERROR: AddressSanitizer: ([\w-]+)', err)
    if m:
        kind = m.group(1)
        if kind == 'ILL' and 'assertion failed' in err or 'verification failed' in err:
            a = re.search(r'([\w.]+):(\d+): (assertion|verification) failed: (.*)', err)
            if a:
                return ('assert:%s:%s' % (a.group(1), a.group(2)), a.group(0))
        if kind == 'attempting':
            kind = 'double-free' if 'double-free' in err else 'bad-free'
        return ('asan:' + kind, ' <- '.join(lib_frames(err[m.start():])))
    m = re.search(r'ERROR: LeakSanitizer', err)
    if m:
        return ('leak', ' <- '.join(lib_frames(err[m.start():])))
    m = re.search(r'runtime error: (.*)', err)
    if m:
        return ('ubsan:' + strip_nums(m.group(1))[:60].strip().replace(' ', '-'), m.group(1))
    a = re.search(r'([\w.]+):(\d+): (assertion|verification) failed: (.*)', err)
    if a:
        return ('assert:%s:%s' % (a.group(1), a.group(2)), a.group(0))
    m = re.search(r'@SIGNAL (\d+)', err)
    if m:
        return ('signal:' + m.group(1), '')
    if res.rc is not None and res.rc < 0:
        return ('signal:%d' % -res.rc, '')
    return None


def parse_tsan(logs):
    """Return list of (dedupe_key, kind, text) for each report block in the TSan logs."""
    reports = []
    for lp in logs:
        txt = read(lp).decode('latin1')
        for blk in re.split(r'(?m)^={18}$', txt):
            m = re.search(r'WARNING: ThreadSanitizer: ([^\(\n]+)', blk)
            if not m:
                continue
            kind = m.group(1).strip()
            # the stacks of the two accesses: take the first library/harness frame of each stack
            tops = []
            for st in re.split(r'\n\s*\n', blk):
                fr = lib_frames(st, 1)
                if fr and fr[0] not in tops:
                    tops.append(fr[0])
                if len(tops) >= 2:
                    break
            key = kind.replace(' ', '-') + ':' + '|'.join(sorted(tops))
            reports.append((key, kind, blk.strip()[:6000]))
    return reports


class Collected:
    def __init__(self):
        self.stats = {}
        self.maxs = {}
        self.sets = {}
        self.samples = []
        self.fps = set()
        self.viol = []      # (key, replay, msg, tag)
        self.harness_bugs = []
        self.inconclusive = []
        self.procs = 0
        self.cases = 0
        self.wall = 0.0
        self.tsan_reports = 0
        self.tsan_distinct = set()

    def add_stdout(self, res):
        fpfile = None
        done = False
        ctx = None
        deathreplay = ''
        for line in res.stdout.split('\n'):
            if not line.startswith('@'):
                continue
            f = line.split(' ', 2)
            if f[0] == '@STAT' and len(f) == 3:
                try:
                    self.stats[f[1]] = self.stats.get(f[1], 0) + int(f[2])
                except ValueError:
                    pass
            elif f[0] == '@MAX' and len(f) == 3:
                self.maxs[f[1]] = max(self.maxs.get(f[1], 0), int(f[2]))
            elif f[0] == '@SET' and len(f) == 3:
                self.sets.setdefault(f[1], set()).add(f[2])
            elif f[0] == '@SAMPLE':
                if len(self.samples) < 6:
                    self.samples.append(line[8:][:1500])
            elif f[0] == '@FPFILE':
                fpfile = line[8:].strip()
            elif f[0] == '@DONE':
                done = True
            elif f[0] == '@CTX':
                ctx = line[5:].strip()
            elif f[0] == '@DEATHREPLAY':
                deathreplay = line[13:].strip()
            elif f[0] == '@VIOL':
                m = re.match(r'@VIOL key=(\S+) replay=(\S*) msg=(.*)', line)
                if m:
                    self.viol.append((m.group(1), m.group(2), m.group(3), res.tag))
            elif f[0] == '@HARNESSBUG':
                self.harness_bugs.append('%s: %s' % (res.tag, line))
        if fpfile and os.path.exists(fpfile):
            data = read(fpfile)
            for i in range(0, len(data) - 7, 8):
                self.fps.add(data[i:i + 8])
            try:
                os.unlink(fpfile)
            except OSError:
                pass
        return done, ctx, deathreplay


def write_replay(name, content):
    os.makedirs(REPLAYS, exist_ok=True)
    p = os.path.join(REPLAYS, name)
    with open(p, 'w') as f:
        f.write(content)
    return p


# ------------------------------------------------------------------------------------------------ known findings

def load_known(prop):
    findings, fixed = [], []
    p = os.path.join(VERIF, 'known_findings.txt')
    if not os.path.exists(p):
        return findings, fixed
    for line in open(p):
        line = line.strip()
        if not line or line.startswith('#'):
            continue
        m = re.match(r'finding:\s+property=(\S+)\s+key=(\S+)\s*(.*)', line)
        if m and m.group(1) == prop:
            findings.append((m.group(2), m.group(3)))
        m = re.match(r'fixed:\s+property=(\S+)\s+(\S+)\s+key=(\S+)\s*(.*)', line)
        if m and m.group(1) == prop:
            fixed.append((m.group(3), m.group(2), m.group(4)))
    return findings, fixed


def write_evidence(prop, tier, seed, level, coverage, assumptions, wall, violations):
    evdir = os.path.join(VERIF, 'evidence') if REPO == '/repo' else os.path.join(REPLAYS, 'evidence')    # evidence/ only ever describes runs against /repo itself
    os.makedirs(evdir, exist_ok=True)
    ev = dict(property_id=prop, tier=tier, seed=seed, level=level, coverage=coverage, assumptions=assumptions, wall_s=round(wall, 2), violations=violations)
    p = os.path.join(evdir, prop + '.json')
    tmp = p + '.tmp%d' % os.getpid()
    with open(tmp, 'w') as f:
        json.dump(ev, f, indent=1, sort_keys=True)
    os.rename(tmp, p)
    return p
