# C20 job table (see DESIGN.md section 3, C20): child processes and Process::Arguments
from .jobs import job, Q, T

SRC = ['harness/h_process.cpp', 'interpose/fd_track.cpp']

SPEC = dict(
    level='exploration',
    rule='arguments: every argument vector of <= 4 (quick) / <= 5 (thorough) words over 30 tokens (-a -b flags, -c/--gamma required value, -d/--delta optional value, long-only --omega, '
         'clusters -ab -abc -ac -cx -acx -az -zb -ad -c-, --name=value forms, unknown -z/--zeta, operands x = "" - --) plus random character-level words (incl. a byte >= 0x80); '
         'case = one 3-word prefix with all its extensions (exhaustive job) or 32 random vectors; every argv string lives in an exactly-sized heap block and the pointer array has '
         'no terminator slot; the (character, argument) sequence is compared item by item with an independent reference of the getopt_long conventions in libnstd\'s encoding '
         '(0 + word for operands in order, \'?\' + offending word or "-x" for unknown options, \':\' + option for a missing required value, "--" ends option processing). '
         'processes: case = one child started through one of the five start/open overloads (round robin) with 0..6 extra arguments (argv forms: bytes 1..255, with and without a null '
         'last element; command-line forms: words rendered with random bare/double-quoted segments and \\" inside quotes), an explicit environment of 1..5 variables or the inherited '
         'one, every subset of {stdout, stderr, stdin} (round robin), payload sizes 0, 1, 4095, 4096, 65535, 65536, 65537, 300000 per stream, exit code 0..255; the child is this '
         'harness binary (--child-echo) and reports argc/argv/environ and a digest of its stdin to a file; oracle: echoed argv and sorted environment equal the given ones, join() code '
         'equals the requested one, bytes read until read() returns 0 equal the bytes the child wrote (reader thread, 1- and 3-argument read), child stdin digest equals the bytes written. '
         'non-trivial = extra arguments or redirected streams. '
         'late output (job proc-late): case = one child through one of the three open overloads (round robin) with one of the 6 stream sets containing stdout and/or stderr (round robin), '
         'exit code = case number mod 256; the child sleeps a seeded 20..200 ms, then writes 1..4096 bytes (far below the pipe capacity) to each redirected output stream and exits; the '
         'parent does NOT read first but calls join(exitCode) / join() / the destructor right after open() (schedule: 2 x join(exitCode), read-then-join, destructor, join() in turn, so that '
         'every code meets join(exitCode) within 512 cases); SIGPIPE in the child is ignored (a failing write is reported with its errno) or reset to the default action (seeded); '
         'oracle: join(exitCode) returns the requested code, and the report file of the child shows that no write to stdout/stderr failed and that the child reached its exit call '
         '(the only evidence available after join()/destructor have closed the pipes); read-then-join additionally compares the bytes. The child records CLOCK_MONOTONIC at the end of '
         'its sleep; late_writes_after_join_entry counts the cases where that is later than the parent\'s entry into join()/destructor. '
         'descriptor hygiene (all proc* jobs + job proc-multi): close/pipe/pipe2/dup*/socketpair/open/select/read/write are interposed (interpose/fd_track.cpp, parent process only) and every library '
         'call runs inside a scope naming the Process object and the API entry: a library close() that gets EBADF or hits a number currently held by another Process object or by the harness itself, a '
         'select() failing with EBADF and any read/write/select on another holder\'s number are violations keyed <API entry>/<kind>[/released-earlier-in=<API entry>]; right after start/open the object must not hold both the read and the write end of one pipe (st_ino/O_ACCMODE), after ~Process no descriptor handed '
         'out for that object may be open, and at the end of every case /proc/self/fd has to list exactly the numbers it listed at the start. proc-multi: case = seeded history of 8..24 steps over 2..4 '
         'slots on one thread (open through all five overloads incl. re-use of a joined/killed object, partial write, close(any of the 7 stream masks, also on idle objects), 1- and 3-argument read with '
         'masks that contain closed / never redirected streams, read-to-end-of-file, join(exitCode) / join() / kill / destructor of a running object, harness-owned "bystander" descriptors opened and '
         'verified (same st_dev/st_ino) in between; after a close() that released a number a child is started in another slot and the first object finished next with probability 1/2, so freed numbers are '
         're-issued while the releasing object lives - counted by fd_numbers_reissued_while_releaser_alive); children read exactly the bytes written (no end-of-file dependence: later children inherit '
         'the write ends) and write <= 12000 bytes per stream, so they always terminate; reads are issued only when the model guarantees data or end-of-file; every byte read must be the next byte of that '
         'child\'s pattern for that stream (complete at end-of-file, never mixed), exit codes, stdin digests and child completion are compared as in job proc.',
    assumptions=['getopt_long conventions as implemented by the reference: options are recognised after operands too (operands are reported in order, not permuted), long names must match '
                 'exactly; words that abbreviate a long name (a GNU extension) and a short option with an optional value followed by more characters in the same word (GNU: attached value, '
                 'libnstd: next cluster member) are outside the compared space and skipped (counted as vectors_outside_conventions_skipped)',
                 '"--flag=value" for an option that takes no value is an error in getopt_long; any of (\'?\', word), (flag, ""), (flag, value) is accepted, followed by the next word',
                 'start/open(executable, argc, argv): argv[0] is passed equal to the executable (libnstd replaces it by the executable)',
                 'command-line form: words separated by single spaces, no backslash outside quoted segments, a trailing empty word ("") is not generated (libnstd drops it); inside quoted '
                 'segments a backslash that is neither last nor followed by a quote is literal (job proc-bs)',
                 'runs under ASan/UBSan only; the echo child leaves with _exit (no leak check in the child)',
                 'descriptor monitor: a descriptor created by a call that is not interposed (none in the current library) is of unknown origin and never reported; after join()/kill() of an object '
                 'that is still alive no descriptor count is demanded (an implementation may keep pipes readable), only after its destruction and at the end of the case',
                 'proc-multi: a stream the parent closed early is not compared (the tolerant child may see EPIPE or not, depending on sibling children holding inherited copies); children started '
                 'while other objects have redirected stdin inherit those write ends (no close-on-exec in libnstd), which is why end-of-file on a child\'s stdin is not part of any oracle here',
                 'late output: that the child writes only after the parent is inside join() is a matter of scheduling (sleep of 20..200 ms); a case where the child was faster still has to '
                 'pass, it only observes less; the number of cases with the intended order is measured (late_writes_after_join_entry) and has a floor. The payload always fits the pipe, '
                 'so a child whose output is never read can finish; a parent that joins a child with more unread output than the pipe holds is outside the statement'],
    technique='runtime monitoring: reference option parser over exactly-sized argv blocks under ASan; self-exec echo child with file report, reader thread, byte-exact stream comparison; libc interposition (descriptor ownership per Process object), /proc/self/fd conservation, model-based multi-object histories',
    exhaustive={Q: False, T: False},
    jobs=[
        job('args-exh', 'h_process', 'args-exh', sources=SRC, cases=-1, scale={Q: 4, T: 5}, procs=16, probes=['Process.Arguments.read']),
        job('args-rand', 'h_process', 'args-rand', sources=SRC, cases={Q: 32000, T: 500000}, procs=16),
        job('proc', 'h_process', 'proc', sources=SRC, cases={Q: 3200, T: 40000}, procs=16),
        job('proc-bs', 'h_process', 'proc-bs', sources=SRC, cases={Q: 48, T: 600}, procs=16),
        job('proc-late', 'h_process', 'proc-late', sources=SRC, cases={Q: 1280, T: 12800}, procs=16),
        job('proc-multi', 'h_process', 'proc-multi', sources=SRC, cases={Q: 640, T: 8000}, procs=16),
    ],
    floors={Q: dict(vectors=1000000, items_compared=4000000, processes=1600, argv_strings_compared=10000, env_strings_compared=20000, stream_bytes_compared=30000000, payloads_over_pipe_capacity=200,
                    late_children=1280, late_children_not_read_first=1000, late_writes_after_join_entry=800, late_stream_bytes_compared=200000,
                    multi_cases=640, multi_processes=2400, multi_ops=12000, multi_stream_bytes_compared=2000000, multi_streams_read_to_eof=500, multi_stdin_digests_compared=700,
                    multi_streams_closed_before_finish=800, multi_reads_with_earlier_closed_stream_in_mask=10, multi_bystander_descriptors_verified=700,
                    multi_cases_with_number_reissued_while_releaser_alive=400, fd_numbers_reissued_while_releaser_alive=1500, fd_library_closes_observed=14000,
                    fd_quiescent_checks=5000, fd_objects_checked_after_destruction=6000, fd_pipe_end_checks=6000,
                    **{'set:multi_op_kinds': 16, 'set:multi_finish_x_closed_earlier': 28, 'set:multi_close_masks': 7, 'set:multi_stream_sets': 8, 'set:multi_overloads': 5,
                       'set:exit_codes': 230, 'set:item_classes': 22, 'set:overloads': 5, 'set:stream_sets': 8, 'set:overload_x_env': 10,
                       'set:late_exit_codes_join_first': 256, 'set:late_finish': 4, 'set:late_stream_sets': 6, 'set:late_overloads': 3, 'set:late_child_sigpipe': 2, 'set:late_finish_x_streams': 24}),
            T: dict(vectors=25000000, items_compared=100000000, processes=16000, argv_strings_compared=100000, env_strings_compared=200000, stream_bytes_compared=300000000, payloads_over_pipe_capacity=2000,
                    late_children=12800, late_children_not_read_first=10000, late_writes_after_join_entry=8000, late_stream_bytes_compared=2000000,
                    multi_cases=8000, multi_processes=30000, multi_ops=150000, multi_stream_bytes_compared=25000000, multi_streams_read_to_eof=6000, multi_stdin_digests_compared=9000,
                    multi_streams_closed_before_finish=10000, multi_reads_with_earlier_closed_stream_in_mask=250, multi_bystander_descriptors_verified=9000,
                    multi_cases_with_number_reissued_while_releaser_alive=5000, fd_numbers_reissued_while_releaser_alive=20000, fd_library_closes_observed=150000,
                    fd_quiescent_checks=60000, fd_objects_checked_after_destruction=70000, fd_pipe_end_checks=70000,
                    **{'set:multi_op_kinds': 16, 'set:multi_finish_x_closed_earlier': 32, 'set:multi_close_masks': 7, 'set:multi_stream_sets': 8, 'set:multi_overloads': 5,
                       'set:exit_codes': 256, 'set:item_classes': 22, 'set:overloads': 5, 'set:stream_sets': 8, 'set:overload_x_env': 10,
                       'set:late_exit_codes_join_first': 256, 'set:late_exit_codes_read_first': 256, 'set:late_finish': 4, 'set:late_stream_sets': 6, 'set:late_overloads': 3,
                       'set:late_child_sigpipe': 2, 'set:late_finish_x_streams': 24})},
)
