# C20 job table (see DESIGN.md section 3, C20): child processes and Process::Arguments
from .jobs import job, Q, T

SPEC = dict(
    level='exploration',
    rule='arguments: every argument vector of <= 4 (quick) / <= 5 (thorough) words over 30 tokens (-a -b flags, -c/--gamma required value, -d/--delta optional value, long-only --omega, '
         'clusters -ab -abc -ac -cx -acx -az -zb -ad -c-, --name=value forms, unknown -z/--zeta, operands x = "" - --) plus random character-level words (incl. a byte >= 0x80); '
         'case = one 3-word prefix with all its extensions (exhaustive job) or 32 random vectors; every argv string lives in an exactly-sized heap block and the pointer array has '
         'no terminator slot; the (character, argument) sequence is compared item by item with an independent reference of the getopt_long conventions in libnstd\'s encoding '
         '(0 + word for operands in order, \'?\' + offending word or "-x" for unknown options, \':\' + option for a missing required value, "--" ends option processing). '
         'processes: case = one child started through one of the five start/open overloads (round robin) with 0..6 extra arguments (argv forms: bytes 1..255, with and without a null '
         'last element; command-line forms: words rendered with random bare/double-quoted segments and \\" inside quotes), an explicit environment of 1..5 variables or the inherited '
         'one, every subset of {stdout, stderr, stdin} (round robin), payload sizes 0, 1, 4095, 4096, 65535, 65536, 65537, 300000 per stream, exit code 0..255; the child is this '
         'harness binary (--child-echo) and reports argc/argv/environ and a digest of its stdin to a file; oracle: echoed argv and sorted environment equal the given ones, join() code '
         'equals the requested one, bytes read until read() returns 0 equal the bytes the child wrote (reader thread, 1- and 3-argument read), child stdin digest equals the bytes written. '
         'non-trivial = extra arguments or redirected streams.',
    assumptions=['getopt_long conventions as implemented by the reference: options are recognised after operands too (operands are reported in order, not permuted), long names must match '
                 'exactly; words that abbreviate a long name (a GNU extension) and a short option with an optional value followed by more characters in the same word (GNU: attached value, '
                 'libnstd: next cluster member) are outside the compared space and skipped (counted as vectors_outside_conventions_skipped)',
                 '"--flag=value" for an option that takes no value is an error in getopt_long; any of (\'?\', word), (flag, ""), (flag, value) is accepted, followed by the next word',
                 'start/open(executable, argc, argv): argv[0] is passed equal to the executable (libnstd replaces it by the executable)',
                 'command-line form: words separated by single spaces, no backslash outside quoted segments, a trailing empty word ("") is not generated (libnstd drops it); inside quoted '
                 'segments a backslash that is neither last nor followed by a quote is literal (job proc-bs)',
                 'runs under ASan/UBSan only; the echo child leaves with _exit (no leak check in the child)'],
    technique='runtime monitoring: reference option parser over exactly-sized argv blocks under ASan; self-exec echo child with file report, reader thread, byte-exact stream comparison',
    exhaustive={Q: False, T: False},
    jobs=[
        job('args-exh', 'h_process', 'args-exh', cases=-1, scale={Q: 4, T: 5}, procs=16, probes=['Process.Arguments.read']),
        job('args-rand', 'h_process', 'args-rand', cases={Q: 32000, T: 500000}, procs=16),
        job('proc', 'h_process', 'proc', cases={Q: 3200, T: 40000}, procs=16),
        job('proc-bs', 'h_process', 'proc-bs', cases={Q: 48, T: 600}, procs=16),
    ],
    floors={Q: dict(vectors=1000000, items_compared=4000000, processes=1600, argv_strings_compared=10000, env_strings_compared=20000, stream_bytes_compared=30000000, payloads_over_pipe_capacity=200,
                    **{'set:exit_codes': 230, 'set:item_classes': 22, 'set:overloads': 5, 'set:stream_sets': 8, 'set:overload_x_env': 10}),
            T: dict(vectors=25000000, items_compared=100000000, processes=16000, argv_strings_compared=100000, env_strings_compared=200000, stream_bytes_compared=300000000, payloads_over_pipe_capacity=2000,
                    **{'set:exit_codes': 256, 'set:item_classes': 22, 'set:overloads': 5, 'set:stream_sets': 8, 'set:overload_x_env': 10})},
)
