# C20 job table (see DESIGN.md section 3, C20): child processes and Process::Arguments
from .jobs import job, Q, T

SPEC = dict(
    level='exploration',
    rule='arguments: every argument vector of <= 4 (quick) / <= 5 (thorough) words over 30 tokens (-a -b flags, -c/--gamma required value, -d/--delta optional value, long-only --omega, '
         'clusters -ab -abc -ac -cx -acx -az -zb -ad -c-, --name=value forms, unknown -z/--zeta, operands x = "" - --) plus random character-level words (incl. a byte >= 0x80); '
         'case = one 3-word prefix with all its extensions (exhaustive job) or 32 random vectors; every argv string lives in an exactly-sized heap block and the pointer array has '
         'no terminator slot; the (character, argument) sequence is compared item by item with an independent reference of the getopt_long conventions in libnstd\'s encoding '
         '(0 + word for operands in order, \'?\' + offending word or "-x" for unknown options, \':\' + option for a missing required value, "--" ends option processing). '
         'processes: case = one child started through one of the five start/open overloads (round robin) with 0..6 extra arguments (argv forms: bytes 1..255, with and without a null '
         'last element; command-line forms: words rendered with random bare/double-quoted segments and \\" inside quotes), an explicit environment of 1..5 variables or the inherited '
         'one, every subset of {stdout, stderr, stdin} (round robin), payload sizes 0, 1, 4095, 4096, 65535, 65536, 65537, 300000 per stream, exit code 0..255; the child is this '
         'harness binary (--child-echo) and reports argc/argv/environ and a digest of its stdin to a file; oracle: echoed argv and sorted environment equal the given ones, join() code '
         'equals the requested one, bytes read until read() returns 0 equal the bytes the child wrote (reader thread, 1- and 3-argument read), child stdin digest equals the bytes written. '
         'non-trivial = extra arguments or redirected streams. '
         'late output (job proc-late): case = one child through one of the three open overloads (round robin) with one of the 6 stream sets containing stdout and/or stderr (round robin), '
         'exit code = case number mod 256; the child sleeps a seeded 20..200 ms, then writes 1..4096 bytes (far below the pipe capacity) to each redirected output stream and exits; the '
         'parent does NOT read first but calls join(exitCode) / join() / the destructor right after open() (schedule: 2 x join(exitCode), read-then-join, destructor, join() in turn, so that '
         'every code meets join(exitCode) within 512 cases); SIGPIPE in the child is ignored (a failing write is reported with its errno) or reset to the default action (seeded); '
         'oracle: join(exitCode) returns the requested code, and the report file of the child shows that no write to stdout/stderr failed and that the child reached its exit call '
         '(the only evidence available after join()/destructor have closed the pipes); read-then-join additionally compares the bytes. The child records CLOCK_MONOTONIC at the end of '
         'its sleep; late_writes_after_join_entry counts the cases where that is later than the parent\'s entry into join()/destructor.',
    assumptions=['getopt_long conventions as implemented by the reference: options are recognised after operands too (operands are reported in order, not permuted), long names must match '
                 'exactly; words that abbreviate a long name (a GNU extension) and a short option with an optional value followed by more characters in the same word (GNU: attached value, '
                 'libnstd: next cluster member) are outside the compared space and skipped (counted as vectors_outside_conventions_skipped)',
                 '"--flag=value" for an option that takes no value is an error in getopt_long; any of (\'?\', word), (flag, ""), (flag, value) is accepted, followed by the next word',
                 'start/open(executable, argc, argv): argv[0] is passed equal to the executable (libnstd replaces it by the executable)',
                 'command-line form: words separated by single spaces, no backslash outside quoted segments, a trailing empty word ("") is not generated (libnstd drops it); inside quoted '
                 'segments a backslash that is neither last nor followed by a quote is literal (job proc-bs)',
                 'runs under ASan/UBSan only; the echo child leaves with _exit (no leak check in the child)',
                 'late output: that the child writes only after the parent is inside join() is a matter of scheduling (sleep of 20..200 ms); a case where the child was faster still has to '
                 'pass, it only observes less; the number of cases with the intended order is measured (late_writes_after_join_entry) and has a floor. The payload always fits the pipe, '
                 'so a child whose output is never read can finish; a parent that joins a child with more unread output than the pipe holds is outside the statement'],
    technique='runtime monitoring: reference option parser over exactly-sized argv blocks under ASan; self-exec echo child with file report, reader thread, byte-exact stream comparison',
    exhaustive={Q: False, T: False},
    jobs=[
        job('args-exh', 'h_process', 'args-exh', cases=-1, scale={Q: 4, T: 5}, procs=16, probes=['Process.Arguments.read']),
        job('args-rand', 'h_process', 'args-rand', cases={Q: 32000, T: 500000}, procs=16),
        job('proc', 'h_process', 'proc', cases={Q: 3200, T: 40000}, procs=16),
        job('proc-bs', 'h_process', 'proc-bs', cases={Q: 48, T: 600}, procs=16),
        job('proc-late', 'h_process', 'proc-late', cases={Q: 1280, T: 12800}, procs=16),
    ],
    floors={Q: dict(vectors=1000000, items_compared=4000000, processes=1600, argv_strings_compared=10000, env_strings_compared=20000, stream_bytes_compared=30000000, payloads_over_pipe_capacity=200,
                    late_children=1280, late_children_not_read_first=1000, late_writes_after_join_entry=800, late_stream_bytes_compared=200000,
                    **{'set:exit_codes': 230, 'set:item_classes': 22, 'set:overloads': 5, 'set:stream_sets': 8, 'set:overload_x_env': 10,
                       'set:late_exit_codes_join_first': 256, 'set:late_finish': 4, 'set:late_stream_sets': 6, 'set:late_overloads': 3, 'set:late_child_sigpipe': 2, 'set:late_finish_x_streams': 24}),
            T: dict(vectors=25000000, items_compared=100000000, processes=16000, argv_strings_compared=100000, env_strings_compared=200000, stream_bytes_compared=300000000, payloads_over_pipe_capacity=2000,
                    late_children=12800, late_children_not_read_first=10000, late_writes_after_join_entry=8000, late_stream_bytes_compared=2000000,
                    **{'set:exit_codes': 256, 'set:item_classes': 22, 'set:overloads': 5, 'set:stream_sets': 8, 'set:overload_x_env': 10,
                       'set:late_exit_codes_join_first': 256, 'set:late_exit_codes_read_first': 256, 'set:late_finish': 4, 'set:late_stream_sets': 6, 'set:late_overloads': 3,
                       'set:late_child_sigpipe': 2, 'set:late_finish_x_streams': 24})},
)
