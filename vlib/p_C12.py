# C12 job table (see DESIGN.md section 3 / C12)
from .jobs import job, Q, T

SPEC = dict(
    level='exploration',
    rule='(programs) case = one random program over 1..3 heap-allocated emitters x 2 signals (0 and 1 argument) x 1..4 heap-allocated listeners x 2 slots per signal: '
         '6..80 top-level actions (connect / disconnect / emit / destroy listener / destroy emitter / recreate, and actions focused on one connection: '
         'self-disconnect, disconnect-connect-... sequences, destroy own listener, destroy the emitting emitter, recursive emission, duplicate connect); every slot '
         'invocation draws nested actions from the same seeded stream (emission depth <= 4), swarm-weighted per case. distinct = hash of the executed action tree; '
         'non-trivial = at least 2 slot invocations and at least 1 action executed inside a slot. Compared: every slot entry against the next invocation predicted by '
         'a lockstep model of connection records (exact listener, slot, argument, order), the end of every emission against "nothing left to invoke", and after every '
         'top-level action (no emission in progress) a walk of Emitter::signalData / Listener::slotData against the live connections of the model. '
         '(exhaustive-q/-t) case = one of ALL 2*8^M*10^N programs (quick M=2,N=3; thorough M=3,N=4) over E0, L0, L1, one signal, one slot each: prefix (connect L0, [L0 again,] L1), emit, '
         'M top-level actions from {emit, connect/disconnect/delete L0|L1, delete E0}, emit, emit, where the slot invocations consume in execution order a stream of N nested actions from '
         '{stop, recursive emit, connect/disconnect self|other, delete self|other, delete emitter, recreate}; same oracles.',
    assumptions=['ASan/UBSan; library ASSERTs enabled (-DDEBUG)',
                 'connections are modelled as the code keeps them: connect() always appends a new record (duplicates are separate connections, each invoked); '
                 'disconnect() removes the oldest live record of that (listener, slot); a record connected during an emission of its signal is not invoked by any '
                 'emission of that signal that is nested in it, even if an older duplicate was disconnected meanwhile',
                 'disconnect() of a pair that is not connected is a no-op',
                 'listener-side bookkeeping is compared as a multiset per emitter (its order is not observable through the API); an empty slotData entry for a destroyed emitter describes no connection',
                 'the emitter class of the harness is not polymorphic: Emitter::emit calls slots through a pointer cast to the emitter class (type erasure), which -fsanitize=vptr would flag for any polymorphic emitter'],
    technique='lockstep reference model of connection records + invocation log + access-override structure walk at quiescent points, under ASan/UBSan',
    exhaustive={Q: False, T: False},   # the exhaustive-* jobs enumerate their small-scope program space completely; the check as a whole is exploration
    jobs=[
        job('exhaustive-q', 'h_callback', 'exh23', cases={Q: -1, T: 0}, procs=16),     # 2 * 8^2 * 10^3 = 128,000 programs
        job('exhaustive-t', 'h_callback', 'exh34', cases={Q: 0, T: -1}, procs=16),     # 2 * 8^3 * 10^4 = 10,240,000 programs
        job('programs', 'h_callback', 'programs', cases={Q: 400000, T: 6400000}, procs=16,
            probes=['Callback.disconnect/signal-emitting/bookkeeping/emitter-side-stale-record',
                    'Listener.destroy/connected-signal-emitting/bookkeeping/emitter-side-stale-record']),
    ],
    floors={Q: dict(slot_invocations=2000000, invocations_matched=2000000, nested_actions=1500000, quiescent_walks=5000000, records_compared_by_walks=20000000,
                    exhaustive_programs=128000, op_emit_recursive_same_signal=200000, op_destroy_emitter_while_emitting=100000, op_destroy_emitter_with_nested_emissions=20000,
                    op_destroy_listener_with_pending_slots=60000, op_disconnect_behind_dead_record_of_same_slot=100000, op_destroy_listener_behind_other_record_of_same_slot=60000,
                    dcd_sequences_signal_emitting=50000, pending_slot_dropped_before_its_turn=150000, passed_over_connected_during_emission=400000, max_emission_depth=4,
                    **{'set:action_at_depth': 80}),
            T: dict(slot_invocations=45000000, invocations_matched=45000000, nested_actions=40000000, quiescent_walks=120000000, records_compared_by_walks=450000000,
                    exhaustive_programs=10240000, op_emit_recursive_same_signal=5000000, op_destroy_emitter_while_emitting=3000000, op_destroy_emitter_with_nested_emissions=500000,
                    op_destroy_listener_with_pending_slots=2500000, op_disconnect_behind_dead_record_of_same_slot=1800000, op_destroy_listener_behind_other_record_of_same_slot=1800000,
                    dcd_sequences_signal_emitting=800000, pending_slot_dropped_before_its_turn=5000000, passed_over_connected_during_emission=9000000, max_emission_depth=4,
                    **{'set:action_at_depth': 90})},
)
