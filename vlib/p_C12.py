# C12 job table (see DESIGN.md section 3 / C12)
from .jobs import job, Q, T

# per-arity floors: Callback.hpp has nine separate emit() bodies and nine connect()/disconnect() templates (0..8 arguments); every one of them must have been
# driven through the states the property is about (counters <event>_arity_<k> are flushed by h_callback.cpp:flushArityStats)
def _arity_floors(emit, connect, disconnect, invoked, conn_emitting, disc_emitting, passed_over, dropped, ended, recursive):
    d = {}
    for k in range(9):
        d['emit_arity_%d' % k] = emit
        d['connect_arity_%d' % k] = connect
        d['disconnect_arity_%d' % k] = disconnect
        d['invoked_arity_%d' % k] = invoked
        d['connect_signal_emitting_arity_%d' % k] = conn_emitting
        d['disconnect_signal_emitting_arity_%d' % k] = disc_emitting
        d['passed_over_connected_during_emission_arity_%d' % k] = passed_over
        d['pending_slot_dropped_before_its_turn_arity_%d' % k] = dropped
        d['emission_ended_by_emitter_destruction_arity_%d' % k] = ended
        d['emit_recursive_arity_%d' % k] = recursive
        if k:
            d['arguments_compared_arity_%d' % k] = invoked * k
    d['set:emit_arities'] = 9
    d['set:connect_arities'] = 9
    d['set:disconnect_arities'] = 9
    d['set:arity_event'] = 98      # 9 arities x 11 event kinds, minus arguments_compared for arity 0
    d['set:signal_event'] = 72     # 18 signal members (sigK and its same-signature twin sigKb, K = 0..8) x {emit, connect, disconnect, invoked}
    return d

# twin signals: the SAME listener slot connected to two different signals of ONE emitter (the listener keeps one (signal, slot) list per emitter for all of
# that emitter's signals) and to same-arity signals of different emitters; m = multiplier on the quick floors
def _twin_floors(m):
    return dict(same_slot_on_two_signals_of_one_emitter=150000 * m, same_slot_on_two_signals_of_one_emitter_signal_emitting=40000 * m,
                same_slot_on_signals_of_two_emitters=100000 * m, invoked_slot_also_on_other_signal_of_emitter=150000 * m,
                disconnect_slot_also_on_other_signal_of_emitter=60000 * m, disconnect_later_connected_of_two_signals_of_one_emitter=30000 * m,
                disconnect_slot_also_on_other_signal_of_emitter_signal_emitting=25000 * m,
                destroy_listener_same_slot_on_two_signals_of_one_emitter=25000 * m, destroy_emitter_same_slot_on_two_signals_of_one_emitter=20000 * m,
                listener_walks_of_slot_on_two_signals_of_one_emitter=500000 * m, scripted_twin_signal_scenarios=27)

# class shapes (h_callback.cpp "class shapes"): the same events must have been observed on every receiver-class shape (where the slot's declaring class sits in
# the receiver class: own / primary base / secondary base at a non-zero offset / secondary base with the virtual slots overridden / slots of a class whose
# Listener base sits behind a secondary base) and on both emitter-class shapes; m = multiplier on the quick floors
def _shape_floors(m):
    d = {}
    for sh in ('primary_base', 'secondary_base', 'secondary_base_overridden', 'own_behind_secondary_base'):
        for ev, n in (('create', 110000), ('connect', 350000), ('connect_signal_emitting', 55000), ('disconnect_live', 150000), ('disconnect_live_signal_emitting', 50000),
                      ('reconnect_after_disconnect', 75000), ('invoked', 330000), ('invoked_virtual_slot', 110000), ('emission_completed_without_disconnected_slot', 130000),
                      ('destroy_connected', 48000), ('destroy_in_own_slot', 19000), ('emitter_side_records_matched_by_walks', 2300000)):
            d['listener_shape_%s_%s' % (sh, ev)] = n * m
        if sh != 'own_behind_secondary_base':
            d['listener_shape_%s_disconnect_live_via_other_pointer_type' % sh] = 43000 * m
    d['listener_shape_secondary_base_overridden_invoked_body_of_derived_class'] = 110000 * m
    d['listener_shape_own_behind_secondary_base_invoked_body_of_derived_class'] = 330000 * m
    for ev, n in (('create', 240000), ('connect', 880000), ('disconnect_live', 380000), ('emit', 980000), ('emit_recursive', 85000), ('invoked', 840000),
                  ('destroy_connected', 95000), ('destroy_while_emitting', 37000)):
        d['emitter_shape_secondary_base_%s' % ev] = n * m
    d['connect_through_base_class_pointer'] = 330000 * m
    d['disconnect_live_through_other_pointer_type_than_connect'] = 200000 * m
    d['scripted_class_shape_scenarios'] = 180      # 9 arities x 5 receiver shapes x 2 emitter shapes x 2 pointer-type variants (one shard's worth)
    d['set:listener_shape_event'] = 65             # 5 shapes x 13 events, plus body-of-derived-class on the two shapes that have one, plus other-pointer-type on the three that can
    d['set:emitter_shape_event'] = 16
    d['set:shape_pair_invoked'] = 10
    return d

SPEC = dict(
    level='exploration',
    rule='(programs) case = one random program over 1..3 heap-allocated emitters x 1..3 signals x 1..4 heap-allocated listeners x 2 slots per signal (the emitter class has two signal members '
         'per arity 0..8 - sigK and its same-signature twin sigKb, 18 signal keys - the listener class two slots - one virtual - per arity; every emitter object, also a recreated one, draws from '
         'the seeded stream which signals stand behind its signal indexes: a fresh arity (from all nine or from a per-case palette of 2..3 arities) or the twin of an earlier index, so all nine '
         'emit()/connect()/disconnect() overloads run under the same model AND the same listener slot gets connected to two different signals of one emitter and to same-arity signals of '
         'different emitters; an emission passes distinguishable values of mixed types - Elem, long, int, Elem, u64, double, const Elem&, const long* - '
         'and every slot compares every argument): '
         '6..80 top-level actions (connect / disconnect / emit / destroy listener / destroy emitter / recreate, and actions focused on one connection: '
         'self-disconnect, disconnect-connect-... sequences, destroy own listener, destroy the emitting emitter, recursive emission, duplicate connect); every slot '
         'invocation draws nested actions from the same seeded stream (emission depth <= 4), swarm-weighted per case. distinct = hash of the executed action tree; '
         'non-trivial = at least 2 slot invocations and at least 1 action executed inside a slot. Compared: every slot entry against the next invocation predicted by '
         'a lockstep model of connection records (exact listener, slot, argument, order), the end of every emission against "nothing left to invoke"; before the remaining objects of a case are '
         'destroyed (in random order) every signal that ever had a connection is emitted once more at top level without nested actions (final sweep: a record kept, lost or reordered against the '
         'model is a wrong / missing / misordered invocation there at the latest). Normal build flavour: after every top-level action (no emission in progress) a container-agnostic walk of '
         'Emitter::signalData (per signal, the records not marked disconnected as a sequence) / Listener::slotData (per emitter AND signal AND slot, as counts) against the live connections of the '
         'model. Fallback flavour (-DVERIF_NO_PRIVATE, used automatically when the harness no longer compiles against the private members): no walk; the bookkeeping clause is then checked only '
         'indirectly through later emissions, the final sweep, the destructions and ASan (observed set bookkeeping_clause, counter quiescent_points_bookkeeping_checked_only_indirectly). Scripted scenarios (three historic ones and three twin-signal ones: slot connected to sigK then sigKb of one emitter, the later connection disconnected at top level / '
         'from its own slot, then listener or emitter destroyed) run for every arity in every shard. '
         'Class shapes (added for the receiver/emitter-type dimension of the connect()/disconnect() templates): in 7 of 8 random programs every listener object (also a recreated one) draws one of '
         'five receiver-class shapes - slot declared in the receiver class itself (the shape of all exhaustive programs), inherited from the primary base (offset 0), from a secondary base at a '
         'NON-ZERO offset (struct W : Model, Li), the same with every virtual slot overridden in W (the slot pointer must reach the overrider with this = the W object), and slots declared by a '
         'class whose Listener base sits behind a secondary base - and every emitter object one of two emitter-class shapes (signal declared in the emitter class / in a secondary base at a '
         'non-zero offset); in 3 of 4 programs 1 call in 4 names a derived object through a pointer to its base class Li / Em instead (connect through W*, disconnect through Y* and vice versa). '
         'The same model, oracles and walks run over all shapes; every slot body also reports the this it ran with and which class body ran (keys '
         'Emitter.emit/receiver-shape=<s>/slot-invoked-with-misadjusted-this, .../wrong-function-body); verdict keys carry /receiver-shape=<s> and /emitter-shape=<s> when the objects concerned '
         'are not of the plain shape. A scripted scenario (connect a, b, other; emit; disconnect a; emit; reconnect; emit; self-disconnect of both from the slot; emit; reconnect; destroy listener or emitter; emit) '
         'runs for every (arity, receiver shape, emitter shape, pointer-type variant) in every shard. '
         '(exhaustive-q/-t) case = one of ALL 2*8^M*10^N programs (quick M=2,N=3; thorough M=3,N=4) over E0, L0, L1, one signal (0 arguments), one slot each; '
         '(exhaustive-arities-q/-t) the same program space (quick M=2,N=3; thorough M=3,N=3) enumerated completely for EACH of the nine signal arities 0..8: prefix (connect L0, [L0 again,] L1), emit, '
         'M top-level actions from {emit, connect/disconnect/delete L0|L1, delete E0}, emit, emit, where the slot invocations consume in execution order a stream of N nested actions from '
         '{stop, recursive emit, connect/disconnect self|other, delete self|other, delete emitter, recreate}; same oracles.',
    assumptions=['ASan/UBSan; library ASSERTs enabled (-DDEBUG)',
                 'connections are modelled as the code keeps them: connect() always appends a new record (duplicates are separate connections, each invoked); '
                 'disconnect() removes the oldest live record of that (listener, slot); a record connected during an emission of its signal is not invoked by any '
                 'emission of that signal that is nested in it, even if an older duplicate was disconnected meanwhile',
                 'disconnect() of a pair that is not connected is a no-op',
                 'listener-side bookkeeping is compared as a multiset of (signal, slot) pairs per emitter (its order is not observable through the API); an empty slotData entry for a destroyed emitter describes no connection',
                 'emitter-side bookkeeping: the records not marked disconnected must be exactly the live connections in connection order; records marked disconnected (tombstones awaiting the deferred '
                 'clean-up) describe no connection wherever they are met, a dirty flag still set at a quiescent point and a record still "connecting" while that flag is set are pending clean-up (counted, '
                 'no verdict): the moment of the deferred clean-up and the container types are not observable. Kept as design invariants: no activation registered outside emissions, list size = linked items, '
                 'no "connecting" record with a clear dirty flag outside emissions',
                 'class shapes: a connection made through a pointer to the complete receiver object can be disconnected through a pointer to the base class that declares the slot and vice versa '
                 '(same object, same member function = same connection; the code reduces both to the declaring-class subobject); the structure walk accepts an emitter-side record in either '
                 'representation (declaring-class subobject + slot as its member, or receiver object + slot converted to a member of the receiver class) as long as object and slot key agree; '
                 'virtual inheritance of the slot-declaring class is not exercised',
                 'in the fallback flavour (no private access) only the floors on ops and cases apply; all model / ASan oracles are the same and the same programs run (same seeds, same fingerprints)',
                 'the emitter class of the harness is not polymorphic: Emitter::emit calls slots through a pointer cast to the emitter class (type erasure), which -fsanitize=vptr would flag for any polymorphic emitter'],
    technique='lockstep reference model of connection records + invocation log + final sweep emission + access-override structure walk at quiescent points (normal flavour), under ASan/UBSan',
    exhaustive={Q: False, T: False},   # the exhaustive-* jobs enumerate their small-scope program space completely; the check as a whole is exploration
    jobs=[
        job('exhaustive-q', 'h_callback', 'exh23', cases={Q: -1, T: 0}, procs=16),     # 2 * 8^2 * 10^3 = 128,000 programs
        job('exhaustive-t', 'h_callback', 'exh34', cases={Q: 0, T: -1}, procs=16),     # 2 * 8^3 * 10^4 = 10,240,000 programs
        job('exhaustive-arities-q', 'h_callback', 'exh23x', cases={Q: -1, T: 0}, procs=16),   # 9 arities * 2 * 8^2 * 10^3 = 1,152,000 programs
        job('exhaustive-arities-t', 'h_callback', 'exh33x', cases={Q: 0, T: -1}, procs=16),   # 9 arities * 2 * 8^3 * 10^3 = 9,216,000 programs
        job('programs', 'h_callback', 'programs', cases={Q: 400000, T: 6400000}, procs=16,
            probes=['Callback.disconnect/signal-emitting/bookkeeping/emitter-side-stale-record',
                    'Listener.destroy/connected-signal-emitting/bookkeeping/emitter-side-stale-record']),
    ],
    floors={Q: dict(ops=20000000, cases=1600000, final_sweep_emissions=1000000, quiescent_points=5000000, slot_invocations=2000000, invocations_matched=2000000, nested_actions=1500000, quiescent_walks=5000000, records_compared_by_walks=20000000,
                    exhaustive_programs=1280000, exhaustive_programs_all_arities=1152000, op_emit_recursive_same_signal=200000, op_destroy_emitter_while_emitting=100000, op_destroy_emitter_with_nested_emissions=20000,
                    op_destroy_listener_with_pending_slots=60000, op_disconnect_behind_dead_record_of_same_slot=100000, op_destroy_listener_behind_other_record_of_same_slot=60000,
                    dcd_sequences_signal_emitting=50000, pending_slot_dropped_before_its_turn=150000, passed_over_connected_during_emission=400000, max_emission_depth=4,
                    **{'set:action_at_depth': 80}, **_twin_floors(1), **_shape_floors(1),
                    **_arity_floors(emit=350000, connect=400000, disconnect=170000, invoked=450000, conn_emitting=70000, disc_emitting=65000, passed_over=70000, dropped=45000, ended=30000, recursive=40000)),
            T: dict(ops=350000000, cases=25000000, final_sweep_emissions=12000000, quiescent_points=120000000, slot_invocations=45000000, invocations_matched=45000000, nested_actions=40000000, quiescent_walks=120000000, records_compared_by_walks=450000000,
                    exhaustive_programs=19456000, exhaustive_programs_all_arities=9216000, op_emit_recursive_same_signal=5000000, op_destroy_emitter_while_emitting=3000000, op_destroy_emitter_with_nested_emissions=500000,
                    op_destroy_listener_with_pending_slots=2500000, op_disconnect_behind_dead_record_of_same_slot=1800000, op_destroy_listener_behind_other_record_of_same_slot=1800000,
                    dcd_sequences_signal_emitting=800000, pending_slot_dropped_before_its_turn=5000000, passed_over_connected_during_emission=9000000, max_emission_depth=4,
                    **{'set:action_at_depth': 90}, **_twin_floors(14), **_shape_floors(14),
                    **_arity_floors(emit=2800000, connect=3200000, disconnect=1300000, invoked=3600000, conn_emitting=560000, disc_emitting=520000, passed_over=560000, dropped=360000, ended=240000, recursive=320000))},
)
