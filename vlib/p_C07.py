# C07 job table (see DESIGN.md section 3): Variant value semantics
from .jobs import job, Q, T

PROBES = ['Variant.operator==', 'Variant.operator=(Variant)', 'Variant.operator=(list)']   # first key component of the findings whose --probe lives in h_variant (matched by key prefix there)

SPEC = dict(
    level='exploration',
    rule='(job copies-across-threads-asan: the C09 shared-payload workload - copies of string/list/array/map Variants owned by 2-8 different threads, each checking its own content model while the others take copies, modify through the mutable accessors and reassign - decides independence of copies when the other copy is used by another thread.) '
         'case = one swarm-weighted history of 20..120 operations over 4..6 Variant variables: assignment/construction from every alternative (null, bool, double, int, uint, int64, uint64, '
         'String, List, Array, HashMap, nested up to 3 levels), copy-construct, operator=(Variant) incl. self, swap, clear, mutable toString/toList/toArray/toMap followed by a mutation of the '
         'returned container (append/prepend/insert/remove/overwrite/clear/resize, or descent into an element and the same again, up to 3 levels), assignment from an element of another or of the '
         'same variable, assignment from the const container view of another variable, typed self-assignment (v = v.toX() through the mutable and v = ((const Variant&)v).toX() through the const accessor, '
         'X = String/List/Array/HashMap, own type or another type, on a variable or on a nested element reached through the mutable accessors, sole owner and shared: the model stays as it is '
         'when X is the held type). distinct = hash of the (operation kind, receiver type) sequence; non-trivial = made >=1 lazy copy of a heap '
         'payload and >=1 mutable access to a shared payload (copy-on-write clone). After every operation, for every variable and every nested element: getType, isNull, own value, every to* '
         'coercion against an independently written coercion table, const container accessors; x == copy, copy == x, != for every intact copy; ==/!= of all ordered pairs against the table.',
    assumptions=['floating values are finite (never NaN); a (value, target) coercion whose result the language leaves undefined (truncated double outside the target range; decimal string outside a '
                 'signed target range, where atoi/atoll are undefined) is neither executed nor compared, including equality comparisons that would perform it',
                 'strtod/snprintf("%f") of libc are trusted for string<->double text; integer parsing follows strtol/strtoul base 10 re-implemented in the harness',
                 'where the statement is silent the header is followed: equality dispatches on the left operand\'s type, a mutable accessor of a different type replaces the value by an empty '
                 'container (or by the decimal text for toString), bool==number compares after coercing the right operand',
                 'the reference returned by a mutable accessor is used immediately and not kept across a later copy of that Variant (v.toList().append(v) with a shared-to-be payload is not generated)',
                 'typed assignment of a container that lives inside an element of the receiver (v = ((const Variant&)v).toList().front().toList()) is not generated: List/Array/HashMap::operator= '
                 'with an argument inside one of its own elements is a container aliasing question (C04); the Variant overload operator=(const Variant&) with such an argument is generated',
                 'strings contain no NUL bytes and no "nan"/"inf" texts',
                 'fallback build (-DVERIF_NO_PRIVATE): the state class inline/unique/shared (context keys, clone counters, non-trivial rule) comes from the harness\'s own record of payload '
                 'identities in the model instead of the private reference count; all value, coercion and equality oracles are unchanged'],
    technique='tagged-tree value model in plain C structs, ASan/UBSan/LSan',
    exhaustive={Q: False, T: False},
    jobs=[job('hist', 'h_variant', 'hist', cases={Q: 40000, T: 400000}, procs=16, probes=PROBES),
          # independence of copies owned by different threads (string/list/array/map payloads, mutable accessors and reassignment racing with another
          # owner's copies): the C09 shared-payload harness, ASan build (content models per thread + use-after-free)
          job('copies-across-threads-asan', 'h_refcount', 'conc', variant='asan', sources=['harness/h_refcount.cpp'], cases={Q: 1920, T: 16000}, procs=16, timeout={Q: 900, T: 3000}, deadlock=True)],
    floors={Q: dict(ops=1000000, coercions_compared=80000000, equalities_compared=20000000, copy_equalities_checked=400000, cow_clones_of_shared_payload=40000, nested_cow_clones=6000,
                    op_assign_own_element=8000, op_assign_own_value=100000, op_assign_own_value_nested=15000, own_value_inplace_string=20000, own_value_inplace_list=10000, own_value_inplace_array=10000,
                    own_value_inplace_map=10000, **{'set:mutable_access_cells': 120, 'set:op_type_cells': 300, 'set:own_value_cells': 200}),
            T: dict(ops=20000000, coercions_compared=1600000000, equalities_compared=400000000, copy_equalities_checked=8000000, cow_clones_of_shared_payload=800000, nested_cow_clones=120000,
                    op_assign_own_element=160000, op_assign_own_value=1000000, op_assign_own_value_nested=150000, own_value_inplace_string=200000, own_value_inplace_list=100000, own_value_inplace_array=100000,
                    own_value_inplace_map=100000, **{'set:mutable_access_cells': 120, 'set:op_type_cells': 300, 'set:own_value_cells': 200})},
)
