# sha_ref.py - offline checker for C17: recomputes every recorded digest / MAC with hashlib / hmac (stdlib) and compares.
# Record lines written by harness/h_sha.cpp:
#   H <msg hex> <digest hex>        P <s> <len> <digest hex>        M <key hex> <msg hex> <mac hex>        N <ks> <klen> <ms> <mlen> <mac hex>        V <name> <hex>
#   Q <case> <how> <s> <len> <digest hex>      K <case> <s> <klen> <len> <mac hex>      huge messages (>= 2^29 bytes): one 2^20-byte splitmix64 block repeated
#   A <class> <key hex> <msg hex> <mac hex>    G <class> <msg hex> <digest hex>     results of calls whose result buffer overlapped an input buffer (inputs as before the call)
import hashlib, hmac, os, struct
from concurrent.futures import ThreadPoolExecutor
from . import core
from .core import HarnessFailure

# published values (FIPS 180-4 examples / NIST CAVP, RFC 4231); they anchor the reference itself and the harness's V records
VECTORS = {
    'nist-empty': ('sha', b'', 'e3b0c44298fc1c149afbf4c8996fb92427ae41e4649b934ca495991b7852b855'),
    'nist-abc': ('sha', b'abc', 'ba7816bf8f01cfea414140de5dae2223b00361a396177a9cb410ff61f20015ad'),
    'nist-448bits': ('sha', b'abcdbcdecdefdefgefghfghighijhijkijkljklmklmnlmnomnopnopq', '248d6a61d20638b8e5c026930c3e6039a33ce45964ff2167f6ecedd419db06c1'),
    'nist-896bits': ('sha', b'abcdefghbcdefghicdefghijdefghijkefghijklfghijklmghijklmnhijklmnoijklmnopjklmnopqklmnopqrlmnopqrsmnopqrstnopqrstu',
                     'cf5b16a778af8380036ce59e7b0492370b249b11e8f07a51afac45037afee9d1'),
    'nist-million-a': ('sha', b'a' * 1000000, 'cdc76e5c9914fb9281a1c7e284d73e67f1809a48a497200e046d39ccc7112cd0'),
    'rfc4231-1': ('hmac', (b'\x0b' * 20, b'Hi There'), 'b0344c61d8db38535ca8afceaf0bf12b881dc200c9833da726e9376c2e32cff7'),
    'rfc4231-2': ('hmac', (b'Jefe', b'what do ya want for nothing?'), '5bdcc146bf60754e6a042426089575c75a003f089d2739839dec58b964ec3843'),
    'rfc4231-3': ('hmac', (b'\xaa' * 20, b'\xdd' * 50), '773ea91e36800e46854db8ebd09181a72959098b3ef8c122d9635514ced565fe'),
    'rfc4231-4': ('hmac', (bytes(range(1, 26)), b'\xcd' * 50), '82558a389a443c0ea4cc819899f2083a85f0faa3e578f8077a2e3ff46729665b'),
    'rfc4231-5-untruncated': ('hmac', (b'\x0c' * 20, b'Test With Truncation'), 'a3b6167473100ee06e0c796c2955552b'),   # RFC gives the first 128 bits only
    'rfc4231-6': ('hmac', (b'\xaa' * 131, b'Test Using Larger Than Block-Size Key - Hash Key First'), '60e431591ee0b67f0d8a26aacbf5b77f8e0bc6213728c5140546040f0ee37f54'),
    'rfc4231-7': ('hmac', (b'\xaa' * 131, b'This is a test using a larger than block-size key and a larger than block-size data. The key needs to be hashed before being used by the HMAC algorithm.'),
                  '9b09ffa71b942fcb27635fbcd5b0e944bfdc63644f0713938a7f51535c3a35e2'),
}


def ref_value(kind, arg):
    if kind == 'sha':
        return hashlib.sha256(arg).hexdigest()
    return hmac.new(arg[0], arg[1], hashlib.sha256).hexdigest()


def self_check():
    """the reference implementation must reproduce the published vectors, else the checker itself is unusable"""
    for name, (kind, arg, want) in VECTORS.items():
        got = ref_value(kind, arg)
        if not got.startswith(want):
            raise HarnessFailure('sha_ref: hashlib/hmac does not reproduce published vector %s' % name)


_blocks = {}


def pattern_bytes(s, n):
    blk = _blocks.get(s)
    if blk is None:
        blk = bytes([(j * 167 + (j >> 8) * 13 + s) & 255 for j in range(65536)])
        _blocks[s] = blk
    if n > 65536:
        raise HarnessFailure('sha_ref: pattern_bytes too long')
    return blk[:n]


def pattern_digest(s, n):
    """SHA-256 of the pattern message: byte i = (j*167 + (j>>8)*13 + s) & 255 with j = i & 0xffff"""
    blk = _blocks.get(s)
    if blk is None:
        blk = bytes([(j * 167 + (j >> 8) * 13 + s) & 255 for j in range(65536)])
        _blocks[s] = blk
    h = hashlib.sha256()
    big = blk * 64 if n >= (1 << 24) else None
    left = n
    if big:
        while left >= len(big):
            h.update(big)
            left -= len(big)
    while left >= 65536:
        h.update(blk)
        left -= 65536
    h.update(blk[:left])
    return h.hexdigest()


_M64 = (1 << 64) - 1
_huge_blocks = {}


def huge_block(s):
    """2^20 bytes: little-endian splitmix64 outputs, state starting at s * 0x9e3779b97f4a7c15 + 0x632be59bd9b4e019 (harness: hugeBlock)"""
    blk = _huge_blocks.get(s)
    if blk is None:
        x = (s * 0x9e3779b97f4a7c15 + 0x632be59bd9b4e019) & _M64
        out = []
        for _ in range((1 << 20) // 8):
            x = (x + 0x9e3779b97f4a7c15) & _M64
            z = x
            z = ((z ^ (z >> 30)) * 0xbf58476d1ce4e5b9) & _M64
            z = ((z ^ (z >> 27)) * 0x94d049bb133111eb) & _M64
            out.append(z ^ (z >> 31))
        blk = struct.pack('<%dQ' % len(out), *out)
        _huge_blocks[s] = blk
    return blk


def huge_feed(h, s, n):
    """h.update over the huge message big(s)[0..n): the block repeated (hashlib releases the GIL for large updates, so several of these run in parallel)"""
    blk = huge_block(s)
    big = blk * 16
    left = n
    while left >= len(big):
        h.update(big)
        left -= len(big)
    while left >= len(blk):
        h.update(blk)
        left -= len(blk)
    h.update(blk[:left])
    return h.hexdigest()


def huge_class(hashed):
    """by the most significant bit of the BIT length of what one hasher consumed (harness: hugeClass)"""
    msb = (hashed << 3).bit_length() - 1
    return 'bits<2^32' if msb < 32 else 'bits>=2^%d' % msb


def len_class(n):
    m = n % 64
    pad = '0' if m == 0 else '1..54' if m < 55 else '55' if m == 55 else '56' if m == 56 else '57..62' if m < 63 else '63'
    blocks = '0' if n < 64 else '1' if n < 128 else '>=2'
    return 'len%%64=%s,blocks%s' % (pad, blocks if blocks.startswith('>') else '=' + blocks)


def key_class(n):
    return 'key<block' if n < 64 else 'key=block' if n == 64 else 'key>block'


def post(ctx):
    self_check()
    stats = ctx.extra_cov.setdefault('_stats', {})
    n_h = n_p = n_m = n_v = n_a = 0
    huge = []   # (line, fields): recomputed in parallel after the scan
    seen_vectors = set()
    bad = {}   # key -> (text, msg)

    def report(key, line, msg):
        if key not in bad:
            bad[key] = (line, msg)

    for job, paths in sorted(ctx.recfiles.items()):
        for path in paths:
            with open(path, 'r', errors='replace') as f:
                for ln, line in enumerate(f, 1):
                    f_ = line.rstrip('\n').split(' ')
                    try:
                        if f_[0] == 'H' and len(f_) == 3:
                            msg = bytes.fromhex(f_[1])
                            want = hashlib.sha256(msg).hexdigest()
                            n_h += 1
                            if want != f_[2]:
                                report('Sha256.hash/%s/digest-differs-from-FIPS-180-4' % len_class(len(msg)), line,
                                       'message of %d bytes: library digest %s, hashlib %s' % (len(msg), f_[2], want))
                        elif f_[0] == 'P' and len(f_) == 4:
                            s, n = int(f_[1]), int(f_[2])
                            want = pattern_digest(s, n)
                            n_p += 1
                            if want != f_[3]:
                                cls = 'bytes>=2^32' if n >> 32 else 'bits>=2^32' if n >> 29 else len_class(n)
                                report('Sha256.update/long-message/%s/digest-differs-from-FIPS-180-4' % cls, line,
                                       'pattern message s=%d of %d bytes: library digest %s, hashlib %s' % (s, n, f_[3], want))
                        elif f_[0] == 'M' and len(f_) == 4:
                            key, msg = bytes.fromhex(f_[1]), bytes.fromhex(f_[2])
                            want = hmac.new(key, msg, hashlib.sha256).hexdigest()
                            n_m += 1
                            if want != f_[3]:
                                report('Sha256.hmac/%s/mac-differs-from-RFC-2104' % key_class(len(key)), line,
                                       'key of %d bytes, message of %d bytes: library MAC %s, hmac module %s' % (len(key), len(msg), f_[3], want))
                        elif f_[0] == 'N' and len(f_) == 6:
                            key, msg = pattern_bytes(int(f_[1]), int(f_[2])), pattern_bytes(int(f_[3]), int(f_[4]))
                            want = hmac.new(key, msg, hashlib.sha256).hexdigest()
                            n_m += 1
                            if want != f_[5]:
                                report('Sha256.hmac/%s/mac-differs-from-RFC-2104' % key_class(len(key)), line,
                                       'pattern key s=%s of %d bytes, pattern message s=%s of %d bytes: library MAC %s, hmac module %s' % (f_[1], len(key), f_[3], len(msg), f_[5], want))
                        elif f_[0] == 'A' and len(f_) == 5:
                            key, msg = bytes.fromhex(f_[2]), bytes.fromhex(f_[3])
                            want = hmac.new(key, msg, hashlib.sha256).hexdigest()
                            n_a += 1
                            if want != f_[4]:
                                report('Sha256.hmac/%s/mac-differs-from-RFC-2104' % f_[1], line,
                                       'result buffer overlapping an input; key of %d bytes, message of %d bytes (as before the call): library MAC %s, hmac module %s' % (len(key), len(msg), f_[4], want))
                        elif f_[0] == 'G' and len(f_) == 4:
                            msg = bytes.fromhex(f_[2])
                            want = hashlib.sha256(msg).hexdigest()
                            n_a += 1
                            if want != f_[3]:
                                report('Sha256.hash/%s/digest-differs-from-FIPS-180-4' % f_[1], line,
                                       'result buffer inside the data buffer; message of %d bytes (as before the call): library digest %s, hashlib %s' % (len(msg), f_[3], want))
                        elif f_[0] == 'Q' and len(f_) == 6 and f_[2] in ('chunked', 'one-shot'):
                            huge.append((line, ('Q', int(f_[1]), f_[2], int(f_[3]), int(f_[4]), f_[5])))
                        elif f_[0] == 'K' and len(f_) == 6:
                            huge.append((line, ('K', int(f_[1]), int(f_[2]), int(f_[3]), int(f_[4]), f_[5])))
                        elif f_[0] == 'V' and len(f_) == 3:
                            if f_[1] not in VECTORS:
                                raise HarnessFailure('sha_ref: unknown vector name %s in %s' % (f_[1], path))
                            kind, arg, want = VECTORS[f_[1]]
                            n_v += 1
                            seen_vectors.add(f_[1])
                            if not f_[2].startswith(want):
                                report('Sha256.%s/published-vector/%s' % ('hash' if kind == 'sha' else 'hmac', f_[1]), line,
                                       'published vector %s: library %s, standard %s' % (f_[1], f_[2], want))
                        elif line.strip():
                            raise HarnessFailure('sha_ref: malformed record %s:%d: %.80s' % (path, ln, line))
                    except ValueError as e:
                        raise HarnessFailure('sha_ref: malformed record %s:%d (%s)' % (path, ln, e))
    # huge messages: hashlib / hmac over the same repeated block
    def huge_ref(item):
        f = item[1]
        if f[0] == 'Q':
            return huge_feed(hashlib.sha256(), f[3], f[4])
        return huge_feed(hmac.new(huge_block(f[2] ^ 0x5bd1e995)[:f[3]], digestmod=hashlib.sha256), f[2], f[4])
    for _, f in huge:   # the blocks once, single-threaded (pure Python)
        huge_block(f[3] if f[0] == 'Q' else f[2])
    huge_classes = set()
    if huge:
        with ThreadPoolExecutor(min(8, len(huge))) as pool:
            wants = list(pool.map(huge_ref, huge))
        for (line, f), want in zip(huge, wants):
            if f[0] == 'Q':
                _, case, how, s, n, got = f
                cls = huge_class(n)
                if want != got:
                    report('Sha256.%s/huge-message/%s/digest-differs-from-FIPS-180-4' % ('update' if how == 'chunked' else 'hash', cls), line,
                           'huge message (2^20-byte block of seed %d repeated) of %d bytes, %s: library digest %s, hashlib %s; re-run: --mode huge --start %d --cases 1 with the seed of this run'
                           % (s, n, 'fed in many update() calls' if how == 'chunked' else 'one Sha256::hash() call', got, want, case))
            else:
                _, case, s, kl, n, got = f
                cls = huge_class(n + 64)
                if want != got:
                    report('Sha256.hmac/huge-message/%s/mac-differs-from-RFC-2104' % cls, line,
                           'key of %d bytes, huge message (2^20-byte block of seed %d repeated) of %d bytes: library MAC %s, hmac module %s; re-run: --mode huge --start %d --cases 1 with the seed of this run'
                           % (kl, s, n, got, want, case))
            huge_classes.add(cls)
    for key, (line, msg) in sorted(bad.items()):
        name = '%s.offline.%s.txt' % (ctx.prop, ''.join(c if c.isalnum() else '_' for c in key)[:80])
        rp = core.write_replay(name, 'key=%s\nmsg=%s\nchecker=vlib/sha_ref.py (hashlib/hmac)\nrecord (H msg digest | P s len digest | M key msg mac | V name value | A class key msg mac | G class msg digest | Q case how blockseed len digest | K case blockseed keylen len mac):\n%s\n' % (key, msg, line[:20000]))
        ctx.violations.append((key, rp, msg))
    stats['offline_digests_compared'] = n_h + n_p
    stats['offline_long_pattern_digests'] = n_p
    stats['offline_macs_compared'] = n_m
    stats['offline_vectors_compared'] = n_v
    stats['offline_huge_results_compared'] = len(huge)
    stats['offline_huge_results_of_2p29_bytes_or_more'] = sum(1 for _, f in huge if (f[4] + (64 if f[0] == 'K' else 0)) >> 29)
    stats['offline_huge_mib_hashed_by_reference'] = sum(f[4] >> 20 for _, f in huge)
    ctx.extra_cov['offline_huge_length_classes'] = sorted(huge_classes)
    stats['offline_aliased_results_compared'] = n_a
    ctx.extra_cov['offline_counts'] = {k: v for k, v in stats.items() if k.startswith('offline_')}
    ctx.extra_cov['offline_checker'] = 'vlib/sha_ref.py: hashlib.sha256 / hmac.new(..., sha256); reference self-checked against %d published vectors (FIPS 180-4 examples, RFC 4231)' % len(VECTORS)
    ctx.extra_cov['published_vectors_seen'] = sorted(seen_vectors)
