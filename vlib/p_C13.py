# C13 job table (see DESIGN.md section 3 / C13)
from .jobs import job, Q, T

SRC = ['harness/h_server_write.cpp', 'interpose/net_shims.cpp']

SPEC = dict(
    level='fault_enumeration',
    rule='case = one fault plan for the send() calls of Server clients on socket pairs (outcomes full / partial(1) / partial(k) / partial(n-1) / EAGAIN / hard error) '
         'combined with a seeded script of writes (sizes 1..300000, issued from outside the loop, from onRead or from onWrite), suspend/resume and peer traffic. '
         'plan-exh: every outcome sequence up to length N (quick 3, thorough 5) over the 5 non-error outcomes x 3 size classes; plan-err: every sequence up to N-1 followed by a hard error; '
         'rand: plans of length 6..40, 1..3 clients, cross suspend while the read event is selected; kernel: no scripted faults, minimal SO_SNDBUF and a slow reader. '
         'distinct = hash of the observed (send length, return) sequence and the operation sequence; non-trivial = at least one send took less than offered (partial or EAGAIN) '
         '(rand/kernel: and the backlog drained at least once). After every send: offered bytes == next accepted bytes; after every write and at every idle point: '
         'postponed == getSendBufferSize() == accepted - handed to the OS; onWrite exactly at the drain; peer stream == concatenation of accepted slices; independent poll() readiness vs dispatch.',
    assumptions=['ASan/UBSan on the backlog Buffer; library ASSERTs enabled (-DDEBUG)',
                 'write() with size 0 is outside the statement (send() returns 0, which the client treats as a closed connection)',
                 'a hard send error in the write-ready path drops the unsent backlog and closes the client (onClosed): only bytes reported as handed to the OS must reach the peer',
                 'a peer that closes while its client is suspended without backlog is not generated (the loop then spins on EPOLLHUP without dispatching; not a statement of C13)'],
    technique='libc interposition (send/recv/epoll_wait/clock_gettime), virtual time, reference byte-stream model, independent poll() oracle',
    exhaustive={Q: False, T: False},   # the outcome-sequence x size-class sub-space (plan-exh, plan-err) is enumerated completely; sizes, venues and scripts are sampled
    jobs=[
        job('plan-exh', 'h_server_write', 'plan-exh', cases=-1, scale={Q: 3, T: 5}, procs=16, sources=SRC),
        job('plan-err', 'h_server_write', 'plan-err', cases=-1, scale={Q: 3, T: 5}, procs=16, sources=SRC),
        job('rand', 'h_server_write', 'rand', cases={Q: 800, T: 14000}, procs=16, sources=SRC),
        job('kernel', 'h_server_write', 'kernel', cases={Q: 160, T: 2400}, procs=16, sources=SRC),
    ],
    floors={Q: dict(cases=1400, plans_fully_consumed=558, send_calls=5000, send_partial=1000, send_eagain=500, send_error=90, backlog_drained=500, onWrite=500, writes_append_path=100,
                    postponed_checks=1000, backlog_size_checks=3000, peer_bytes_verified=10000000, independent_poll_checks=1000, streams_verified_end_to_end=1400,
                    suspend_while_event_selected=5, resume_with_pending_data=5, **{'set:send_outcomes': 12, 'set:write_venues': 5}),
            T: dict(cases=30000, plans_fully_consumed=14058, send_calls=100000, send_partial=20000, send_eagain=10000, send_error=2000, backlog_drained=10000, onWrite=10000, writes_append_path=2000,
                    postponed_checks=20000, backlog_size_checks=60000, peer_bytes_verified=200000000, independent_poll_checks=20000, streams_verified_end_to_end=30000,
                    suspend_while_event_selected=100, resume_with_pending_data=100, **{'set:send_outcomes': 12, 'set:write_venues': 5})},
)
