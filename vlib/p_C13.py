# C13 job table (see DESIGN.md section 3 / C13)
from .jobs import job, Q, T

SRC = ['harness/h_server_write.cpp', 'interpose/net_shims.cpp']

SPEC = dict(
    level='fault_enumeration',
    rule='case = one fault plan for the send() calls of Server clients on socket pairs (outcomes full / partial(1) / partial(k) / partial(n-1) / EAGAIN / hard error) '
         'combined with a seeded script of writes (sizes 1..300000, issued from outside the loop, from onRead or from onWrite), suspend/resume and peer traffic. '
         'plan-exh: every outcome sequence up to length N (quick 4, thorough 6) over the 5 non-error outcomes x 3 size classes; plan-err: every sequence up to N-1 followed by a hard error; '
         'rand: plans of length 6..40, 1..3 clients, cross suspend while the read event is selected; kernel: no scripted faults, minimal SO_SNDBUF and a slow reader. '
         'accept-exh / accept-rand / accept-kernel: client 0 comes out of Server::listen (raw loopback connection) or Server::connect (raw loopback listener) and the '
         'onAccepted / onConnected callback itself acts on it before returning its callback object: nothing / write / suspend / suspend+write / write+suspend / write+write, '
         'the send outcomes of those writes taken from the plan (kernel mode: payloads of 20000..300000 bytes against a minimal SO_SNDBUF); then the peer talks (nothing may be '
         'delivered to a client the callback suspended), the backlog has to drain, resume() has to deliver the pending bytes, and the ordinary script continues. '
         'accept-exh enumerates origin x action x size class x every outcome sequence up to length N (quick 3, thorough 5). '
         'drain-exh: one backlog is drained in several partial sends and after EVERY partial send a small write arrives (the send hook lets the peer say something, the next poll round '
         'reports the client readable and onRead issues the write; sizes mostly below the amount just sent, steered by a model of the Buffer policy towards the in-place(front offset > 0) / '
         'compact / exact-fit / grow branches of the append), so (partial drain, small write) repeats two or more times on one backlog; when the backlog has drained the onWrite handler acts: '
         'nothing / write / suspend / suspend+write / write+suspend / remove another client whose read event is selected in the same batch - with or without peer data made pending just before '
         'the poll round whose send completes the drain (one event carrying read and write readiness); a client suspended by onWrite is then talked to by its peer (nothing may be delivered), '
         'resumed and must get the pending bytes. Enumerates action x pending x 2 size classes x every outcome sequence up to length N (quick 4, thorough 5). '
         'hangup-exh: peer-side events while the client is suspended - the peer sends data / shuts down its write side / shuts down both directions / closes / resets (SO_LINGER 0) / closes '
         'with unread data - on a pair (AF_UNIX), an accepted and a connected (loopback TCP) client, with an empty send backlog (client registered in the poll set without events) or a pending one '
         '(first send partial or would-block), inbound bytes pending or not, suspend before or after the write; the loop runs (no onRead may reach the suspended client; a poll round that dispatched '
         'nothing while such a hung-up client exists counts as an idle point), then resume / run again + resume / write + resume / left to the end of the case: after resume onRead must come, '
         'an orderly close must deliver every inbound byte and the client must be told (onClosed). Enumerates origin x event x backlog x pending x order x follow-up, N repetitions with fresh sizes / plans (quick 6, thorough 40). '
         'rand / accept-rand: half of the cases carry the same two scripts (1..6 mid-drain writes per client, a random onWrite action) drawn from a separate stream. '
         'distinct = hash of the observed (send length, return) sequence and the operation sequence; non-trivial = at least one send took less than offered (partial or EAGAIN) '
         '(rand/kernel: and the backlog drained at least once). After every send: offered bytes == next accepted bytes; after every write and at every idle point: '
         'postponed == getSendBufferSize() == accepted - handed to the OS; onWrite exactly at the drain; peer stream == concatenation of accepted slices; independent poll() readiness vs dispatch.',
    assumptions=['ASan/UBSan on the backlog Buffer; library ASSERTs enabled (-DDEBUG)',
                 'write() with size 0 is outside the statement (send() returns 0, which the client treats as a closed connection)',
                 'a hard send error in the write-ready path drops the unsent backlog and closes the client (onClosed): only bytes reported as handed to the OS must reach the peer',
                 'a peer that hangs up while its client is suspended without backlog is generated by hangup-exh only: the unchanged loop then spins on EPOLLHUP without dispatching anything '
                 '(not a statement of C13); the harness recognises a poll round that dispatched nothing (no callback, send or recv between two epoll_wait calls, while a suspended client without '
                 'requested events is hung up according to poll()) and treats it as an idle point - bounded by loop rounds, never by time. What is handed to the OS after the peer has closed or shut down '
                 'both directions cannot be verified at the peer; inbound completeness after resume is demanded only when the stream ended in order and the client has not sent since',
                 'accepted / connected clients are loopback TCP sockets: before the application closes such a client (remove() in onClosed) the peer reads what the kernel has already taken - '
                 'closing a TCP socket with unread inbound data is an abortive close and the kernel then discards bytes it accepted from send() but has not delivered (not a library matter)',
                 'loopback TCP delivery is asynchronous: where the harness itself put bytes in flight it waits (bounded, real time) until its own poll() sees them before judging the loop; '
                 'a readiness verdict on a TCP client is a violation only if the needed event bit is missing from the epoll registration observed at the epoll_ctl boundary, '
                 'with the registration in place the wake-up is re-polled (inconclusive after 10 s, never a violation); the harness-owned TCP ends use TCP_NODELAY / TCP_QUICKACK'],
    technique='libc interposition (send/recv/epoll_wait/clock_gettime), virtual time, reference byte-stream model, independent poll() oracle, peer hang-up injection',
    exhaustive={Q: False, T: False},   # the outcome-sequence x size-class sub-space (plan-exh, plan-err) is enumerated completely; sizes, venues and scripts are sampled
    jobs=[
        job('plan-exh', 'h_server_write', 'plan-exh', cases=-1, scale={Q: 4, T: 6}, procs=16, sources=SRC),
        job('plan-err', 'h_server_write', 'plan-err', cases=-1, scale={Q: 4, T: 6}, procs=16, sources=SRC),
        job('rand', 'h_server_write', 'rand', cases={Q: 18000, T: 80000}, procs=16, sources=SRC),
        job('kernel', 'h_server_write', 'kernel', cases={Q: 2000, T: 12000}, procs=16, sources=SRC),
        job('drain-exh', 'h_server_write', 'drain-exh', cases=-1, scale={Q: 4, T: 5}, procs=16, sources=SRC),
        job('accept-exh', 'h_server_write', 'accept-exh', cases=-1, scale={Q: 3, T: 5}, procs=16, sources=SRC),
        job('accept-rand', 'h_server_write', 'accept-rand', cases={Q: 4000, T: 30000}, procs=16, sources=SRC),
        job('accept-kernel', 'h_server_write', 'accept-kernel', cases={Q: 600, T: 4000}, procs=16, sources=SRC),
        job('hangup-exh', 'h_server_write', 'hangup-exh', cases=-1, scale={Q: 6, T: 40}, procs=16, sources=SRC),
    ],
    floors={Q: dict(cases=6000, plans_fully_consumed=2808, send_calls=90000, send_partial=60000, send_eagain=6000, send_error=700, backlog_drained=9000, onWrite=9000, writes_append_path=2500,
                    postponed_checks=18000, backlog_size_checks=200000, peer_bytes_verified=1200000000, independent_poll_checks=150000, streams_verified_end_to_end=6000,
                    suspend_while_event_selected=150, resume_with_pending_data=1500,
                    accept_plans_fully_consumed=5580, onAccepted=3000, onConnected=3000, writes_in_onAccepted=2300, writes_in_onConnected=2300,
                    writes_in_onAccepted_leaving_backlog=1400, writes_in_onConnected_leaving_backlog=1400, suspends_in_onAccepted=1400, suspends_in_onConnected=1400,
                    nothing_in_onAccepted=400, nothing_in_onConnected=400, resume_after_callback_suspend_delivered_pending=2300, writes_while_suspended_since_callback=1100,
                    drain_plans_fully_consumed=18720, partial_drains=300000, mid_drain_writes_scripted=22000, writes_between_partial_drains=22000, backlogs_drained_in_3plus_sends=24000,
                    backlogs_with_2plus_mid_drain_writes=6000, appends_in_place_behind_front_offset=4000, appends_compacting=15000, cases_with_append_behind_front_offset=1500,
                    onWrite_acts=15000, suspends_in_onWrite=7500, writes_in_onWrite_act=7500, writes_in_onWrite_act_leaving_backlog=2800, peer_data_injected_before_draining_poll=8000,
                    events_readable_and_writable_with_onWrite_suspend_scripted=8000, followups_after_onWrite_suspend=5500, removes_in_callback=2200, remove_while_event_selected=1500,
                    rand_cases_with_drain_scripts=9000,
                    hangup_cases=5184, peer_events_on_suspended_client=5184, hangups_on_suspended_client_registered_without_events=750, hangups_on_suspended_client_with_backlog=1450,
                    end_of_stream_pending_on_suspended_client=1900, suspended_clients_kept_quiet_through_peer_event=2800, resumes_after_peer_event=1800,
                    resume_after_peer_event_delivered_onRead=1800, resume_after_orderly_close_read_everything=800, peer_closed_with_unread_bytes=500,
                    **{'set:send_outcomes': 12, 'set:write_venues': 9, 'set:fresh_client_acts': 24, 'set:onWrite_acts': 20, 'set:buffer_append_branches': 5, 'set:suspended_peer_events': 60}),
            T: dict(cases=160000, plans_fully_consumed=70308, send_calls=2300000, send_partial=1400000, send_eagain=190000, send_error=19000, backlog_drained=250000, onWrite=250000, writes_append_path=70000,
                    postponed_checks=490000, backlog_size_checks=5500000, peer_bytes_verified=36000000000, independent_poll_checks=3600000, streams_verified_end_to_end=160000,
                    suspend_while_event_selected=6000, resume_with_pending_data=60000,
                    accept_plans_fully_consumed=140580, onAccepted=60000, onConnected=60000, writes_in_onAccepted=50000, writes_in_onConnected=50000,
                    writes_in_onAccepted_leaving_backlog=30000, writes_in_onConnected_leaving_backlog=30000, suspends_in_onAccepted=30000, suspends_in_onConnected=30000,
                    nothing_in_onAccepted=9000, nothing_in_onConnected=9000, resume_after_callback_suspend_delivered_pending=55000, writes_while_suspended_since_callback=27000,
                    drain_plans_fully_consumed=93720, partial_drains=1900000, mid_drain_writes_scripted=125000, writes_between_partial_drains=125000, backlogs_drained_in_3plus_sends=160000,
                    backlogs_with_2plus_mid_drain_writes=35000, appends_in_place_behind_front_offset=25000, appends_compacting=88000, cases_with_append_behind_front_offset=11000,
                    onWrite_acts=76000, suspends_in_onWrite=38000, writes_in_onWrite_act=38000, writes_in_onWrite_act_leaving_backlog=16000, peer_data_injected_before_draining_poll=39000,
                    events_readable_and_writable_with_onWrite_suspend_scripted=45000, followups_after_onWrite_suspend=28000, removes_in_callback=11000, remove_while_event_selected=8500,
                    rand_cases_with_drain_scripts=45000,
                    hangup_cases=34560, peer_events_on_suspended_client=34560, hangups_on_suspended_client_registered_without_events=5000, hangups_on_suspended_client_with_backlog=9600,
                    end_of_stream_pending_on_suspended_client=12500, suspended_clients_kept_quiet_through_peer_event=18000, resumes_after_peer_event=12000,
                    resume_after_peer_event_delivered_onRead=12000, resume_after_orderly_close_read_everything=5000, peer_closed_with_unread_bytes=3500,
                    **{'set:send_outcomes': 12, 'set:write_venues': 9, 'set:fresh_client_acts': 24, 'set:onWrite_acts': 24, 'set:buffer_append_branches': 5, 'set:suspended_peer_events': 60})},
)
