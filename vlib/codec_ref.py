# codec_ref.py - offline checker for C18: Python's utf-8 codec, int(), bytes.hex() and base64 over the log of harness/h_codec.cpp.
#   U <first cp> <count> <hex>   S <first cp> <count> <hex>   D <hex> <cp>   W <hex> <0|1>
#   I <i32|u32|i64|u64> <bits hex> <text>   X <input hex> <text>   B <base64 text> <decoded hex>
#   A <i32|u32|i64|u64> <bits hex> <text>   value returned by the member to*() of a String attached to exactly <text> inside a larger block
import base64, binascii
from . import core
from .core import HarnessFailure


def cp_class(c):
    return '1-byte' if c < 0x80 else '2-byte' if c < 0x800 else 'surrogate' if 0xD800 <= c <= 0xDFFF else '3-byte' if c < 0x10000 else '4-byte'


def self_check():
    if 'A'.encode('utf-8') != b'A' or '€'.encode('utf-8') != b'\xe2\x82\xac' or '\U0010ffff'.encode('utf-8') != b'\xf4\x8f\xbf\xbf':
        raise HarnessFailure('codec_ref: utf-8 codec self-check failed')
    if base64.b64encode(b'foobar') != b'Zm9vYmFy' or base64.b64encode(b'fo') != b'Zm8=' or base64.b64decode(b'Zg==', validate=True) != b'f':   # RFC 4648 section 10
        raise HarnessFailure('codec_ref: base64 self-check failed')


def post(ctx):
    self_check()
    stats = ctx.extra_cov.setdefault('_stats', {})
    n = dict(U=0, S=0, D=0, W=0, I=0, X=0, B=0, A=0)
    cps = 0
    sur_agree = sur_differ = 0
    lenient = 0
    cp_seen = bytearray(0x110000)
    bad = {}

    def report(key, line, msg):
        if key not in bad:
            bad[key] = (line, msg)

    for job, paths in sorted(ctx.recfiles.items()):
        for path in paths:
            with open(path, 'r', errors='replace') as f:
                for ln, line in enumerate(f, 1):
                    t = line.rstrip('\n').split(' ')
                    try:
                        k = t[0]
                        if k == 'U' and len(t) == 4:
                            first, count = int(t[1]), int(t[2])
                            want = ''.join(map(chr, range(first, first + count))).encode('utf-8')
                            got = bytes.fromhex(t[3])
                            n['U'] += 1
                            cps += count
                            cp_seen[first:first + count] = b'\x01' * count
                            if got != want:
                                # locate the first differing code point
                                pos, c = 0, first
                                for c in range(first, first + count):
                                    e = chr(c).encode('utf-8')
                                    if got[pos:pos + len(e)] != e:
                                        break
                                    pos += len(e)
                                report('Unicode.toString/%s/differs-from-python-utf8' % cp_class(c), line[:200],
                                       'toString(U+%04X) = %s..., Python utf-8 gives %s' % (c, got[pos:pos + 4].hex(), chr(c).encode('utf-8').hex()))
                        elif k == 'S' and len(t) == 4:
                            first, count = int(t[1]), int(t[2])
                            want = ''.join(map(chr, range(first, first + count))).encode('utf-8', 'surrogatepass')
                            n['S'] += 1
                            cp_seen[first:first + count] = b'\x01' * count
                            if bytes.fromhex(t[3]) == want:
                                sur_agree += count
                            else:
                                sur_differ += count      # UTF-8 defines no encoding for surrogates: informational only
                        elif k == 'D' and len(t) == 3:
                            raw, cp = bytes.fromhex(t[1]), int(t[2])
                            n['D'] += 1
                            try:
                                s = raw.decode('utf-8')
                            except UnicodeDecodeError:
                                raise HarnessFailure('codec_ref: harness classified %s as strictly valid, Python does not (%s:%d)' % (t[1], path, ln))
                            if len(s) != 1 or ord(s) != cp:
                                report('Unicode.fromString/%s/differs-from-python-utf8' % cp_class(ord(s[0])), line, 'fromString(%s) = U+%04X, Python decodes U+%04X' % (t[1], cp, ord(s[0])))
                        elif k == 'W' and len(t) == 3:
                            raw, iv = bytes.fromhex(t[1]), int(t[2])
                            n['W'] += 1
                            try:
                                raw.decode('utf-8')
                                ok = True
                            except UnicodeDecodeError:
                                ok = False
                            if ok and not iv:
                                report('Unicode.isValid/valid-utf8/rejected-per-python', line, 'isValid rejects %s, which Python decodes as UTF-8' % t[1])
                            elif iv and not ok:
                                lenient += 1     # overlong / surrogate / out-of-range forms accepted: outside the statement, counted only
                        elif k == 'I' and len(t) == 4:
                            bits = int(t[2], 16)
                            width = 32 if t[1] in ('i32', 'u32') else 64
                            v = bits - (1 << width) if t[1][0] == 'i' and bits >> (width - 1) else bits
                            n['I'] += 1
                            if str(v) != t[3]:
                                report('String.from%s/text-differs-from-python-int' % {'i32': 'Int', 'u32': 'UInt', 'i64': 'Int64', 'u64': 'UInt64'}[t[1]], line, 'value %d rendered as "%s"' % (v, t[3]))
                            else:
                                try:
                                    if int(t[3]) != v:
                                        raise ValueError
                                except ValueError:
                                    raise HarnessFailure('codec_ref: int round trip broken for %s' % line)
                        elif k == 'A' and len(t) == 4:
                            bits = int(t[2], 16)
                            width = 32 if t[1] in ('i32', 'u32') else 64
                            bits &= (1 << width) - 1
                            v = bits - (1 << width) if t[1][0] == 'i' and bits >> (width - 1) else bits
                            n['A'] += 1
                            if int(t[3]) != v:
                                report('String.to%s/attached-view/value-differs-from-python-int' % {'i32': 'Int', 'u32': 'UInt', 'i64': 'Int64', 'u64': 'UInt64'}[t[1]], line,
                                       'String attached to the characters "%s" converted to %d' % (t[3], v))
                        elif k == 'X' and len(t) == 3:
                            raw = bytes.fromhex(t[1])
                            n['X'] += 1
                            if raw.hex().upper() != t[2]:
                                report('String.fromHex/differs-from-python-hex-upper', line[:300], 'fromHex(%s...) = %s..., expected %s...' % (t[1][:40], t[2][:40], raw.hex().upper()[:40]))
                        elif k == 'B' and len(t) == 3:
                            enc = t[1].encode('ascii')
                            dec = bytes.fromhex(t[2])
                            n['B'] += 1
                            try:
                                want = base64.b64decode(enc, validate=True)
                            except (binascii.Error, ValueError):
                                raise HarnessFailure('codec_ref: harness produced a non-RFC 4648 encoding %r (%s:%d)' % (enc, path, ln))
                            if base64.b64encode(want) != enc:
                                raise HarnessFailure('codec_ref: harness encoder output %r is not what Python base64 produces (%s:%d)' % (enc, path, ln))
                            if dec != want:
                                pad = 'no-padding' if not enc.endswith(b'=') else 'two-pad' if enc.endswith(b'==') else 'one-pad'
                                report('String.fromBase64/rfc4648-encoding/%s/differs-from-python-base64' % pad, line[:300],
                                       'fromBase64(%s) = %s, Python base64 gives %s' % (t[1][:60], dec[:30].hex(), want[:30].hex()))
                        elif line.strip():
                            raise HarnessFailure('codec_ref: malformed record %s:%d: %.80s' % (path, ln, line))
                    except ValueError as e:
                        raise HarnessFailure('codec_ref: malformed record %s:%d (%s): %.80s' % (path, ln, e, line))
    for key, (line, msg) in sorted(bad.items()):
        name = '%s.offline.%s.txt' % (ctx.prop, ''.join(c if c.isalnum() else '_' for c in key)[:80])
        rp = core.write_replay(name, 'key=%s\nmsg=%s\nchecker=vlib/codec_ref.py (Python utf-8 codec / int / bytes.hex / base64)\nrecord:\n%s\n' % (key, msg, line))
        ctx.violations.append((key, rp, msg))
    stats['offline_code_points_compared'] = cps
    stats['offline_code_points_seen_incl_surrogates'] = sum(cp_seen)
    stats['offline_decodes_compared'] = n['D']
    stats['offline_isvalid_compared'] = n['W']
    stats['offline_ints_compared'] = n['I']
    stats['offline_hex_compared'] = n['X']
    stats['offline_attached_parses_compared'] = n['A']
    stats['offline_base64_compared'] = n['B']
    ctx.extra_cov['offline_counts'] = {k: v for k, v in stats.items() if k.startswith('offline_')}
    ctx.extra_cov['offline_checker'] = 'vlib/codec_ref.py: str.encode("utf-8") / bytes.decode, str(int), bytes.hex().upper(), base64.b64decode(validate=True) + b64encode cross-check of the harness encoder'
    ctx.extra_cov['surrogates_vs_python_surrogatepass'] = dict(agree=sur_agree, differ=sur_differ, note='informational: UTF-8 defines no encoding for U+D800..U+DFFF; only fromString(toString(c)) == c is checked for them')
    ctx.extra_cov['isvalid_accepts_non_strict_forms'] = lenient
