# C06 job table (see DESIGN.md section 3): String value semantics against a byte-string reference model
from .jobs import job, Q, T

SPEC = dict(
    level='exploration',
    rule='case = one swarm-weighted history of 50..400 operations over 2..6 String variables (plus up to 3 temporary argument Strings per operation) that may share one buffer; '
         'operation kinds and weights, alphabet (mostly 4 letters, needles/separators/trim sets drawn from all strings up to length 3 over it, or pieces of the receiver), '
         'byte mode (bytes 1..255), NUL mode (contents with NUL bytes, only the length-based API) and the view-sampling rate are chosen per case; '
         'every String-typed argument is drawn from {receiver itself, another variable, copy sharing the receiver\'s buffer, copy sharing another variable\'s buffer, '
         'fresh owned temp, literal/terminated-attached temp, unterminated-attached temp}; receivers that are not owned-exclusive are preferred. '
         'distinct = hash of the (operation, receiver state class, argument classes) sequence; non-trivial = some buffer was shared between Strings and at least one mutating '
         'operation ran on a shared or literal/attached receiver. '
         'After EVERY operation EVERY variable and live temporary is compared with its model: length(), isEmpty(), bytes (private text pointer, non-invasive), and the public '
         'C-string view: bytes and view[length()]==0 (always, except for unterminated-attached Strings whose view detaches them: sampled with the per-case rate so that the state survives); '
         'every literal / attached source block of a live String and every const char* input block (all exactly-sized heap blocks, attach blocks with guard bytes or following text) '
         'is compared with its original after every operation and all blocks of the case once more after all Strings are destroyed; results of queries/producers are compared with the '
         'naive model (pointers as offsets, compare results by sign). '
         'Growth from empty (added for seeded C06-A4): resize(n) is followed DIRECTLY - before the harness touches the String through operator char*() or any other mutable access - by the const '
         'C-string view (view[length()]==0, preserved prefix), then (2 of 3) by const consumers on the untouched result (==/!=, startsWith/endsWith, find/findLast and, for NUL-free bytes, the compare family, '
         'find(str)*, findOneOf/findLastOf, token) against a related String of any argument class, the model adopting the unspecified exposed bytes until they are written; a composite operation puts a variable '
         'into one of 13 empty representations (default, literal "", cleared in place, cleared copy of a shared buffer, cleared owned buffer with old bytes, attached empty terminated/unterminated, '
         'String(capacity), reserve on default, resize(0), assigned from String(), String(buf,0), empty buffer shared by two variables), applies one of 9 growth operations (resize, append String/buf/char, '
         'prepend String/buf, join, reserve+append, printf) and then a const-view consumer (==, find, startsWith, compare, token); every (growth operation, receiver class x empty/non-empty) pair whose view was '
         'checked directly after the operation is recorded.',
    assumptions=[
        'ASan/UBSan heap red zones around exactly-sized argument blocks; 0xbe malloc fill makes missing terminators/uninitialised bytes deterministic; library ASSERTs enabled',
        'attach(p, n) requires p[n] to be readable (the C-string view inspects it); attach blocks always have at least one byte behind the text',
        'bytes exposed by a growing resize() are unspecified: the harness checks length, the terminator of the const view and the preserved prefix, lets the model adopt the exposed bytes for the const '
        'queries that follow directly (C-string based ones only if those bytes are NUL-free; no random draw depends on them), then writes the new bytes through operator char*() before the history goes on',
        'preconditions taken from the code and excluded from generation: empty needle for replace(String,String) and findLast(const char*) (both walk forever / past the terminator), '
        'NUL as char needle/separator/replacement, token(const char* separators, start) with start > length() (the char overload checks start itself and is driven up to length()+3), '
        'const char* arguments that point into the receiver\'s own buffer (only String-typed self-arguments are in the statement), printf("%s") of the receiver\'s own view',
        'substr: negative start counts from the end and is clamped to 0, start beyond the end gives "", length -1 or too large means "to the end" (other negative lengths are not generated)',
        'token/split semantics as coded: a token ends at the first separator at or after start, start moves behind it, otherwise the rest is returned and start = length(); '
        'split(skipEmpty=false) yields one token more than separators (also for an empty string), split into a HashSet keeps first occurrences in order',
        'compare/compareIgnoreCase results are compared by sign only; case mapping is ASCII A-Z/a-z only (all 256 byte values checked)',
        'C-string based members (compare*, find(str)*, replace, case mapping, trim, token, split, printf) are only exercised on NUL-free contents (statement: NUL-free for the C-string based searches)',
        'integer/double/bool/hex/base64 conversions, scanf and character classification are covered by C18, not here',
        'fallback build (-DVERIF_NO_PRIVATE, used when the private representation of String no longer matches the harness): state classes are the harness\'s own record of how each '
        'String object got its value (holders outside the slots, e.g. list elements, only while the harness knows of them); bytes of a variable whose C-string view is not taken in a check are '
        'compared through operator==/!= with a String attached to the model bytes; every other oracle is unchanged',
    ],
    technique='reference-model monitor + source-memory comparison under ASan/UBSan',
    exhaustive={Q: False, T: False},
    jobs=[job('hist', 'h_string', 'hist', cases={Q: 40000, T: 480000}, procs=16, timeout=2400,
              probes=['String.prepend(String)', 'String.replace(String)'])],
    floors={Q: dict(ops=1200000, variable_checks=7000000, view_terminator_checks=7000000, source_block_checks=3500000, query_results_compared=1000000,
                    self_arg_ops=90000, arg_shares_receiver_buffer_ops=50000, mut_owned_shared=70000, mut_literal_attached=25000, mut_attached_unterminated=20000,
                    mut_empty_default=14000, replace_with_match=30000, tokens_checked=1000000, nul_mode_cases=600,
                    resize_const_view_directly_checked=150000, resize_grow_from_length0_const_view_checked=50000, resize_grow_from_length0_empty_default=7000,
                    resize_grow_from_length0_literal_attached=6000, resize_grow_from_length0_attached_unterminated=2500, resize_grow_from_length0_owned_exclusive=25000,
                    resize_grow_from_length0_owned_shared=3000, growth_from_empty_view_checked=250000, const_consumer_rounds=100000, const_consumer_rounds_cstring=50000,
                    empty_state_growth_sequences_grown=90000,
                    **{'set:matrix_op_recv_arg': 650, 'set:needle_patterns_4letter': 85, 'set:printf_result_lengths': 25, 'set:empty_state_x_growth_op': 117, 'set:growth_op_by_receiver_class': 125}),
            T: dict(ops=50000000, variable_checks=300000000, view_terminator_checks=300000000, source_block_checks=140000000, query_results_compared=40000000,
                    self_arg_ops=4000000, arg_shares_receiver_buffer_ops=2000000, mut_owned_shared=3000000, mut_literal_attached=1000000, mut_attached_unterminated=800000,
                    mut_empty_default=600000, replace_with_match=1200000, tokens_checked=40000000, nul_mode_cases=24000,
                    resize_const_view_directly_checked=1500000, resize_grow_from_length0_const_view_checked=500000, resize_grow_from_length0_empty_default=70000,
                    resize_grow_from_length0_literal_attached=60000, resize_grow_from_length0_attached_unterminated=25000, resize_grow_from_length0_owned_exclusive=250000,
                    resize_grow_from_length0_owned_shared=30000, growth_from_empty_view_checked=2500000, const_consumer_rounds=1000000, const_consumer_rounds_cstring=500000,
                    empty_state_growth_sequences_grown=900000,
                    **{'set:matrix_op_recv_arg': 700, 'set:needle_patterns_4letter': 85, 'set:printf_result_lengths': 25, 'set:empty_state_x_growth_op': 117, 'set:growth_op_by_receiver_class': 125})},
)
