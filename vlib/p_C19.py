# C19 job table (see DESIGN.md section 3, C19): paths, files, directories
from .jobs import job, Q, T

_SRC = ['harness/h_fs.cpp', 'interpose/fs_shims.cpp']

SPEC = dict(
    level='exploration',
    rule='paths: every string over "a./\\b" up to length 8 (quick) / 10 (thorough), every <=4 / <=5 component path over {a, b, ., .., a.b} with every lead/separator/trail '
         'variant, every ordered pair of <=3 / <=4 component paths over {a, b, .., .} (absolute and relative) for getRelativePath, plus random longer names; oracles: '
         'simplifyPath idempotent and equal in canonical lexical form (absolute flag + component list; "" == "."; "/.." == "/"), dir + sep + base == p, stem [+ "." + ext] == base, '
         'extension argument removed iff present, from + "/" + rel(from, to) == to in canonical form whenever a lexical answer exists (empty result only when none exists). '
         'files: case = swarm-weighted history of 15..90 operations (open modes x write/String write/read/readAll/seek/size/flush/exists/unlink/rename/copy, failure classes: missing source, '
         'existing destination with failIfExists, directory as source/target, destination in a missing directory, read on write-only and write on read-only handles) on 3 names and 2 handles '
         'against an inode/byte-array model; 1 op in 6 runs under a libc failpoint (open/write/short write/read/lseek/rename/unlink/sendfile/short sendfile: ENOSPC, EIO, EACCES); '
         'after every operation the content of every name is read back through libc and compared, the directory listing must contain no name the model does not have, handle offsets '
         'and sizes are compared with the kernel. non-trivial = at least one successful rename/copy and one failing operation. '
         'files-alias: the same histories and oracles, but every path argument of open/readAll/exists/unlink/rename/copy is given (3 times in 4) in one of 8 spellings of the same '
         'directory entry: plain, "./" or "/./" component, d/../name, dir//name, absolute instead of relative (and vice versa), through a symbolic link to the case directory, '
         'through a symbolic link d/up -> "..", dir/../dir/name; source and destination of rename may be two spellings of one entry (classes existing-/missing-alias-of-dst); every '
         'case ends with 12 forced failing calls (rename x3, copy, unlink, exists, readAll, open without create) whose source is a missing name, both arguments in different spellings, the '
         'destination of rename being the same entry in half of them: result false, nothing new in the listing, contents per model. non-trivial additionally = a failing call with an aliased path. '
         'trees: case = random forest (sentinel directory outside/, sibling tree sib/, tree/ of depth <= 4 with files, FIFOs, hard links and symbolic links to outside files/directories, to '
         'the sibling, dangling, to ".", ".." and to themselves) and 3..9 Directory::create / Directory::unlink calls over path classes; a recursive libc snapshot (names, types, sizes, '
         'content hashes, link targets) of the whole case root is taken before and after every call: create returns true iff stat says directory afterwards (and must succeed when all '
         'existing prefixes are directories), only directories at or below the first missing component may appear; unlink result as expected, a removed tree is gone, everything outside '
         'it is byte-identical; Directory::exists on the argument of every create / unlink call agrees with stat afterwards. non-trivial = a tree containing symbolic links was removed and a '
         'create was checked. Entry names: in 3 tree cases of 4 every second entry (file, directory, symbolic link, FIFO, hard link; at any depth) and the new components of created paths have a '
         'name starting with dots ("..data", "...", "..a", "..2024_03_01", ".hidden", "..3", "...1", ".. 2"); in 3 files / files-alias cases of 8 the three file names are such names. '
         'create-race (added for the class "a racing creator/remover between the library\'s system calls"): case = one Directory::create scenario (0..2 existing base directories, optionally reached '
         'through a symbolic link; 1..4 missing components; spelling plain / absolute / trailing separator / "./" and "x/../" detour / double separator; nothing, the existing target, a file or a '
         'dangling link in the way); it is run once undisturbed, which counts its n stat/lstat/access/opendir/mkdir/rmdir calls through the libc shims, and then on a rebuilt identical state once per '
         '(action, k): immediately before the k-th of those calls the shim itself plays another process that creates the very path the call is about to look at or make, creates the whole target, '
         'creates the parent of that path, creates the first missing component (every k = 1..n), places a regular file at that path, removes that path or removes its (empty) parent (about 3 seeded '
         'k each). Oracle unchanged: result == stat says directory afterwards, every component exists when true, Directory::exists agrees, only directories at or below the first missing component '
         'appear, and - as long as the other process only added directories and every existing prefix is a directory - the call must succeed. non-trivial = at least one interference changed the '
         'file system. create-threads: 10 rounds per case in which 4 threads released by a spin barrier call Directory::create on the same deep path / on siblings below a shared missing parent / on one '
         'new name / on prefixes of one chain; nothing is ever removed, so every call must return true and its directory must exist (schedule-dependent supplement; a correct library passes under every schedule).',
    assumptions=['ext4 scratch directory /verif/.work/<pid> (d_type always set); the checks run as root, so permission failures are represented only by injected EACCES',
                 'lexical equivalence treats "/" and "\\" as separators, "" as ".", and "/.." as "/"; paths with ":" (Windows drives) are not generated',
                 'getRelativePath: for inputs without a lexical answer (absolute/relative mix, unresolvable ".." left in from) only an empty result or a correct one is accepted',
                 'a directory entry whose name merely starts with "." or ".." ("..data", "...") is an ordinary entry; only the names "." and ".." themselves are special',
                 'copying a file onto itself and renaming a directory with File::rename are outside the statement and not generated',
                 'an injected failure of lseek is only used for seek()/size()/readAll(), never inside open()/copy() (not a realistic failure of a regular file)',
                 'create-race: the other process acts only at the library\'s own libc calls of the traced family (stat, lstat, access, opendir, mkdir, rmdir, unlink and their *at/64/statx variants); '
                 'a library whose verdict does not come from its last such call is outside what the removing interferences can judge (the creating ones are monotone and need no such assumption)',
                 'ASan/UBSan red zones; library ASSERTs enabled (-DDEBUG)'],
    technique='runtime monitoring: reference path algebra, inode/byte model + libc read-back, libc failpoints, before/after file-system snapshots, enumerated interference (racing creator/remover) injected at the libc boundary, concurrent callers',
    exhaustive={Q: False, T: False},
    jobs=[
        job('paths-str', 'h_fs', 'paths-str', sources=_SRC, cases=-1, scale={Q: 8, T: 10}, procs=16),
        job('paths-comp', 'h_fs', 'paths-comp', sources=_SRC, cases=-1, scale={Q: 4, T: 5}, procs=16),
        job('paths-rel', 'h_fs', 'paths-rel', sources=_SRC, cases=-1, scale={Q: 3, T: 4}, procs=16),
        job('paths-rand', 'h_fs', 'paths-rand', sources=_SRC, cases={Q: 80000, T: 1500000}, procs=16),
        job('files', 'h_fs', 'files', sources=_SRC, cases={Q: 4800, T: 100000}, procs=16),
        job('files-alias', 'h_fs', 'files-alias', sources=_SRC, cases={Q: 3200, T: 60000}, procs=16),
        job('trees', 'h_fs', 'trees', sources=_SRC, cases={Q: 1920, T: 40000}, procs=16),
        job('create-race', 'h_fs', 'create-race', sources=_SRC, cases={Q: 320, T: 12000}, procs=16),
        job('create-threads', 'h_fs', 'create-threads', sources=_SRC, cases={Q: 48, T: 1600}, procs=4),
    ],
    floors={Q: dict(path_inputs=500000, cmp_relative=100000, rel_answers=50000, ops=100000, bytes_compared=100000000, ops_with_injected_failure=5000, trees_removed=800,
                    symlinks_inside_removed_trees=1000, snapshot_entries_compared=80000, create_true=1000, create_false=500,
                    aliased_path_arguments=20000, failing_calls_with_aliased_path=10000, sweep_ops=15000, rename_missing_source_alias_of_dst_failIfExists=1500,
                    rename_missing_source_alias_of_dst_replace=400, rename_existing_source_alias_of_dst=300,
                    tree_entries_built_with_dotdot_prefixed_name=6000, tree_entries_built_with_dot_prefixed_name=3000, dotdot_prefixed_names_inside_removed_trees=1500,
                    dot_prefixed_names_inside_removed_trees=800, trees_removed_containing_dotdot_prefixed_names=500, creates_with_dot_prefixed_components_true=800,
                    file_cases_with_dot_prefixed_names=2000, op_exists_dir=5000,
                    race_trials=5000, race_interference_done=2000, race_creator_interference_done=1600, race_directory_made_between_check_and_mkdir=600,
                    race_creator_interference_with_creatable_target=500, race_remover_interference_done=200, race_file_interference_done=150, concurrent_create_calls=1900,
                    **{'set:race_points': 12, 'set:race_scenarios': 20, 'set:concurrent_create_classes': 4},
                    **{'set:dotdot_prefixed_entry_types_built': 5, 'set:dotdot_prefixed_entry_types_removed': 4, 'set:file_leaf_names': 12},
                    **{'set:create_classes': 9, 'set:unlink_classes': 8, 'set:injected_functions': 8, 'set:rel_classes': 8, 'set:alias_spellings': 7,
                       'set:rename_missing_alias_pairs': 56, 'set:rename_existing_alias_pairs': 40}),
            T: dict(path_inputs=10000000, cmp_relative=3000000, rel_answers=1500000, ops=2500000, bytes_compared=2000000000, ops_with_injected_failure=120000, trees_removed=20000,
                    symlinks_inside_removed_trees=25000, snapshot_entries_compared=2000000, create_true=25000, create_false=12000,
                    aliased_path_arguments=800000, failing_calls_with_aliased_path=400000, sweep_ops=600000, rename_missing_source_alias_of_dst_failIfExists=60000,
                    rename_missing_source_alias_of_dst_replace=15000, rename_existing_source_alias_of_dst=12000,
                    tree_entries_built_with_dotdot_prefixed_name=120000, tree_entries_built_with_dot_prefixed_name=60000, dotdot_prefixed_names_inside_removed_trees=30000,
                    dot_prefixed_names_inside_removed_trees=16000, trees_removed_containing_dotdot_prefixed_names=10000, creates_with_dot_prefixed_components_true=16000,
                    file_cases_with_dot_prefixed_names=40000, op_exists_dir=100000,
                    race_trials=180000, race_interference_done=75000, race_creator_interference_done=60000, race_directory_made_between_check_and_mkdir=22000,
                    race_creator_interference_with_creatable_target=18000, race_remover_interference_done=7500, race_file_interference_done=5500, concurrent_create_calls=60000,
                    **{'set:race_points': 13, 'set:race_scenarios': 24, 'set:concurrent_create_classes': 4},
                    **{'set:dotdot_prefixed_entry_types_built': 5, 'set:dotdot_prefixed_entry_types_removed': 4, 'set:file_leaf_names': 12},
                    **{'set:create_classes': 9, 'set:unlink_classes': 8, 'set:injected_functions': 8, 'set:rel_classes': 8, 'set:alias_spellings': 7,
                       'set:rename_missing_alias_pairs': 56, 'set:rename_existing_alias_pairs': 56})},
)
