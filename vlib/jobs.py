Q, T = 'quick', 'thorough'


def job(name, harness, mode, variant='asan', **kw):
    """one job = one harness binary run in `procs` shards. keys: cases ({tier: n} or n; -1 = whole enumerated space; 0 = skip in that tier),
    scale, procs, timeout (s, per process), weight (cores used by one process), rec (True: harness gets --rec <file> for an offline checker),
    args (extra argv), env, cflags, ldflags, sources (default harness/<harness>.cpp), probes (finding keys whose --probe lives in this harness),
    deadlock (True: watchdog runs the /proc deadlock detector)"""
    d = dict(name=name, harness=harness, sources=['harness/%s.cpp' % harness], mode=mode, variant=variant)
    d.update(kw)
    return d
