# lincheck.py - offline linearizability checker (Wing-Gong search with memoisation) for the C11 histories recorded by harness/h_sync.cpp
# History format: "H <case> <primitive> <nthreads> <initial>", "O thread op arg res inv ret tinv tret" ..., "E"
import sys, time
from . import core

def spec_mutex(state, op, t, arg, res):
    owner, depth = state
    if op == 0:      # lock: linearizes only when free or owned by the caller
        if owner is None or owner == t: return (t, depth + 1)
        return None
    if op == 1:      # tryLock succeeds iff free or owned by the caller
        free = owner is None or owner == t
        if res == 1: return (t, depth + 1) if free else None
        return state if not free else None
    if op == 2:      # unlock by the owner
        if owner != t or depth <= 0: return None
        return (None, 0) if depth == 1 else (t, depth - 1)
    return None

def spec_sem(state, op, t, arg, res):
    c = state
    if op == 0: return c + 1
    if res == 1: return c - 1 if c > 0 else None      # successful wait / tryWait consumes a token
    return c if c == 0 else None                       # failed tryWait / timed-out wait: no token at its linearization point

def spec_signal(state, op, t, arg, res):
    f = state
    if op == 0: return 1
    if op == 1: return 0
    if res == 1: return f if f == 1 else None          # wait returns true only while the flag is set
    return f if f == 0 else None                       # timed wait returns false only while it is reset

SPECS = {'Mutex': (spec_mutex, lambda init: (None, 0)), 'Semaphore': (spec_sem, lambda init: init), 'Signal': (spec_signal, lambda init: init)}

def linearizable(ops, spec, init, budget=2000000):
    """ops: list of (inv, ret, thread, op, arg, res). Returns True / False / None (budget exhausted)."""
    n = len(ops)
    ops = sorted(ops)
    seen = set()
    steps = [0]
    full = (1 << n) - 1
    def rec(done, state):
        if done == full: return True
        key = (done, state)
        if key in seen: return False
        seen.add(key)
        steps[0] += 1
        if steps[0] > budget: raise TimeoutError
        # minimal ops: not done, and no other not-done op returned before it was invoked
        minret = min(ops[i][1] for i in range(n) if not (done >> i) & 1)
        for i in range(n):
            if (done >> i) & 1: continue
            inv, ret, t, op, arg, res = ops[i]
            if inv > minret: break
            ns = spec(state, op, t, arg, res)
            if ns is not None and rec(done | (1 << i), ns): return True
        return False
    try:
        sys.setrecursionlimit(10000)
        return rec(0, init)
    except TimeoutError:
        return None

def check_files(ctx, jobname_prefixes):
    stats = ctx.extra_cov.setdefault('_stats', {})
    checked = bad = timeouts = 0
    maxops = 0
    for jn, files in ctx.recfiles.items():
        for fp in files:
            cur = None
            for line in open(fp, errors='replace'):
                f = line.split()
                if not f: continue
                if f[0] == 'H':
                    if len(f) < 5:
                        cur = None      # truncated header of a process that died
                        continue
                    cur = dict(case=int(f[1]), prim=f[2], nthreads=int(f[3]), init=int(f[4]), ops=[], raw=[line])
                elif f[0] == 'O' and cur is not None:
                    if len(f) < 9:
                        cur = None      # truncated record of a process that died: its death is reported separately
                        continue
                    t, op, arg, res, inv, ret = int(f[1]), int(f[2]), int(f[3]), int(f[4]), int(f[5]), int(f[6])
                    cur['raw'].append(line)
                    if ret < 0: ret = 1 << 60      # never returned: stays open until the end of the history
                    cur['ops'].append((inv, ret, t, op, arg, res))
                elif f[0] == 'E' and cur is not None:
                    if cur['prim'] in SPECS:
                        spec, mkinit = SPECS[cur['prim']]
                        r = linearizable(cur['ops'], spec, mkinit(cur['init']))
                        checked += 1
                        maxops = max(maxops, len(cur['ops']))
                        if r is None:
                            timeouts += 1
                        elif r is False:
                            bad += 1
                            key = '%s/history-not-linearizable' % cur['prim']
                            rp = core.write_replay('%s.lincheck.%s.%d.txt' % (ctx.prop, cur['prim'], cur['case']),
                                                   'harness=h_sync\nmode=%s\nseed=%d\ncase=%d\nkey=%s\nmsg=no sequential order of the recorded operations satisfies the %s specification\n--- history (thread op arg res inv ret tinv tret) ---\n%s'
                                                   % (cur['prim'].lower(), ctx.seed, cur['case'], key, cur['prim'], ''.join(cur['raw'])))
                            ctx.violations.append((key, rp, 'history of case %d (%d ops, %d threads) is not linearizable w.r.t. the %s specification' % (cur['case'], len(cur['ops']), cur['nthreads'], cur['prim'])))
                    cur = None
    stats['histories_linearizability_checked'] = checked
    stats['histories_not_linearizable'] = bad
    stats['lincheck_timeouts_inconclusive'] = timeouts
    stats['max_ops_in_checked_history'] = maxops
    if timeouts:
        ctx.col.inconclusive_notes = getattr(ctx.col, 'inconclusive_notes', []) + ['%d histories exceeded the linearizability search budget' % timeouts]
