#!/usr/bin/env python3
# mkmutant.py NAME FILE 'comment' < (python-literal list of (old,new) pairs on stdin) -> writes /verif/mutants/NAME.patch (diff relative to repo root)
import sys, os, subprocess, tempfile, ast
name, rel, comment = sys.argv[1], sys.argv[2], sys.argv[3]
pairs = ast.literal_eval(sys.stdin.read())
src = open(os.path.join('/repo', rel)).read()
new = src
for old, rep in pairs:
    assert old in new, 'pattern not found: %r' % old[:60]
    new = new.replace(old, rep, 1)
with tempfile.TemporaryDirectory() as d:
    os.makedirs(os.path.join(d, 'a', os.path.dirname(rel))); os.makedirs(os.path.join(d, 'b', os.path.dirname(rel)))
    open(os.path.join(d, 'a', rel), 'w').write(src); open(os.path.join(d, 'b', rel), 'w').write(new)
    r = subprocess.run(['diff', '-u', os.path.join('a', rel), os.path.join('b', rel)], cwd=d, capture_output=True, text=True)
open(os.path.join('/verif/mutants', name + '.patch'), 'w').write('# %s\n' % comment + r.stdout)
print('wrote', name)
