#!/usr/bin/env python3
# mergeresults.py - fold the partial selftest result files (selftest_results/{mutants,seeded}-*.json) into mutants.json / seeded.json:
# files are applied in order of modification time, a later result for the same mutant id replaces the earlier one.
import json, glob, os
V = '/verif/selftest_results'
for kind in ('mutants', 'seeded'):
    files = sorted(glob.glob(os.path.join(V, kind + '*.json')), key=os.path.getmtime)
    res = {}
    for f in files:
        for r in json.load(open(f)):
            r = dict(r); r['from'] = os.path.basename(f) if os.path.basename(f) != kind + '.json' else r.get('from', kind + '.json')
            res[r['mutant']] = r
    out = [res[k] for k in sorted(res)]
    json.dump(out, open(os.path.join(V, kind + '.json'), 'w'), indent=1)
    bad = [r['mutant'] + ':' + r['result'] for r in out if r['result'] != 'killed']
    print(kind, len(out), 'results,', len(out) - len(bad), 'killed; not killed:', bad)
