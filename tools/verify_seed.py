#!/usr/bin/env python3
# verify_seed.py Cxx A|B  - independently confirm a seeded change delivered by a sub-agent in /tmp/sb-out/Cxx/<AB>/ and, if confirmed, store it as
# /verif/seeded/Cxx-<AB>/ (patch.diff, demo files, meta.json with what was run here).
import sys, os, json, subprocess, shutil, glob, re, time
prop, ab = sys.argv[1], sys.argv[2]
root = sys.argv[3] if len(sys.argv) > 3 else 'sb'      # sb = round 1, sc = round 2 (directories /tmp/<root>-out, worktrees /tmp/<root>-Cxx)
suffix = {'sb': '', 'sc': '2', 'sd': '3', 'se': '4'}[root]
src = '/tmp/%s-out/%s/%s' % (root, prop, ab)
meta = json.load(open(os.path.join(src, 'meta.json')))
sid = '%s-%s%s' % (prop, ab, suffix)
clean = '/var/tmp/seedv-%s-clean' % sid
pat = '/var/tmp/seedv-%s-pat' % sid
def sh(cmd, cwd=None, timeout=1800):
    r = subprocess.run(cmd, shell=True, cwd=cwd, capture_output=True, text=True, timeout=timeout)
    return r.returncode, (r.stdout + r.stderr)[-3000:]
log = {}
try:
    for d in (clean, pat):
        shutil.rmtree(d, ignore_errors=True)
        rc, out = sh('git -C /repo worktree add -q --detach %s HEAD' % d); assert rc == 0, out
    rc, out = sh('git apply %s/patch.diff' % src, cwd=pat)
    log['patch_applies'] = rc == 0
    if rc != 0:
        log['apply_error'] = out
        raise SystemExit
    rc, out = sh('cmake -S %s -B %s/_b -DCMAKE_BUILD_TYPE=Debug >/dev/null && cmake --build %s/_b -j8 >/dev/null 2>&1 && ctest --test-dir %s/_b -j8 --timeout 600 2>&1 | tail -3' % (pat, pat, pat, pat))
    log['unit_tests_pass_with_patch'] = '100% tests passed' in out
    log['unit_tests_tail'] = out[-200:]
    cmd = re.split(r'\s{2,}\(|\s\(|\s#', meta.get('demo_build_cmd', ''))[0].strip()
    run = re.split(r'\s{2,}|\s\(|\s#|\s\[', meta.get('demo_run_cmd', './demo'))[0].strip() or './demo'
    res = {}
    for name, tree in (('patched', pat), ('clean', clean)):
        wd = '/var/tmp/seedv-%s-demo-%s' % (sid, name)
        shutil.rmtree(wd, ignore_errors=True); shutil.copytree(src, wd)
        c = re.sub(r'/tmp/%s-%s' % (root, prop), tree, cmd).replace('<worktree>', tree).replace('<wt>', tree)
        c = re.sub(r'/tmp/%s-out/%s/%s/?' % (root, prop, ab), wd + '/', c)
        if not c.strip():
            c = 'g++ -std=gnu++17 -I%s/include demo.cpp %s/src/*.cpp %s/src/*/*.cpp -lpthread -lrt -ldl -o demo' % (tree, tree, tree)
        rcb, outb = sh(c, cwd=wd)
        r2 = re.sub(r'/tmp/%s-out/%s/%s/?' % (root, prop, ab), wd + '/', run)
        r2 = re.sub(r'/tmp/%s-%s' % (root, prop), tree, r2)
        rcr, outr = sh(r2, cwd=wd, timeout=900) if rcb == 0 else (-1, 'build failed: ' + outb)
        res[name] = dict(build_rc=rcb, run_rc=rcr, tail=outr[-300:], build_cmd=c, run_cmd=r2)
        shutil.rmtree(wd, ignore_errors=True)
    log['demo'] = res
    log['demo_fails_with_patch'] = res['patched']['run_rc'] not in (0,) and res['patched']['build_rc'] == 0
    log['demo_passes_without_patch'] = res['clean']['run_rc'] == 0
finally:
    for d in (clean, pat):
        subprocess.run('git -C /repo worktree remove --force %s' % d, shell=True, capture_output=True)
        shutil.rmtree(d, ignore_errors=True)
ok = log.get('patch_applies') and log.get('unit_tests_pass_with_patch') and log.get('demo_fails_with_patch') and log.get('demo_passes_without_patch')
log['confirmed'] = bool(ok)
print(sid, 'CONFIRMED' if ok else 'NOT-CONFIRMED', {k: v for k, v in log.items() if isinstance(v, bool)})
if ok:
    dst = '/verif/seeded/%s' % sid
    shutil.rmtree(dst, ignore_errors=True); os.makedirs(dst)
    for f in os.listdir(src):
        if f not in ('demo', 'a.out') and os.path.isfile(os.path.join(src, f)) and os.path.getsize(os.path.join(src, f)) < 500000:
            shutil.copy(os.path.join(src, f), dst)
    m = dict(property=prop, id=sid, summary=meta.get('summary'), needs=meta.get('needs'), origin='fresh sub-agent given only the property text and a scratch worktree',
             confirmed_here=dict(unit_tests_pass_with_patch=True, demo_fails_with_patch=True, demo_passes_without_patch=True, commands=log['demo'], checked_at=time.strftime('%Y-%m-%d %H:%M:%S')),
             agent_meta=meta)
    json.dump(m, open(os.path.join(dst, 'meta.json'), 'w'), indent=1)
else:
    os.makedirs('/verif/selftest_results', exist_ok=True)
    json.dump(log, open('/verif/selftest_results/seed-unconfirmed-%s.json' % sid, 'w'), indent=1)
