#!/bin/bash
# tools/runall.sh [quick|thorough] [seed]  - run every registered check against /repo, print one line per check
tier=${1:-quick}; seed=${2:-1}; cd /verif; fail=0
for i in $(seq -w 1 20); do
  out=$(VERIF_SEED=$seed ./check C$i --tier $tier 2>&1); rc=$?
  echo "rc=$rc $(echo "$out" | grep -v '^@\|^NOTE' | tail -1)"
  [ $rc -ne 0 ] && { fail=1; echo "$out" | tail -8; }
done
exit $fail
