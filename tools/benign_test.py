#!/usr/bin/env python3
# benign_test.py [area ...] - apply each behaviour-preserving patch /verif/benign/<area>/R<i>/patch.diff to a scratch copy of /repo and run the related
# quick checks against it: every check must exit 0 (exit 1 = false alarm of the machinery, exit 2 = fragility: the harness depends on an unobservable detail)
import os, sys, json, glob, shutil, subprocess, hashlib, re, time
V = '/verif'
MAP = {'containers-tree': ['C01', 'C04', 'C05'], 'containers-hash': ['C02', 'C04', 'C05'], 'containers-seq': ['C03', 'C04', 'C05'], 'string': ['C06', 'C09', 'C18', 'C02'],
       'variant-buffer': ['C07', 'C08', 'C09', 'C13'], 'callback': ['C12'], 'future-sync': ['C10', 'C11'], 'server': ['C13', 'C14'], 'documents': ['C15', 'C16'],
       'crypto-codec': ['C17', 'C18'], 'fs-process': ['C19', 'C20']}
areas = [a for a in sys.argv[1:] if not a.startswith('--')] or sorted(MAP)
results = []
for area in areas:
    for pd in sorted(glob.glob(os.path.join(V, 'benign', area, 'R*', 'patch.diff'))):
        name = '%s/%s' % (area, os.path.basename(os.path.dirname(pd)))
        scratch = '/var/tmp/verif-benign-%d' % os.getpid()
        shutil.rmtree(scratch, ignore_errors=True); os.makedirs(scratch)
        try:
            for d in ('include', 'src'):
                shutil.copytree(os.path.join('/repo', d), os.path.join(scratch, d))
            r = subprocess.run(['patch', '-p1', '--no-backup-if-mismatch', '-s', '-i', pd], cwd=scratch, capture_output=True, text=True)
            if r.returncode != 0:
                results.append(dict(change=name, result='patch-failed')); print(name, 'patch-failed'); continue
            for prop in MAP[area]:
                t0 = time.time()
                r = subprocess.run([os.path.join(V, 'check'), prop, '--tier', 'quick'], cwd=V, env=dict(os.environ, VERIF_REPO=scratch), capture_output=True, text=True)
                keys = re.findall(r'violation key=(\S+)', r.stdout)
                res = dict(change=name, property=prop, rc=r.returncode, keys=keys[:4], wall_s=round(time.time() - t0, 1), tail=r.stdout[-600:] if r.returncode else '')
                results.append(res)
                print('%-28s %s rc=%d %s' % (name, prop, r.returncode, ','.join(keys)[:160]), flush=True)
        finally:
            shutil.rmtree(scratch, ignore_errors=True)
            h = hashlib.sha256(scratch.encode()).hexdigest()[:10]
            shutil.rmtree(os.path.join(V, '.build', 'alt-' + h), ignore_errors=True)
            shutil.rmtree(os.path.join(V, 'replays', 'alt-' + h), ignore_errors=True)
os.makedirs(os.path.join(V, 'selftest_results'), exist_ok=True)
out = os.path.join(V, 'selftest_results', 'benign' + ('-' + '-'.join(areas) if len(areas) < len(MAP) else '') + '.json')
json.dump(results, open(out, 'w'), indent=1)
bad = [r for r in results if r.get('rc', 1) != 0]
print('%d runs, %d not clean' % (len(results), len(bad)))
sys.exit(1 if bad else 0)
