// h_callback.cpp - C12: Callback signals reach exactly the connected slots, safely under re-entrancy; bookkeeping describes exactly the live connections.
//
// A case is a random *program*: a tree of actions (connect / disconnect / emit / destroy listener / destroy emitter / recreate, plus actions focused on
// "the connection whose slot is running": self-disconnect, disconnect-connect-... sequences on one connection, destroy own listener, destroy the emitter
// that is emitting, recursive emission, duplicate connect). Every slot invocation draws its nested actions from the same seeded stream (emission depth <= 4).
// All emitters and listeners are heap objects that are really deleted.
//
// Lockstep model (deliberately dumb): per (emitter object, signal) an ordered list of connection records {listener, slot, serial, live}.
//   connect    appends a record (duplicates are separate records, exactly as Callback::connect appends a Slot)
//   disconnect kills the oldest live record of that (listener, slot) (the code removes the first match)
//   destroying a listener / an emitter kills all its records
//   an emission of (e, s) visits, in list order, the records that are live at their turn and whose serial is older than the start of the outermost emission
//   of (e, s) still in progress; it stops for good when e is destroyed.
// Every slot entry is compared with the model's next expected record; the end of every emission is compared with "nothing left to expect".
// Before the remaining objects of a case are destroyed every signal that ever had a connection is emitted once more at top level without nested actions
// (final sweep): a record the library kept, lost or reordered against the model becomes a wrong / missing / misordered invocation there at the latest.
// Two build flavours (HARNESS_GUIDE "Robustness against behaviour-preserving changes"):
//  * normal (-fno-access-control): at quiescent points (no emission in progress, after every top-level action) Emitter::signalData and Listener::slotData are
//    walked and compared with the model's live records (emitter side as a sequence: it is the invocation order; listener side as a multiset). The walk is
//    container-agnostic (auto iterators: begin/end/++/key()/operator* only) and asks for nothing the property does not state: the records that are not marked
//    disconnected must be exactly the live connections, in connection order. Records marked disconnected (tombstones awaiting the deferred clean-up) describe no
//    connection and are ignored whenever they are met; a dirty flag that is still set and a record still in state connecting while that flag is set are pending
//    clean-up, not a divergence (the exact moment of the deferred clean-up is not observable); both are only counted.
//    During emissions the same walk runs in a relaxed, implementation-aware form only to *attribute* a later verdict to the API call after which the
//    structures first diverged (it never produces a verdict itself).
//  * fallback (-DVERIF_NO_PRIVATE, no -fno-access-control): everything that names private/protected library state is compiled out. All public-API oracles stay on
//    (lockstep model of slot invocations: exact listener, slot, order, arguments; nothing after disconnect/destroy; ASan on really deleted listeners/emitters; the
//    final sweep). The bookkeeping clause is then checked only indirectly - through what later emissions and destructions do - which the evidence states in the
//    set bookkeeping_clause and the counter quiescent_points_bookkeeping_checked_only_indirectly.
// Arities: Callback.hpp has nine separate copies of emit() (0..8 arguments, each with its own slot-iteration loop) and nine connect()/disconnect()
// templates. The harness emitter class has nine signals sig0..sig8 and the listener class two slots per arity (a0/b0 .. a8/b8, bK virtual). The model keeps
// signal *indexes* per emitter object; which of the signals stands behind an index is drawn per emitter object (recreated emitters draw again; see
// "Twin signals" below), so one program mixes arities across emitters and the same signal key lives on several emitters. An emission with
// sequence number q passes the value q*16+p as argument p (types by position: Elem, long, int, Elem, u64, double, const Elem&, const long*); every slot
// compares every argument it received. Per-arity observation counters are kept locally and flushed at the end (emit/connect/disconnect/invoked/... _arity_K).
// Twin signals: every arity has a SECOND signal member with the same signature (sigKb next to sigK, 18 signal keys in all) and every emitter object has three
// signal indexes (random tuples use the first NS = 1..3 of them; the "connect-again" action may connect the focus slot to a twin signal beyond NS). Which signal stands behind an index is drawn per emitter object from the seeded stream
// (drawSignals): an index is either a fresh arity or the twin of an earlier index, and a case may restrict the arities to a palette of 2..3 so that several
// emitters carry signals of the same arity. The listener slots aK/bK fit both sigK and sigKb, hence the SAME listener slot gets connected to two different
// signals of ONE emitter and to same-arity signals of different emitters. The listener keeps one (signal, slot) list per emitter for all of that emitter's
// signals: the listener-side walker compares it per emitter AND signal AND slot, the emitter-side walker per signal (counters same_slot_on_two_signals_of_one_emitter,
// disconnect_slot_also_on_other_signal_of_emitter, ... and the set signal_event).
// Class shapes: the public connect()/disconnect() templates take the emitter / receiver as V* / W* and the signal / slot as members of X / Y; the harness instantiates
// them with five receiver-class shapes and two emitter-class shapes (see "class shapes" below: slot / signal declared in the class itself, in the primary base, in a
// secondary base at a non-zero offset, overridden virtual slots, ...) and, for derived objects, with pointers to the complete object or to the base class. Random
// programs draw a shape per object; the model, the oracles and the walks are the same for all shapes (counters listener_shape_*, emitter_shape_*).
// modes: programs (random programs, replay: --start <idx> --cases 1; --start -1 replays the scripted regression scenarios, each for every arity),
//        exhMN (every program of the small-scope space 2*8^M*10^N on the 0-argument signal, see exhaustivePrograms),
//        exhMNx (the same space for each of the nine arities: case index = program*9 + arity), --probe <key> for the two confirmed defects.
#include "vh.hpp"
#include <nstd/Callback.hpp>

using namespace vh;

// ------------------------------------------------------------------------------------------------ harness classes
enum { NAR = 9, NSIGS = 2 * NAR };   // arities 0..8; signal id = arity * 2 + variant (variant 1 = the twin member sigKb with the same signature as sigK)
// self = the object the model identifies the listener by (its Li subobject), bodyThis = the `this` the slot body ran with, body = 0: a slot body of class Li,
// 1: a slot body of a class derived from Li (an overrider of a virtual Li slot, or a slot the receiver class declares itself)
static void onSlotAt(void* self, void* bodyThis, int body, int arity, int which, const long* vals);
static inline void onSlot(void* self, int arity, int which, const long* vals) { onSlotAt(self, self, 0, arity, which, vals); }
static inline long argVal(long seq, int p) { return seq * 16 + p; }   // value of argument p of the emission with sequence number seq
static inline long useElem(const Elem& a) { ElemReg::onUse(&a, a.id, "slot-argument"); return a.id; }

// argument types by position; TLk = type list, PLk = parameter list, VLk = the received values as longs, ALk = the actual arguments of an emission,
// DLk = the locals an emission of arity k needs (tracked Elems are only constructed for the arities that pass them)
#define TL0
#define TL1 Elem
#define TL2 TL1, long
#define TL3 TL2, int
#define TL4 TL3, Elem
#define TL5 TL4, u64
#define TL6 TL5, double
#define TL7 TL6, const Elem&
#define TL8 TL7, const long*
#define PL0
#define PL1 Elem p0
#define PL2 PL1, long p1
#define PL3 PL2, int p2
#define PL4 PL3, Elem p3
#define PL5 PL4, u64 p4
#define PL6 PL5, double p5
#define PL7 PL6, const Elem& p6
#define PL8 PL7, const long* p7
#define VL0 0
#define VL1 useElem(p0)
#define VL2 VL1, p1
#define VL3 VL2, (long)p2
#define VL4 VL3, useElem(p3)
#define VL5 VL4, (long)p4
#define VL6 VL5, (long)p5
#define VL7 VL6, useElem(p6)
#define VL8 VL7, *p7
#define AL1 e0
#define AL2 AL1, argVal(seq, 1)
#define AL3 AL2, (int)argVal(seq, 2)
#define AL4 AL3, e3
#define AL5 AL4, (u64)argVal(seq, 4)
#define AL6 AL5, (double)argVal(seq, 5)
#define AL7 AL6, e6
#define AL8 AL7, &m7
#define DL1 Elem e0(argVal(seq, 0));
#define DL2 DL1
#define DL3 DL1
#define DL4 DL1 Elem e3(argVal(seq, 3));
#define DL5 DL4
#define DL6 DL4
#define DL7 DL4 Elem e6(argVal(seq, 6));
#define DL8 DL7 long m7 = argVal(seq, 7);
#define FOR_ARITIES_1_8(X) X(1) X(2) X(3) X(4) X(5) X(6) X(7) X(8)
#define FOR_ARITIES(X) X(0) FOR_ARITIES_1_8(X)

// deliberately not polymorphic: Emitter::emit calls slots through ((X*)object)->*ptr with X = the *emitter* class (type erasure by cast), see report
struct Em : Callback::Emitter {
  long tag;
  explicit Em(long t) : tag(t) {}
  // fireK never touches *this after emit returns: the emitter may have been deleted by a slot (the argument locals live in fireK's own frame)
  void sig0() {}
  void sig0b() {}
  void fire0(long) { emit<Em>(&Em::sig0); }
  void fire0b(long) { emit<Em>(&Em::sig0b); }
#define EM_MEMBERS(K) void sig##K(TL##K) {} void fire##K(long seq) { DL##K emit<Em, TL##K>(&Em::sig##K, AL##K); } \
                      void sig##K##b(TL##K) {} void fire##K##b(long seq) { DL##K emit<Em, TL##K>(&Em::sig##K##b, AL##K); }
  FOR_ARITIES_1_8(EM_MEMBERS)
#undef EM_MEMBERS
};

// Listener is the second base: the Listener* (receiver) and the object pointer differ
struct Pad { long magic; Pad() : magic(0x600d) {} virtual ~Pad() { magic = 0xdead; } };
struct Li : Pad, Callback::Listener {
  long tag;
  explicit Li(long t) : tag(t) {}
  // slots never touch *this: the listener may be deleted by a nested action while its slot is still running
#define LI_SLOTS(K) void a##K(PL##K) { long v[8] = { VL##K }; onSlot(this, K, 0, v); } virtual void b##K(PL##K) { long v[8] = { VL##K }; onSlot(this, K, 1, v); }
  FOR_ARITIES(LI_SLOTS)
#undef LI_SLOTS
};

// ---- class shapes (receiver / emitter types the public connect()/disconnect() templates are instantiated with: V* src, void (X::*signal)(..), W* dest, void (Y::*slot)(..))
// Listener shapes: where the slot's declaring class Y sits inside the receiver class W, and which function body a slot pointer reaches.
//   own                          W = Y = Li                                   (the shape every history ran on before)
//   primary-base                 W = LiP : Li              Y = Li at offset 0 in W (control: same addresses, different W)
//   secondary-base               W = LiS : Model, Li       Y = Li at a NON-ZERO offset in W (slots a: plain, b: virtual, not overridden)
//   secondary-base-overridden    W = LiO : Model, Li       as before, but W overrides every virtual slot bK: &Li::bK must reach LiO::bK with this = the LiO object
//   own-behind-secondary-base    W = Y = LiD : Model, Li   W declares its own slots (cK plain, dK virtual; they stand for "a"/"b" of that listener); the Listener base
//                                                          sits behind a secondary base of W
// Emitter shapes: own (V = X = Em), secondary-base (V = EmS : PadNP, Em; the signal's declaring class X = Em at a non-zero offset in V; not polymorphic, see Em).
// In every shape the model identifies a listener by its Li subobject (LiM::obj) and an emitter by its Em subobject (EmM::obj); LiM::top / EmM::top is the complete
// object, which is what connect()/disconnect() are called with and what is deleted.
enum { LS_OWN = 0, LS_PRIMARY, LS_SECONDARY, LS_SECONDARY_OVERRIDE, LS_SECONDARY_OWN, NLS };
static const char* const LSN[NLS] = { "own", "primary-base", "secondary-base", "secondary-base-overridden", "own-behind-secondary-base" };
enum { ES_OWN = 0, ES_SECONDARY, NES };
static const char* const ESN[NES] = { "own", "secondary-base" };
struct Model { long m0, m1; Model() : m0(0x4d4f44), m1(0x454c) {} virtual ~Model() { m0 = 0xdead; } virtual long poke() { return m0; } };
struct LiP : Li { long extra; explicit LiP(long t) : Li(t), extra(~t) {} };
struct LiS : Model, Li { long extra; explicit LiS(long t) : Li(t), extra(~t) {} };
struct LiO : Model, Li {
  long extra; explicit LiO(long t) : Li(t), extra(~t) {}
#define LIO_SLOTS(K) void b##K(PL##K) override { long v[8] = { VL##K }; onSlotAt(static_cast<Li*>(this), this, 1, K, 1, v); }
  FOR_ARITIES(LIO_SLOTS)
#undef LIO_SLOTS
};
struct LiD : Model, Li {
  long extra; explicit LiD(long t) : Li(t), extra(~t) {}
#define LID_SLOTS(K) void c##K(PL##K) { long v[8] = { VL##K }; onSlotAt(static_cast<Li*>(this), this, 1, K, 0, v); } virtual void d##K(PL##K) { long v[8] = { VL##K }; onSlotAt(static_cast<Li*>(this), this, 1, K, 1, v); }
  FOR_ARITIES(LID_SLOTS)
#undef LID_SLOTS
};
struct PadNP { long p0, p1; PadNP() : p0(0x504144), p1(0x4e50) {} };
struct EmS : PadNP, Em { long extra; explicit EmS(long t) : Em(t), extra(~t) {} };

#define NAMES(K) "sig" #K, "sig" #K "b",
static const char* const SIGN18[NSIGS] = { FOR_ARITIES(NAMES) };   // by signal id
#undef NAMES
#define NAMES(K) { "a" #K, "b" #K },
static const char* const SLOTN9[NAR][2] = { FOR_ARITIES(NAMES) };
#undef NAMES

#ifndef VERIF_NO_PRIVATE
// the library's own (private) key type: only the structure walkers need it
static Callback::MemberFuncPtr sigKey(int sid) {
  switch (sid) {
#define CASE(K) case 2 * K: return Callback::MemberFuncPtr(&Em::sig##K); case 2 * K + 1: return Callback::MemberFuncPtr(&Em::sig##K##b);
  FOR_ARITIES(CASE)
#undef CASE
  }
  harnessBug("sigKey: signal id %d", sid);
}
// How a connection to slot `slot` (declared in class Y) of a receiver object of class W may be recorded: as (Y subobject, slot as a member of Y) - what the code
// does - or as (the W object, slot converted to a member of W); both reach the same function with the same `this`, and a library that used either form consistently
// in connect() and disconnect() would keep the property. The walkers accept both (where Y sits at offset 0 in W the two coincide).
struct SlotForms { Callback::MemberFuncPtr key[2]; void* obj[2]; bool differ; };
template <class W, class Y, typename... A> static SlotForms formsOf(void* top, void (Y::*slot)(A...)) {
  SlotForms f; W* w = static_cast<W*>(top); Y* y = w; void (W::*ws)(A...) = slot;
  f.key[0] = Callback::MemberFuncPtr(slot); f.obj[0] = y; f.key[1] = Callback::MemberFuncPtr(ws); f.obj[1] = w;
  f.differ = (void*)y != (void*)w || memcmp(&f.key[0].ptr, &f.key[1].ptr, sizeof f.key[0].ptr) != 0;
  return f;
}
static SlotForms slotForms(int shape, void* top, int k, int which) {
  switch (k) {
#define CASE(K) case K: switch (shape) { \
    case LS_OWN: return formsOf<Li>(top, which == 0 ? &Li::a##K : &Li::b##K); \
    case LS_PRIMARY: return formsOf<LiP>(top, which == 0 ? &Li::a##K : &Li::b##K); \
    case LS_SECONDARY: return formsOf<LiS>(top, which == 0 ? &Li::a##K : &Li::b##K); \
    case LS_SECONDARY_OVERRIDE: return formsOf<LiO>(top, which == 0 ? &Li::a##K : &Li::b##K); \
    case LS_SECONDARY_OWN: return formsOf<LiD>(top, which == 0 ? &LiD::c##K : &LiD::d##K); } break;
  FOR_ARITIES(CASE)
#undef CASE
  }
  harnessBug("slotForms: shape %d arity %d", shape, k);
}
#endif
// the object representation of a pointer to member function (what any implementation has to go by to tell signals and slots apart); public API only
struct RawKey { unsigned char b[48]; size_t n; };
template <typename M> static RawKey rawKey(M m) {
  RawKey k; memset(k.b, 0, sizeof k.b); k.n = sizeof(M);
  if (sizeof(M) > sizeof k.b) harnessBug("rawKey: pointer to member of %lu bytes", (unsigned long)sizeof(M));
  memcpy(k.b, &m, sizeof(M)); return k;
}
static bool sameKey(const RawKey& a, const RawKey& b) { return a.n == b.n && !memcmp(a.b, b.b, a.n); }
static RawKey rawSigKey(int sid) {
  switch (sid) {
#define CASE(K) case 2 * K: return rawKey(&Em::sig##K); case 2 * K + 1: return rawKey(&Em::sig##K##b);
  FOR_ARITIES(CASE)
#undef CASE
  }
  harnessBug("rawSigKey: signal id %d", sid);
}
static RawKey rawSlotKey(int k, int which, bool ownD = false) {   // ownD: the slots class LiD declares itself
  switch (k) {
#define CASE(K) case K: return ownD ? (which == 0 ? rawKey(&LiD::c##K) : rawKey(&LiD::d##K)) : which == 0 ? rawKey(&Li::a##K) : rawKey(&Li::b##K);
  FOR_ARITIES(CASE)
#undef CASE
  }
  harnessBug("rawSlotKey: arity %d", k);
}
// the public templates, instantiated for every (emitter class V, receiver class W) pair; ViaLi: the slots are named as members of Li (Y = Li whatever W is),
// ViaLiD: the slots class LiD declares itself (Y = W = LiD)
struct ViaLi {
#define OPS(K) template <class V, class W> static void conn##K(V* e, void (Em::*s)(TL##K), W* l, int which) { if (which == 0) Callback::connect(e, s, l, &Li::a##K); else Callback::connect(e, s, l, &Li::b##K); } \
               template <class V, class W> static void disc##K(V* e, void (Em::*s)(TL##K), W* l, int which) { if (which == 0) Callback::disconnect(e, s, l, &Li::a##K); else Callback::disconnect(e, s, l, &Li::b##K); }
  FOR_ARITIES(OPS)
#undef OPS
};
struct ViaLiD {
#define OPS(K) template <class V, class W> static void conn##K(V* e, void (Em::*s)(TL##K), W* l, int which) { if (which == 0) Callback::connect(e, s, l, &LiD::c##K); else Callback::connect(e, s, l, &LiD::d##K); } \
               template <class V, class W> static void disc##K(V* e, void (Em::*s)(TL##K), W* l, int which) { if (which == 0) Callback::disconnect(e, s, l, &LiD::c##K); else Callback::disconnect(e, s, l, &LiD::d##K); }
  FOR_ARITIES(OPS)
#undef OPS
};
template <class P, class V, class W> static void connectVW(V* e, int sid, W* l, int which) {
  switch (sid) {
#define CASE(K) case 2 * K: P::conn##K(e, &Em::sig##K, l, which); return; case 2 * K + 1: P::conn##K(e, &Em::sig##K##b, l, which); return;
  FOR_ARITIES(CASE)
#undef CASE
  }
  harnessBug("connect: signal id %d", sid);
}
template <class P, class V, class W> static void disconnectVW(V* e, int sid, W* l, int which) {
  switch (sid) {
#define CASE(K) case 2 * K: P::disc##K(e, &Em::sig##K, l, which); return; case 2 * K + 1: P::disc##K(e, &Em::sig##K##b, l, which); return;
  FOR_ARITIES(CASE)
#undef CASE
  }
  harnessBug("disconnect: signal id %d", sid);
}
template <class V> static void connectV(V* e, int sid, int lshape, void* ltop, int which) {
  switch (lshape) {
  case LS_OWN: connectVW<ViaLi>(e, sid, static_cast<Li*>(ltop), which); return;
  case LS_PRIMARY: connectVW<ViaLi>(e, sid, static_cast<LiP*>(ltop), which); return;
  case LS_SECONDARY: connectVW<ViaLi>(e, sid, static_cast<LiS*>(ltop), which); return;
  case LS_SECONDARY_OVERRIDE: connectVW<ViaLi>(e, sid, static_cast<LiO*>(ltop), which); return;
  case LS_SECONDARY_OWN: connectVW<ViaLiD>(e, sid, static_cast<LiD*>(ltop), which); return;
  }
  harnessBug("connect: listener shape %d", lshape);
}
template <class V> static void disconnectV(V* e, int sid, int lshape, void* ltop, int which) {
  switch (lshape) {
  case LS_OWN: disconnectVW<ViaLi>(e, sid, static_cast<Li*>(ltop), which); return;
  case LS_PRIMARY: disconnectVW<ViaLi>(e, sid, static_cast<LiP*>(ltop), which); return;
  case LS_SECONDARY: disconnectVW<ViaLi>(e, sid, static_cast<LiS*>(ltop), which); return;
  case LS_SECONDARY_OVERRIDE: disconnectVW<ViaLi>(e, sid, static_cast<LiO*>(ltop), which); return;
  case LS_SECONDARY_OWN: disconnectVW<ViaLiD>(e, sid, static_cast<LiD*>(ltop), which); return;
  }
  harnessBug("disconnect: listener shape %d", lshape);
}
// etop / ltop: the complete objects (exactly the pointers they were created as)
static void realConnect(int eshape, void* etop, int sid, int lshape, void* ltop, int which) {
  if (eshape == ES_OWN) connectV(static_cast<Em*>(etop), sid, lshape, ltop, which); else if (eshape == ES_SECONDARY) connectV(static_cast<EmS*>(etop), sid, lshape, ltop, which); else harnessBug("connect: emitter shape %d", eshape);
}
static void realDisconnect(int eshape, void* etop, int sid, int lshape, void* ltop, int which) {
  if (eshape == ES_OWN) disconnectV(static_cast<Em*>(etop), sid, lshape, ltop, which); else if (eshape == ES_SECONDARY) disconnectV(static_cast<EmS*>(etop), sid, lshape, ltop, which); else harnessBug("disconnect: emitter shape %d", eshape);
}
static void realEmit(Em* e, int sid, long seq) {
  switch (sid) {
#define CASE(K) case 2 * K: e->fire##K(seq); return; case 2 * K + 1: e->fire##K##b(seq); return;
  FOR_ARITIES(CASE)
#undef CASE
  }
  harnessBug("realEmit: signal id %d", sid);
}
// the model identifies signals and slots by their keys: all of them must be pairwise distinct
static void checkKeysDistinct() {
  for (int a = 0; a < NSIGS; ++a) for (int b = a + 1; b < NSIGS; ++b) if (sameKey(rawSigKey(a), rawSigKey(b))) harnessBug("signal keys of %s and %s coincide", SIGN18[a], SIGN18[b]);
  for (int a = 0; a < 2 * NAR; ++a) for (int b = a + 1; b < 2 * NAR; ++b) if (sameKey(rawSlotKey(a / 2, a % 2), rawSlotKey(b / 2, b % 2))) harnessBug("slot keys %s and %s coincide", SLOTN9[a / 2][a % 2], SLOTN9[b / 2][b % 2]);
  for (int a = 0; a < 2 * NAR; ++a) for (int b = a + 1; b < 2 * NAR; ++b) if (sameKey(rawSlotKey(a / 2, a % 2, true), rawSlotKey(b / 2, b % 2, true))) harnessBug("slot keys of class LiD coincide (%d, %d)", a, b);
#ifndef VERIF_NO_PRIVATE
  for (int a = 0; a < NSIGS; ++a) for (int b = a + 1; b < NSIGS; ++b) if (sigKey(a) == sigKey(b)) harnessBug("library signal keys of %s and %s coincide", SIGN18[a], SIGN18[b]);
  // per listener shape: the keys of the slots of one listener must be pairwise distinct in either form (probe objects; nothing is connected to them)
  Li o0(0); LiP o1(0); LiS o2(0); LiO o3(0); LiD o4(0); void* tops[NLS] = { &o0, &o1, &o2, &o3, &o4 };
  for (int sh = 0; sh < NLS; ++sh) for (int f = 0; f < 2; ++f) for (int a = 0; a < 2 * NAR; ++a) for (int b = a + 1; b < 2 * NAR; ++b)
    if (slotForms(sh, tops[sh], a / 2, a % 2).key[f] == slotForms(sh, tops[sh], b / 2, b % 2).key[f]) harnessBug("library slot keys %s and %s coincide (listener shape %s, form %d)", SLOTN9[a / 2][a % 2], SLOTN9[b / 2][b % 2], LSN[sh], f);
  if (!slotForms(LS_SECONDARY, tops[LS_SECONDARY], 0, 0).differ || slotForms(LS_PRIMARY, tops[LS_PRIMARY], 0, 0).differ) harnessBug("listener shapes: Li is expected at a non-zero offset in LiS and at offset 0 in LiP");
#endif
  { LiS s(0); LiO o(0); LiD d(0); LiP p(0); EmS e(0);
    if ((void*)static_cast<Li*>(&s) == (void*)&s || (void*)static_cast<Li*>(&o) == (void*)&o || (void*)static_cast<Li*>(&d) == (void*)&d || (void*)static_cast<Li*>(&p) != (void*)&p || (void*)static_cast<Em*>(&e) == (void*)&e)
      harnessBug("class shapes: the secondary bases are expected at a non-zero offset, the primary base at offset 0"); }
}

// per-arity observations (kept locally: vh::cnt is a linear search; flushed by flushArityStats)
enum ArEv { AE_EMIT = 0, AE_EMIT_RECURSIVE, AE_CONNECT, AE_CONNECT_SIGNAL_EMITTING, AE_DISCONNECT, AE_DISCONNECT_SIGNAL_EMITTING, AE_INVOKED, AE_ARGUMENTS_COMPARED,
            AE_PASSED_OVER, AE_PENDING_DROPPED, AE_ENDED_BY_EMITTER_DESTRUCTION, NAE };
static const char* const AEN[NAE] = { "emit", "emit_recursive", "connect", "connect_signal_emitting", "disconnect", "disconnect_signal_emitting", "invoked", "arguments_compared",
                                      "passed_over_connected_during_emission", "pending_slot_dropped_before_its_turn", "emission_ended_by_emitter_destruction" };
static long g_ar[NAR][NAE];
static inline void arEv(int k, int ev, long n = 1) { g_ar[k][ev] += n; }
// per-signal observations (18 signal keys): which signal members were emitted / connected / disconnected / reached a slot
enum SgEv { SE_EMIT = 0, SE_CONNECT, SE_DISCONNECT, SE_INVOKED, NSE };
static const char* const SEN[NSE] = { "emit", "connect", "disconnect", "invoked" };
static long g_sg[NSIGS][NSE];
static inline void sgEv(int sid, int ev) { ++g_sg[sid][ev]; }
// per-class-shape observations (listener shapes LSN, emitter shapes ESN): the same events on every shape, so that "ran" is not confused with "observed on that shape"
enum LsEv { LE_CREATE = 0, LE_CONNECT, LE_CONNECT_SIGNAL_EMITTING, LE_DISCONNECT_LIVE, LE_DISCONNECT_LIVE_SIGNAL_EMITTING, LE_DISCONNECT_OTHER_POINTER_TYPE, LE_RECONNECT_AFTER_DISCONNECT, LE_INVOKED, LE_INVOKED_VIRTUAL_SLOT,
            LE_INVOKED_DERIVED_BODY, LE_SILENT_AFTER_DISCONNECT, LE_DESTROY_CONNECTED, LE_DESTROY_IN_OWN_SLOT, LE_WALK_RECORD, LE_WALK_RECORD_RECEIVER_FORM, NLE };
static const char* const LEN[NLE] = { "create", "connect", "connect_signal_emitting", "disconnect_live", "disconnect_live_signal_emitting", "disconnect_live_via_other_pointer_type", "reconnect_after_disconnect", "invoked", "invoked_virtual_slot",
                                      "invoked_body_of_derived_class", "emission_completed_without_disconnected_slot", "destroy_connected", "destroy_in_own_slot", "emitter_side_records_matched_by_walks",
                                      "emitter_side_records_in_receiver_class_form" };
static long g_ls[NLS][NLE];
static inline void lsEv(int shape, int ev, long n = 1) { g_ls[shape][ev] += n; }
enum EsEv { EE_CREATE = 0, EE_CONNECT, EE_DISCONNECT_LIVE, EE_EMIT, EE_EMIT_RECURSIVE, EE_INVOKED, EE_DESTROY_CONNECTED, EE_DESTROY_WHILE_EMITTING, NEE };
static const char* const EEN[NEE] = { "create", "connect", "disconnect_live", "emit", "emit_recursive", "invoked", "destroy_connected", "destroy_while_emitting" };
static long g_es[NES][NEE];
static inline void esEv(int shape, int ev) { ++g_es[shape][ev]; }
static long g_pairInvoked[NES][NLS];   // invocations by (emitter shape, listener shape)
static void flushShapeStats() {
  char nm[128], it[128];
  for (int sh = 0; sh < NLS; ++sh) for (int ev = 0; ev < NLE; ++ev) {
    if (!g_ls[sh][ev]) continue;
    snprintf(nm, sizeof nm, "listener_shape_%s_%s", LSN[sh], LEN[ev]); for (char* c = nm; *c; ++c) if (*c == '-') *c = '_';
    cnt(nm, g_ls[sh][ev]); snprintf(it, sizeof it, "%s/%s", LSN[sh], LEN[ev]); setItem("listener_shape_event", it);
    if (sh != LS_OWN) { snprintf(nm, sizeof nm, "listener_shapes_other_than_own_%s", LEN[ev]); cnt(nm, g_ls[sh][ev]); }
    g_ls[sh][ev] = 0;
  }
  for (int sh = 0; sh < NES; ++sh) for (int ev = 0; ev < NEE; ++ev) {
    if (!g_es[sh][ev]) continue;
    snprintf(nm, sizeof nm, "emitter_shape_%s_%s", ESN[sh], EEN[ev]); for (char* c = nm; *c; ++c) if (*c == '-') *c = '_';
    cnt(nm, g_es[sh][ev]); snprintf(it, sizeof it, "%s/%s", ESN[sh], EEN[ev]); setItem("emitter_shape_event", it);
    g_es[sh][ev] = 0;
  }
  for (int a = 0; a < NES; ++a) for (int b = 0; b < NLS; ++b) if (g_pairInvoked[a][b]) { snprintf(it, sizeof it, "emitter:%s/listener:%s", ESN[a], LSN[b]); setItem("shape_pair_invoked", it); g_pairInvoked[a][b] = 0; }
}
static void flushArityStats() {
  for (int sid = 0; sid < NSIGS; ++sid) for (int ev = 0; ev < NSE; ++ev) {
    if (!g_sg[sid][ev]) continue;
    char it[96]; snprintf(it, sizeof it, "%s/%s", SIGN18[sid], SEN[ev]); setItem("signal_event", it);
    if (sid & 1) { char nm[96]; snprintf(nm, sizeof nm, "%s_twin_signal", SEN[ev]); cnt(nm, g_sg[sid][ev]); }
    g_sg[sid][ev] = 0;
  }
  for (int k = 0; k < NAR; ++k) for (int ev = 0; ev < NAE; ++ev) {
    if (!g_ar[k][ev]) continue;
    char nm[96]; snprintf(nm, sizeof nm, "%s_arity_%d", AEN[ev], k); cnt(nm, g_ar[k][ev]);
    char it[96]; snprintf(it, sizeof it, "%d", k);
    if (ev == AE_EMIT) setItem("emit_arities", it); else if (ev == AE_CONNECT) setItem("connect_arities", it); else if (ev == AE_DISCONNECT) setItem("disconnect_arities", it);
    snprintf(it, sizeof it, "%d/%s", k, AEN[ev]); setItem("arity_event", it);
    g_ar[k][ev] = 0;
  }
}

// ------------------------------------------------------------------------------------------------ model
enum { MAXE = 3, MAXL = 4, MAXS = 3 };   // MAXS = signal indexes per emitter object
enum Why { W_LIVE = 0, W_DISC_QUIESCENT, W_DISC_EMITTING, W_LISTENER_DESTROYED, W_EMITTER_DESTROYED };
struct LiM { int idx; long gen; Li* obj; bool live; int shape; void* top; size_t topSize; Vec<u64> discKeys;   // discKeys: (emitter generation, signal index, slot) of connections of this listener that were disconnected (reconnect observation)
    // obj = the Li subobject (identity of the listener), top = the complete object of class LSN[shape], topSize = its size
#ifndef VERIF_NO_PRIVATE
  SlotForms forms[NAR][2];   // by arity and slot a/b
#endif
};
struct Rec { LiM* l; int which; u64 serial; bool live; int why; u64 diedAt; bool viaBaseL, viaBaseE; };   // viaBase*: connect() was called with a pointer to the base class Li / Em instead of the complete object
struct EmM { int idx; long gen; Em* obj; bool live; int shape; void* top; long discPending[MAXS][NLS]; int sid[MAXS]; int ar[MAXS]; int depth[MAXS]; u64 outerStart[MAXS]; bool everConn[MAXS]; Vec<Rec> recs[MAXS]; };   // everConn[s] = connect() was called for signal index s of this object; sid[s] = signal id (which of the 18 signal members) behind signal index s, ar[s] = sid[s] / 2 = its arity
#define SN(e, sig) SIGN18[(e)->sid[sig]]
#define LN(e, sig, which) SLOTN9[(e)->ar[sig]][which]
struct Frame { EmM* e; int sig; size_t pos; long arg; long invoked; u64 startClock; };
struct SlotCtx { EmM* e; int sig; LiM* l; int which; };

enum Kind { K_CONNECT = 0, K_DISCONNECT, K_EMIT, K_DESTROY_L, K_DESTROY_E, K_RECREATE,
            K_FOCUS_DISC, K_FOCUS_SEQ, K_FOCUS_DESTROY_L, K_FOCUS_DESTROY_E, K_FOCUS_EMIT, K_FOCUS_CONNECT, NKINDS };
static const char* const KINDN[NKINDS] = { "connect", "disconnect", "emit", "destroy-listener", "destroy-emitter", "recreate",
                                           "self-disconnect", "self-sequence", "destroy-own-listener", "destroy-current-emitter", "recursive-emit", "connect-again" };

struct G {
  Rng r;
  int NE, NL, NS, NW;
  EmM* em[MAXE]; LiM* li[MAXL];
  Vec<EmM*> allE; Vec<LiM*> allL;
  Vec<Frame> frames;
  u64 serial, clock; long gen, argSeq;
  int w[NKINDS];
  int maxDepth, nestNum, nestDen; long slotBudget;
  u64 fp; long invocations, nestedActions, maxDepthSeen;
  void (*script)(const SlotCtx&);
  int fixedLShape, fixedEShape;   // >= 0: every listener / emitter object of the case has this class shape (exhaustive programs, scripted scenarios); -1: drawn per object
  int ptrMode;      // static type of the pointers connect()/disconnect() get for objects whose class is derived from Li / Em: 0 = always the complete-object type, 1 = the base class Li / Em in 1 call of 4
                    // (drawn per call and side), 2 = connect with the complete-object type, disconnect with the base-class type (scripted)
  bool shapesAll;   // with fixed*Shape < 0: every object draws its class shape uniformly from all shapes (otherwise all objects have shape "own")
  int fixedAr;   // >= 0: every emitter gets this arity behind signal index 0 (exhaustive programs, scripted scenarios); -1: drawn per emitter object
  bool fixedTwin; // with fixedAr >= 0: signal index 1 is the twin signal of the same arity (sigKb) instead of the next arity
  int pal[NAR], npal;   // arities the emitters of this case draw from (all nine, or a palette of 2..3 so that several emitters carry same-arity signals)
  int twinNum;    // drawSignals: chance twinNum/4 that a signal index becomes the twin of an earlier index
  char suspectCtx[128]; char suspectMsg[256]; bool suspect;
  const char* topAction;
};
static G g;
static const size_t NPOS = (size_t)-1;
// keys of the two confirmed defects (fixed in the scratch tree; kept as probes / excludable triggers)
static const char* const KEY_DISC = "Callback.disconnect/signal-emitting/bookkeeping/emitter-side-stale-record";
static const char* const KEY_LDESTROY = "Listener.destroy/connected-signal-emitting/bookkeeping/emitter-side-stale-record";

struct CtxScope {  // actions nest: restore the caller's context string when an action returns
  char saved[160];
  CtxScope() { snprintf(saved, sizeof saved, "%s", (const char*)ctx); }
  ~CtxScope() { setctxf("%s", saved); }
};

static int depthNow() { return (int)g.frames.n; }
static void histf(const char* fmt, ...) __attribute__((format(printf, 1, 2)));
static void histf(const char* fmt, ...) {
  char tmp[300]; va_list ap; va_start(ap, fmt); vsnprintf(tmp, sizeof tmp, fmt, ap); va_end(ap);
  for (int i = 0; i < depthNow(); ++i) hist.add("    ");
  hist.add(tmp); hist.add("\n");
}

static LiM* liveListenerAt(void* self) { for (int i = 0; i < g.NL; ++i) if (g.li[i] && g.li[i]->live && (void*)g.li[i]->obj == self) return g.li[i]; return 0; }
// the live listener whose complete object contains address p (a slot that ran with a `this` pointing somewhere else into the right object)
static LiM* liveListenerAround(void* p) { for (int i = 0; i < g.NL; ++i) if (g.li[i] && g.li[i]->live && (char*)p >= (char*)g.li[i]->top && (char*)p < (char*)g.li[i]->top + g.li[i]->topSize) return g.li[i]; return 0; }
#ifndef VERIF_NO_PRIVATE
static EmM* liveEmitterAt(Callback::Emitter* p) { for (int i = 0; i < g.NE; ++i) if (g.em[i] && g.em[i]->live && (Callback::Emitter*)g.em[i]->obj == p) return g.em[i]; return 0; }
#endif
static EmM* randLiveE() { EmM* c[MAXE]; int n = 0; for (int i = 0; i < g.NE; ++i) if (g.em[i] && g.em[i]->live) c[n++] = g.em[i]; return n ? c[g.r.below((u64)n)] : 0; }
static LiM* randLiveL() { LiM* c[MAXL]; int n = 0; for (int i = 0; i < g.NL; ++i) if (g.li[i] && g.li[i]->live) c[n++] = g.li[i]; return n ? c[g.r.below((u64)n)] : 0; }
static size_t liveCount(EmM* e, int sig) { size_t n = 0; for (size_t i = 0; i < e->recs[sig].n; ++i) if (e->recs[sig][i].live) ++n; return n; }
static bool anyEmitting(EmM* e) { for (int s = 0; s < MAXS; ++s) if (e->depth[s] > 0) return true; return false; }
#ifndef VERIF_NO_PRIVATE
static int sigIndexOfKey(EmM* e, const Callback::MemberFuncPtr& key) { for (int s = 0; s < MAXS; ++s) if (key == sigKey(e->sid[s])) return s; return -1; }
#endif
// live connections of slot (l, which-of-arity) to signals of e other than signal index sig: the same listener slot on another signal of the same emitter
static long liveOnOtherSignals(EmM* e, int sig, LiM* l, int which) {
  long n = 0;
  for (int s = 0; s < MAXS; ++s) if (s != sig && e->ar[s] == e->ar[sig]) { const Vec<Rec>& v = e->recs[s]; for (size_t q = 0; q < v.n; ++q) if (v[q].live && v[q].l == l && v[q].which == which) ++n; }
  return n;
}
// ... and to same-arity signals of other live emitters
static long liveOnOtherEmitters(EmM* e, int sig, LiM* l, int which) {
  long n = 0;
  for (int i = 0; i < g.NE; ++i) { EmM* o = g.em[i]; if (!o || !o->live || o == e) continue; for (int s = 0; s < MAXS; ++s) if (o->ar[s] == e->ar[sig]) { const Vec<Rec>& v = o->recs[s]; for (size_t q = 0; q < v.n; ++q) if (v[q].live && v[q].l == l && v[q].which == which) ++n; } }
  return n;
}

// key of an invocation-oracle verdict: the class shapes of the receiver / emitter concerned are part of the state class when they are not the plain "own" shape
static const char* shapedKey(const char* base, EmM* e, LiM* l) {
  static char key[200]; size_t n = (size_t)snprintf(key, sizeof key, "%s", base);
  if (l && l->shape != LS_OWN && n < sizeof key) n += (size_t)snprintf(key + n, sizeof key - n, "/receiver-shape=%s", LSN[l->shape]);
  if (e && e->shape != ES_OWN && n < sizeof key) snprintf(key + n, sizeof key - n, "/emitter-shape=%s", ESN[e->shape]);
  return key;
}
// next record the emission frame F must invoke, or NPOS
static size_t nextExpected(const Frame& F) {
  const Vec<Rec>& v = F.e->recs[F.sig];
  for (size_t p = F.pos; p < v.n; ++p) if (v[p].live && v[p].serial < F.e->outerStart[F.sig]) return p;
  return NPOS;
}
// statistics about records an emission passes over without invoking them (what the property is about)
static void noteSkipped(const Frame& F, size_t from, size_t to) {
  const Vec<Rec>& v = F.e->recs[F.sig];
  for (size_t p = from; p < to && p < v.n; ++p) {
    const Rec& rc = v[p];
    if (rc.live) { if (rc.serial >= F.e->outerStart[F.sig]) { cnt("passed_over_connected_during_emission"); arEv(F.e->ar[F.sig], AE_PASSED_OVER); } }
    else if (rc.serial < F.e->outerStart[F.sig] && rc.diedAt > F.startClock) {
      cnt("pending_slot_dropped_before_its_turn"); arEv(F.e->ar[F.sig], AE_PENDING_DROPPED);
      if (rc.why == W_LISTENER_DESTROYED) cnt("pending_slot_dropped_listener_destroyed");
    }
  }
}

// ------------------------------------------------------------------------------------------------ structural walk (normal flavour only)
static long g_recordsCompared = 0, g_twinStatesWalked = 0;   // g_twinStatesWalked: listener-side comparisons made while that listener slot was connected to two signals of the emitter
static long g_ops = 0;   // API-level operations (connect / disconnect / emit / create / delete), flushed as counter "ops" (exists in both flavours)
#ifndef VERIF_NO_PRIVATE
// returns 0 when the structures match, otherwise a short stable kind; msg gets the details.
// What is compared is what the property states and nothing else: per signal, the emitter-side records that are NOT marked disconnected are exactly the model's live
// connections, in connection order (= the order an emission walks them); per (emitter, signal, slot) the listener side lists as many records as the model has live
// connections. Not asked for (implementation details no caller can observe): the container types (auto iterators only), the order of listener-side records, entries
// that hold no record, and when the deferred clean-up runs - records marked disconnected are tombstones that describe no connection wherever they are met, a dirty flag
// still set at a quiescent point and a record still "connecting" while that flag is set are clean-up that is still pending (counted, no verdict).
// strict (quiescent): additionally the design invariants every implementation of this design keeps: no activation object is registered (they live in the frames of
//   emit calls, none is running), the list's size equals its linked items, and a record still "connecting" with a clear dirty flag is an error (nothing would ever
//   promote it: a live connection no emission invokes).
// relaxed (inside emissions, attribution only): connecting is expected exactly for records younger than the outermost emission.
// which slot (0 = a, 1 = b) of listener l, for a signal of arity k, the library's slot key denotes (-1: none); *form = 0: recorded as a member of the slot's
// declaring class, 1: as a member of the receiver class (only told apart where the two differ)
static int slotOfKey(LiM* l, int k, const Callback::MemberFuncPtr& key, int* form = 0) {
  for (int wh = 0; wh < 2; ++wh) for (int f = 0; f < 2; ++f) if (key == l->forms[k][wh].key[f]) { if (form) *form = f; return wh; }
  return -1;
}
// is the emitter-side record (receiver, object, slot) a faithful record of "slot wh of listener l" (either form, object and slot key of the same form)?
static bool recordIs(LiM* l, int k, int wh, Callback::Listener* receiver, void* object, const Callback::MemberFuncPtr& slot, int* form) {
  if (receiver != (Callback::Listener*)l->obj) return false;
  const SlotForms& sf = l->forms[k][wh];
  for (int f = 0; f < 2; ++f) if (slot == sf.key[f] && object == sf.obj[f]) { *form = f; return true; }
  return false;
}
// class shapes involved in a divergence the walkers report (part of the key: a divergence that needs a particular class shape is its own kind); "" = all "own"
static char g_walkShapes[96];
static void noteShapes(EmM* e, LiM* l) {
  g_walkShapes[0] = 0; size_t n = 0;
  if (l && l->shape != LS_OWN) n += (size_t)snprintf(g_walkShapes + n, sizeof g_walkShapes - n, "/receiver-shape=%s", LSN[l->shape]);
  if (e && e->shape != ES_OWN) snprintf(g_walkShapes + n, sizeof g_walkShapes - n, "/emitter-shape=%s", ESN[e->shape]);
}
static long g_tombstonesAtQuiescence = 0, g_dirtyAtQuiescence = 0, g_connectingAtQuiescence = 0, g_unknownEmptyEntries = 0;
static const char* walkEmitter(EmM* e, bool strict, char* msg, size_t msgsz) {
  Callback::Emitter& ce = *e->obj;
  noteShapes(e, 0);
  bool seen[MAXS]; for (int i = 0; i < MAXS; ++i) seen[i] = false;
  long guard = 0;
  for (auto it = ce.signalData.begin(), itEnd = ce.signalData.end(); it != itEnd; ++it) {
    if (++guard > 100000) { snprintf(msg, msgsz, "E%d: the per-signal container does not end (cycle?)", e->idx); return "emitter-side-map-corrupt"; }
    auto& d = *it;
    int sig = sigIndexOfKey(e, it.key());
    if (sig < 0) {
      // an entry for a signal this emitter object never had a connection on describes no connection as long as it holds no record (tombstones aside)
      long walked = 0, holds = 0;
      for (auto s = d.slots.begin(), sEnd = d.slots.end(); s != sEnd; ++s) { if (++walked > 100000) break; if ((int)s->state != (int)Callback::Emitter::Slot::disconnected) ++holds; }
      if (holds || walked > 100000) { snprintf(msg, msgsz, "E%d: emitter side holds %ld record(s) under a signal key that was never connected on this emitter", e->idx, holds); return "emitter-side-unknown-signal"; }
      ++g_unknownEmptyEntries;
      continue;
    }
    if (seen[sig]) { snprintf(msg, msgsz, "E%d.%s: two emitter-side entries for one signal key", e->idx, SN(e, sig)); return "emitter-side-map-corrupt"; }
    seen[sig] = true;
    if (strict && d.activation) { snprintf(msg, msgsz, "E%d.%s: an activation is still registered although no emission is in progress (it would dangle)", e->idx, SN(e, sig)); return "emitter-side-activation-left"; }
    const Vec<Rec>& v = e->recs[sig];
    size_t mp = 0; long n = 0, walked = 0, tomb = 0, connecting = 0;
    for (auto s = d.slots.begin(), sEnd = d.slots.end(); s != sEnd; ++s) {
      if (++walked > 100000) { snprintf(msg, msgsz, "E%d.%s: slot list does not end (cycle)", e->idx, SN(e, sig)); return "emitter-side-list-corrupt"; }
      int st = (int)s->state;
      if (st == (int)Callback::Emitter::Slot::disconnected) { ++tomb; continue; }   // tombstone: describes no connection
      if (st == (int)Callback::Emitter::Slot::connecting) ++connecting;
      else if (st != (int)Callback::Emitter::Slot::connected) { snprintf(msg, msgsz, "E%d.%s: record #%ld has the invalid state value %d", e->idx, SN(e, sig), walked - 1, st); return "emitter-side-record-state-invalid"; }
      while (mp < v.n && !v[mp].live) ++mp;
      ++g_recordsCompared;
      if (mp == v.n) {
        LiM* who = 0; for (int i = 0; i < g.NL; ++i) if (g.li[i] && g.li[i]->live && (Callback::Listener*)g.li[i]->obj == s->receiver) who = g.li[i];
        int wh = who ? slotOfKey(who, e->ar[sig], s->slot) : -1;
        snprintf(msg, msgsz, "E%d.%s: emitter side holds a connected record (listener %s%d, slot %s) beyond the %ld live connection(s) of the model", e->idx, SN(e, sig),
                 who ? "L" : "<destroyed or unknown> #", who ? who->idx : -1, wh >= 0 ? LN(e, sig, wh) : "?", n);
        noteShapes(e, who);
        return "emitter-side-stale-record";
      }
      const Rec& rc = v[mp];
      int form = 0;
      bool same = recordIs(rc.l, e->ar[sig], rc.which, s->receiver, s->object, s->slot, &form);
      if (!same) {
        // is the library's record some *other* live connection of the model (order / wrong victim) or nothing the model knows (stale)?
        bool known = false; LiM* who = 0; int f2;
        for (size_t q = 0; q < v.n; ++q) if (v[q].live && recordIs(v[q].l, e->ar[sig], v[q].which, s->receiver, s->object, s->slot, &f2)) known = true;
        for (int i = 0; i < g.NL; ++i) if (g.li[i] && g.li[i]->live && (Callback::Listener*)g.li[i]->obj == s->receiver) who = g.li[i];
        snprintf(msg, msgsz, "E%d.%s: live record #%ld differs: model expects L%d.%s", e->idx, SN(e, sig), n, rc.l->idx, LN(e, sig, rc.which));
        noteShapes(e, who ? who : rc.l);
        return known ? "emitter-side-record-order" : "emitter-side-stale-record";
      }
      lsEv(rc.l->shape, LE_WALK_RECORD); if (form == 1 && rc.l->forms[e->ar[sig]][rc.which].differ) lsEv(rc.l->shape, LE_WALK_RECORD_RECEIVER_FORM);
      if (!strict && e->depth[sig] > 0) {   // only while this signal is being emitted (otherwise a record still connecting is clean-up that is pending)
        bool wantConnecting = rc.serial >= e->outerStart[sig];
        if ((st == (int)Callback::Emitter::Slot::connecting) != wantConnecting) { snprintf(msg, msgsz, "E%d.%s: record #%ld state %d, expected %s", e->idx, SN(e, sig), n, st, wantConnecting ? "connecting" : "connected"); return "emitter-side-record-state"; }
      }
      ++mp; ++n;
    }
    if (strict && (long)d.slots.size() != walked) { snprintf(msg, msgsz, "E%d.%s: the slot list reports size %ld but %ld items are linked", e->idx, SN(e, sig), (long)d.slots.size(), walked); return "emitter-side-list-corrupt"; }
    while (mp < v.n && !v[mp].live) ++mp;
    if (mp != v.n) { snprintf(msg, msgsz, "E%d.%s: live connection to L%d.%s has no record on the emitter side (%ld found)", e->idx, SN(e, sig), v[mp].l->idx, LN(e, sig, v[mp].which), n); noteShapes(e, v[mp].l); return "emitter-side-missing-record"; }
    if (strict) {
      if (connecting && !d.dirty) {
        snprintf(msg, msgsz, "E%d.%s: %ld record(s) still in state connecting although no emission is in progress and the dirty flag is clear (nothing will promote them: no emission invokes them)", e->idx, SN(e, sig), connecting);
        return "emitter-side-leftover-connecting-record";
      }
      g_tombstonesAtQuiescence += tomb; g_connectingAtQuiescence += connecting; if (d.dirty) ++g_dirtyAtQuiescence;
    }
  }
  for (int sig = 0; sig < MAXS; ++sig) if (!seen[sig] && liveCount(e, sig)) { snprintf(msg, msgsz, "E%d.%s: %ld live connection(s) but no emitter-side entry for that signal", e->idx, SN(e, sig), (long)liveCount(e, sig)); return "emitter-side-missing-record"; }
  return 0;
}

static const char* walkListener(LiM* l, char* msg, size_t msgsz) {
  Callback::Listener& cl = *l->obj;
  noteShapes(0, l);
  bool seenE[MAXE]; for (int i = 0; i < MAXE; ++i) seenE[i] = false;
  long guard = 0;
  for (auto it = cl.slotData.begin(), itEnd = cl.slotData.end(); it != itEnd; ++it) {
    if (++guard > 100000) { snprintf(msg, msgsz, "L%d: the per-emitter container does not end", l->idx); return "listener-side-map-corrupt"; }
    EmM* e = liveEmitterAt(it.key());
    auto& lst = *it;
    long have[MAXS][2]; for (int i = 0; i < MAXS; ++i) have[i][0] = have[i][1] = 0;
    long walked = 0;
    for (auto s = lst.begin(), sEnd = lst.end(); s != sEnd; ++s) {
      if (++walked > 100000) { snprintf(msg, msgsz, "L%d: signal list does not end (cycle)", l->idx); return "listener-side-list-corrupt"; }
      ++g_recordsCompared;
      if (!e) { snprintf(msg, msgsz, "L%d: listener side still lists a connection to an emitter that was destroyed", l->idx); return "listener-side-record-for-destroyed-emitter"; }
      int sig = sigIndexOfKey(e, s->signal);
      int wh = sig < 0 ? -1 : slotOfKey(l, e->ar[sig], s->slot);
      if (wh < 0) { snprintf(msg, msgsz, "L%d: listener side lists an unknown (signal, slot) pair for E%d", l->idx, e->idx); return "listener-side-unknown-pair"; }
      ++have[sig][wh];
    }
    if (!e) continue;   // stale key of a destroyed emitter with an empty list: describes no connection
    noteShapes(e, l);
    if (seenE[e->idx]) { snprintf(msg, msgsz, "L%d: two listener-side entries for E%d", l->idx, e->idx); return "listener-side-map-corrupt"; }
    seenE[e->idx] = true;
    long wantAll[MAXS][2];
    for (int sig = 0; sig < MAXS; ++sig) for (int wh = 0; wh < 2; ++wh) { long want = 0; const Vec<Rec>& v = e->recs[sig]; for (size_t q = 0; q < v.n; ++q) if (v[q].live && v[q].l == l && v[q].which == wh) ++want; wantAll[sig][wh] = want; }
    // the listener keeps its records of one emitter together for all signals of that emitter: a record of this slot filed under another signal of the emitter than the
    // one it is connected to (one signal has a record too many, a same-arity signal one too few for the same slot) is its own kind of divergence
    for (int sig = 0; sig < MAXS; ++sig) for (int wh = 0; wh < 2; ++wh) if (have[sig][wh] > wantAll[sig][wh])
      for (int s2 = 0; s2 < MAXS; ++s2) if (s2 != sig && e->ar[s2] == e->ar[sig] && have[s2][wh] < wantAll[s2][wh]) {
        snprintf(msg, msgsz, "L%d: listener side lists %ld connection(s) E%d.%s -> %s (model: %ld live) but only %ld connection(s) E%d.%s -> %s (model: %ld live): a record of that slot is filed under the wrong signal of the emitter",
                 l->idx, have[sig][wh], e->idx, SN(e, sig), LN(e, sig, wh), wantAll[sig][wh], have[s2][wh], e->idx, SN(e, s2), LN(e, s2, wh), wantAll[s2][wh]);
        return "listener-side-record-under-wrong-signal";
      }
    for (int sig = 0; sig < MAXS; ++sig) for (int wh = 0; wh < 2; ++wh) {
      long want = wantAll[sig][wh];
      if (want) for (int s2 = sig + 1; s2 < MAXS; ++s2) if (e->ar[s2] == e->ar[sig] && wantAll[s2][wh]) ++g_twinStatesWalked;
      if (have[sig][wh] > want) { snprintf(msg, msgsz, "L%d: listener side lists %ld connection(s) E%d.%s -> %s, model has %ld live", l->idx, have[sig][wh], e->idx, SN(e, sig), LN(e, sig, wh), want); return "listener-side-stale-record"; }
      if (have[sig][wh] < want) { snprintf(msg, msgsz, "L%d: listener side lists %ld connection(s) E%d.%s -> %s, model has %ld live", l->idx, have[sig][wh], e->idx, SN(e, sig), LN(e, sig, wh), want); return "listener-side-missing-record"; }
    }
  }
  for (int i = 0; i < g.NE; ++i) {
    EmM* e = g.em[i]; if (!e || !e->live || seenE[e->idx]) continue;
    for (int sig = 0; sig < MAXS; ++sig) { const Vec<Rec>& v = e->recs[sig]; for (size_t q = 0; q < v.n; ++q) if (v[q].live && v[q].l == l) { snprintf(msg, msgsz, "L%d: live connection E%d.%s -> %s but no listener-side entry for that emitter", l->idx, e->idx, SN(e, sig), LN(e, sig, v[q].which)); return "listener-side-missing-record"; } }
  }
  return 0;
}

static const char* walkAll(bool strict, char* msg, size_t msgsz) {
  for (int i = 0; i < g.NE; ++i) if (g.em[i] && g.em[i]->live) { const char* k = walkEmitter(g.em[i], strict, msg, msgsz); if (k) return k; }
  for (int i = 0; i < g.NL; ++i) if (g.li[i] && g.li[i]->live) { const char* k = walkListener(g.li[i], msg, msgsz); if (k) return k; }
  return 0;
}
#endif   // !VERIF_NO_PRIVATE

// after a nested action (an emission is in progress): attribution only
static void diagnose() {
#ifndef VERIF_NO_PRIVATE
  if (g.suspect || g.frames.n == 0) return;
  CtxScope cs; char saved[160]; snprintf(saved, sizeof saved, "%s", cs.saved);   // the context of the action that just ran
  setctxf("Callback.bookkeeping/walk-during-emission");
  char msg[256]; const char* k = walkAll(false, msg, sizeof msg);
  cnt("diagnostic_walks");
  if (k) { g.suspect = true; snprintf(g.suspectCtx, sizeof g.suspectCtx, "%s", saved); snprintf(g.suspectMsg, sizeof g.suspectMsg, "%s: %s", k, msg); histf("!! internal structures diverge from the model here (%s)", g.suspectMsg); }
#endif
}

// after every top-level action: the verdict on "bookkeeping describes exactly the live connections" (normal flavour; in the fallback flavour that clause is only
// checked indirectly: by what the following emissions - at the latest the final sweep - and destructions do under the model and ASan)
static long g_quiescentPoints = 0;
static void quiescentCheck() {
  if (g.frames.n) harnessBug("quiescentCheck inside an emission");
  for (int i = 0; i < g.NE; ++i) if (g.em[i] && g.em[i]->live && anyEmitting(g.em[i])) harnessBug("model: emitter still emitting at a quiescent point");
  ++g_quiescentPoints;
#ifndef VERIF_NO_PRIVATE
  setctxf("Callback.bookkeeping/walk-after-%s", g.topAction);
  char msg[256]; const char* k = walkAll(true, msg, sizeof msg);
  cnt("quiescent_walks");
  if (k) {
    char key[300];
    if (g.suspect) snprintf(key, sizeof key, "%s/bookkeeping/%s%s", g.suspectCtx, k, g_walkShapes);
    else snprintf(key, sizeof key, "Callback.bookkeeping/after-%s/%s%s", g.topAction, k, g_walkShapes);
    fail(key, "at the quiescent point after top-level %s: %s%s%s", g.topAction, msg, g.suspect ? "; structures first diverged right after " : "", g.suspect ? g.suspectCtx : "");
  }
  if (g.suspect) cnt("diagnostic_divergence_without_verdict");
#endif
  g.suspect = false;
}
// counters kept locally (vh::cnt is a linear search) and the statement of how the bookkeeping clause was checked in this build flavour
static void flushWalkStats() {
  cnt("ops", g_ops); g_ops = 0;
  cnt("quiescent_points", g_quiescentPoints);
  cnt("records_compared_by_walks", g_recordsCompared); g_recordsCompared = 0;
  cnt("listener_walks_of_slot_on_two_signals_of_one_emitter", g_twinStatesWalked); g_twinStatesWalked = 0;
#ifndef VERIF_NO_PRIVATE
  setItem("bookkeeping_clause", "direct: private records of both sides walked against the model at every quiescent point");
  cnt("tombstone_records_met_at_quiescent_points", g_tombstonesAtQuiescence); cnt("dirty_flag_set_at_quiescent_points", g_dirtyAtQuiescence);
  cnt("connecting_records_pending_at_quiescent_points", g_connectingAtQuiescence); cnt("empty_entries_for_unconnected_signals", g_unknownEmptyEntries);
  g_tombstonesAtQuiescence = g_dirtyAtQuiescence = g_connectingAtQuiescence = g_unknownEmptyEntries = 0;
#else
  setItem("bookkeeping_clause", "indirect only (no private access): via later emissions, final sweep, destructions, ASan");
  cnt("quiescent_points_bookkeeping_checked_only_indirectly", g_quiescentPoints);
#endif
  g_quiescentPoints = 0;
}

// ------------------------------------------------------------------------------------------------ actions (model + real call)
// may this call name the object through a pointer to its base class (Li / Em)? Only where that is a different type and the slots are members of Li
static bool baseLPossible(LiM* l) { return l->shape == LS_PRIMARY || l->shape == LS_SECONDARY || l->shape == LS_SECONDARY_OVERRIDE; }
static bool baseEPossible(EmM* e) { return e->shape == ES_SECONDARY; }
static bool drawViaBase(bool possible, bool isDisconnect) { if (!possible || g.ptrMode == 0) return false; if (g.ptrMode == 2) return isDisconnect; return g.r.chance(1, 4); }
static const char* connClass(EmM* e, int sig) { return g.frames.n == 0 ? "quiescent" : e->depth[sig] > 0 ? "signal-emitting" : "in-slot"; }

static void actConnect(EmM* e, int sig, LiM* l, int which) {
  CtxScope cs;
  const char* cls = connClass(e, sig);
  setctxf("Callback.connect/%s", cls);
  size_t dup = 0; for (size_t q = 0; q < e->recs[sig].n; ++q) { const Rec& rc = e->recs[sig][q]; if (rc.live && rc.l == l && rc.which == which) ++dup; }
  long twin = liveOnOtherSignals(e, sig, l, which), otherE = liveOnOtherEmitters(e, sig, l, which);
  histf("connect(E%d.%s -> L%d.%s)%s%s", e->idx, SN(e, sig), l->idx, LN(e, sig, which), dup ? "   # duplicate" : "", twin ? "   # this slot is also connected to another signal of this emitter" : "");
  Rec rc; rc.l = l; rc.which = which; rc.serial = g.serial++; rc.live = true; rc.why = W_LIVE; rc.diedAt = 0;
  rc.viaBaseL = drawViaBase(baseLPossible(l), false); rc.viaBaseE = drawViaBase(baseEPossible(e), false);
  if (rc.viaBaseL || rc.viaBaseE) { histf("  # that call: %s%s%s", rc.viaBaseL ? "receiver passed as a pointer to its base class Li" : "", rc.viaBaseL && rc.viaBaseE ? ", " : "", rc.viaBaseE ? "emitter passed as a pointer to its base class Em" : ""); cnt("connect_through_base_class_pointer"); }
  e->recs[sig].push(rc); e->everConn[sig] = true;
  ++g.clock; ++g_ops;
  realConnect(rc.viaBaseE ? (int)ES_OWN : e->shape, rc.viaBaseE ? (void*)e->obj : e->top, e->sid[sig], rc.viaBaseL ? (int)LS_OWN : l->shape, rc.viaBaseL ? (void*)l->obj : l->top, which);
  sgEv(e->sid[sig], SE_CONNECT);
  lsEv(l->shape, LE_CONNECT); if (e->depth[sig] > 0) lsEv(l->shape, LE_CONNECT_SIGNAL_EMITTING); esEv(e->shape, EE_CONNECT);
  { u64 dk = (u64)e->gen * 64 + (u64)sig * 2 + (u64)which; for (size_t q = 0; q < l->discKeys.n; ++q) if (l->discKeys[q] == dk) { lsEv(l->shape, LE_RECONNECT_AFTER_DISCONNECT); l->discKeys.removeAt(q); break; } }
  if (twin) { cnt("same_slot_on_two_signals_of_one_emitter"); if (e->depth[sig] > 0) cnt("same_slot_on_two_signals_of_one_emitter_signal_emitting"); }
  if (otherE) cnt("same_slot_on_signals_of_two_emitters");
  arEv(e->ar[sig], AE_CONNECT); if (e->depth[sig] > 0) arEv(e->ar[sig], AE_CONNECT_SIGNAL_EMITTING);
  cnt("op_connect"); if (dup) cnt("op_connect_duplicate"); if (g.frames.n) cnt(e->depth[sig] > 0 ? "op_connect_signal_emitting" : "op_connect_in_slot");
  statMax("max_duplicate_multiplicity", (long)dup + 1);
  g.fp = mix(g.fp, 11 + (u64)e->idx * 7 + (u64)sig * 3 + (u64)l->idx * 31 + (u64)which + (u64)depthNow() * 1000);
  diagnose();
}

static void actDisconnect(EmM* e, int sig, LiM* l, int which) {
  CtxScope cs;
  const char* cls = connClass(e, sig);
  setctxf("Callback.disconnect/%s", cls);
  Vec<Rec>& v = e->recs[sig]; size_t hit = NPOS; size_t dups = 0; bool deadBefore = false;
  for (size_t q = 0; q < v.n; ++q) if (v[q].l == l && v[q].which == which) { if (v[q].live) { if (hit == NPOS) hit = q; ++dups; } else if (hit == NPOS) deadBefore = true; }
  // trigger condition of the (listed) finding: a disconnected record of the same slot, still pending physical removal, precedes the live one
  if (hit != NPOS && deadBefore && excluded(KEY_DISC)) { cnt("excluded_trigger_avoided"); return; }
  // the same listener slot is connected to another signal of this emitter as well; olderTwin: that other connection was made first (its listener-side record comes first)
  long twin = hit == NPOS ? 0 : liveOnOtherSignals(e, sig, l, which); bool olderTwin = false;
  if (twin) for (int s = 0; s < MAXS; ++s) if (s != sig && e->ar[s] == e->ar[sig]) { const Vec<Rec>& o = e->recs[s]; for (size_t q = 0; q < o.n; ++q) if (o[q].live && o[q].l == l && o[q].which == which && o[q].serial < v[hit].serial) olderTwin = true; }
  bool viaBaseL = drawViaBase(baseLPossible(l), true), viaBaseE = drawViaBase(baseEPossible(e), true);
  if (hit != NPOS && (viaBaseL != v[hit].viaBaseL || viaBaseE != v[hit].viaBaseE)) { cnt("disconnect_live_through_other_pointer_type_than_connect"); if (viaBaseL != v[hit].viaBaseL) lsEv(l->shape, LE_DISCONNECT_OTHER_POINTER_TYPE); }
  histf("disconnect(E%d.%s -> L%d.%s)%s%s", e->idx, SN(e, sig), l->idx, LN(e, sig, which), hit == NPOS ? "   # not connected" : "", twin ? "   # this slot stays connected to another signal of this emitter" : "");
  if (viaBaseL || viaBaseE) histf("  # that call: %s%s%s", viaBaseL ? "receiver passed as a pointer to its base class Li" : "", viaBaseL && viaBaseE ? ", " : "", viaBaseE ? "emitter passed as a pointer to its base class Em" : "");
  ++g.clock;
  if (hit != NPOS) { v[hit].live = false; v[hit].why = g.frames.n && e->depth[sig] > 0 ? W_DISC_EMITTING : W_DISC_QUIESCENT; v[hit].diedAt = g.clock; }
  ++g_ops;
  realDisconnect(viaBaseE ? (int)ES_OWN : e->shape, viaBaseE ? (void*)e->obj : e->top, e->sid[sig], viaBaseL ? (int)LS_OWN : l->shape, viaBaseL ? (void*)l->obj : l->top, which);
  sgEv(e->sid[sig], SE_DISCONNECT);
  if (hit != NPOS) {
    lsEv(l->shape, LE_DISCONNECT_LIVE); if (e->depth[sig] > 0) lsEv(l->shape, LE_DISCONNECT_LIVE_SIGNAL_EMITTING); esEv(e->shape, EE_DISCONNECT_LIVE);
    ++e->discPending[sig][l->shape]; if (l->discKeys.n < 64) l->discKeys.push((u64)e->gen * 64 + (u64)sig * 2 + (u64)which);
  }
  if (twin) { cnt("disconnect_slot_also_on_other_signal_of_emitter"); if (olderTwin) cnt("disconnect_later_connected_of_two_signals_of_one_emitter"); if (e->depth[sig] > 0) cnt("disconnect_slot_also_on_other_signal_of_emitter_signal_emitting"); }
  if (hit == NPOS && liveOnOtherSignals(e, sig, l, which)) cnt("disconnect_not_connected_slot_on_other_signal_of_emitter");
  arEv(e->ar[sig], AE_DISCONNECT); if (e->depth[sig] > 0) arEv(e->ar[sig], AE_DISCONNECT_SIGNAL_EMITTING);
  if (hit != NPOS && e->depth[sig] == 0) v.removeAt(hit);
  cnt("op_disconnect"); if (hit == NPOS) cnt("op_disconnect_not_connected"); if (dups > 1) cnt("op_disconnect_one_of_duplicates");
  if (g.frames.n) cnt(e->depth[sig] > 0 ? "op_disconnect_signal_emitting" : "op_disconnect_in_slot");
  if (hit != NPOS && deadBefore) cnt("op_disconnect_behind_dead_record_of_same_slot");   // the trigger class of the confirmed defect
  g.fp = mix(g.fp, 12 + (u64)e->idx * 7 + (u64)sig * 3 + (u64)l->idx * 31 + (u64)which + (u64)depthNow() * 1000);
  diagnose();
}

static void actEmit(EmM* e, int sig) {
  CtxScope cs;
  const char* cls = g.frames.n == 0 ? "top-level" : e->depth[sig] > 0 ? "recursive" : anyEmitting(e) ? "nested-other-signal" : "nested-other-emitter";
  char myctx[64]; snprintf(myctx, sizeof myctx, "Emitter.emit/%s", cls);
  setctxf("%s", myctx);
  long arg = ++g.argSeq;
  histf("emit(E%d.%s) {%s", e->idx, SN(e, sig), e->depth[sig] > 0 ? "   # recursive" : "");
  if (e->depth[sig] == 0) e->outerStart[sig] = g.serial;
  ++e->depth[sig]; ++g.clock;
  Frame f; f.e = e; f.sig = sig; f.pos = 0; f.arg = arg; f.invoked = 0; f.startClock = g.clock;
  g.frames.push(f); size_t fi = g.frames.n - 1;
  if ((long)g.frames.n > g.maxDepthSeen) g.maxDepthSeen = (long)g.frames.n;
  cnt("op_emit"); if (fi) cnt("op_emit_nested"); if (e->depth[sig] > 1) cnt("op_emit_recursive_same_signal");
  g.fp = mix(g.fp, 13 + (u64)e->idx * 7 + (u64)sig * 3 + (u64)depthNow() * 1000);
  Em* obj = e->obj;
  arEv(e->ar[sig], AE_EMIT); if (e->depth[sig] > 1) arEv(e->ar[sig], AE_EMIT_RECURSIVE);
  sgEv(e->sid[sig], SE_EMIT); esEv(e->shape, EE_EMIT); if (e->depth[sig] > 1) esEv(e->shape, EE_EMIT_RECURSIVE);
  ++g_ops;
  realEmit(obj, e->sid[sig], arg);
  // obj may be deleted by now; only the model is consulted
  setctxf("%s", myctx);
  if (g.frames.n != fi + 1) harnessBug("frame stack unbalanced after emit");
  Frame& F = g.frames[fi];
  if (e->live) {
    size_t p = nextExpected(F);
    if (p != NPOS) {
      const Rec& rc = e->recs[sig][p];
      fail(shapedKey("Emitter.emit/connected-slot/not-invoked", e, rc.l), "emission of E%d.%s returned after %ld invocation(s) without invoking L%d.%s, which was connected before the outermost emission began and is still connected%s%s",
           e->idx, SN(e, sig), F.invoked, rc.l->idx, LN(e, sig, rc.which), g.suspect ? "; structures first diverged right after " : "", g.suspect ? g.suspectCtx : "");
    }
    noteSkipped(F, F.pos, e->recs[sig].n);
    // an outermost emission ran to its end and invoked exactly the model's connections: every connection of this signal disconnected before stayed silent (by listener shape)
    if (e->depth[sig] == 1) for (int sh = 0; sh < NLS; ++sh) if (e->discPending[sig][sh]) { lsEv(sh, LE_SILENT_AFTER_DISCONNECT, e->discPending[sig][sh]); e->discPending[sig][sh] = 0; }
    if (--e->depth[sig] == 0) { Vec<Rec>& v = e->recs[sig]; size_t k = 0; for (size_t q = 0; q < v.n; ++q) if (v[q].live) { if (k != q) v[k] = v[q]; ++k; } while (v.n > k) v.pop(); }
  } else { cnt("emission_ended_by_emitter_destruction"); arEv(e->ar[sig], AE_ENDED_BY_EMITTER_DESTRUCTION); }
  statMax("max_invocations_in_one_emission", F.invoked);
  if (F.invoked == 0) cnt("emissions_without_invocation");
  g.frames.pop();
  histf("}");
  diagnose();
}

static void actDestroyL(LiM* l, bool own) {
  CtxScope cs;
  bool pending = false;   // some emission in progress still has a live record of this listener ahead
  for (size_t f = 0; f < g.frames.n; ++f) { const Frame& F = g.frames[f]; if (!F.e->live) continue; const Vec<Rec>& v = F.e->recs[F.sig]; for (size_t p = F.pos; p < v.n; ++p) if (v[p].live && v[p].l == l && v[p].serial < F.e->outerStart[F.sig]) pending = true; }
  // connEmitting: has live connections to a signal that is being emitted; deadBefore: one of them sits behind another record (pending-dead or a live
  // duplicate, which the destructor kills first) of the same slot - the trigger condition of the (listed) finding
  bool connEmitting = false, deadBefore = false;
  for (int i = 0; i < g.NE; ++i) { EmM* e = g.em[i]; if (!e || !e->live) continue; for (int sig = 0; sig < MAXS; ++sig) if (e->depth[sig] > 0) { const Vec<Rec>& v = e->recs[sig]; for (size_t q = 0; q < v.n; ++q) if (v[q].live && v[q].l == l) { connEmitting = true; for (size_t d = 0; d < q; ++d) if (v[d].l == l && v[d].which == v[q].which) deadBefore = true; } } }
  if (deadBefore && excluded(KEY_LDESTROY)) { cnt("excluded_trigger_avoided"); return; }
  setctxf("Listener.destroy/%s", g.frames.n == 0 ? "quiescent" : connEmitting ? "connected-signal-emitting" : "in-slot");
  bool twin = false;   // one of its slots is connected to two signals of one emitter
  for (int i = 0; i < g.NE; ++i) { EmM* e = g.em[i]; if (!e || !e->live) continue; for (int sig = 0; sig < MAXS; ++sig) { const Vec<Rec>& v = e->recs[sig]; for (size_t q = 0; q < v.n; ++q) if (v[q].live && v[q].l == l && liveOnOtherSignals(e, sig, l, v[q].which)) twin = true; } }
  histf("delete L%d%s%s", l->idx, own ? "   # the listener whose slot is running" : "", pending ? "   # has slots pending in an emission" : "");
  ++g.clock;
  bool hadConn = false;
  for (int i = 0; i < g.NE; ++i) { EmM* e = g.em[i]; if (!e || !e->live) continue; for (int sig = 0; sig < MAXS; ++sig) { Vec<Rec>& v = e->recs[sig]; for (size_t q = 0; q < v.n; ++q) if (v[q].live && v[q].l == l) { v[q].live = false; v[q].why = W_LISTENER_DESTROYED; v[q].diedAt = g.clock; hadConn = true; } } }
  l->live = false;
  void* ltop = l->top; l->obj = 0; l->top = 0;
  if (hadConn) lsEv(l->shape, LE_DESTROY_CONNECTED);
  if (own) lsEv(l->shape, LE_DESTROY_IN_OWN_SLOT);
  ++g_ops;
  switch (l->shape) {   // deleted as what it was created as
  case LS_OWN: delete static_cast<Li*>(ltop); break;
  case LS_PRIMARY: delete static_cast<LiP*>(ltop); break;
  case LS_SECONDARY: delete static_cast<LiS*>(ltop); break;
  case LS_SECONDARY_OVERRIDE: delete static_cast<LiO*>(ltop); break;
  case LS_SECONDARY_OWN: delete static_cast<LiD*>(ltop); break;
  default: harnessBug("delete listener: shape %d", l->shape);
  }
  for (int i = 0; i < g.NE; ++i) { EmM* e = g.em[i]; if (!e || !e->live) continue; for (int sig = 0; sig < MAXS; ++sig) if (e->depth[sig] == 0) { Vec<Rec>& v = e->recs[sig]; size_t k = 0; for (size_t q = 0; q < v.n; ++q) if (v[q].live) { if (k != q) v[k] = v[q]; ++k; } while (v.n > k) v.pop(); } }
  cnt("op_destroy_listener"); if (g.frames.n) cnt(own ? "op_destroy_listener_in_own_slot" : "op_destroy_listener_in_other_slot"); if (pending) cnt("op_destroy_listener_with_pending_slots");
  if (deadBefore) cnt("op_destroy_listener_behind_other_record_of_same_slot");
  if (twin) cnt("destroy_listener_same_slot_on_two_signals_of_one_emitter");
  g.fp = mix(g.fp, 14 + (u64)l->idx * 31 + (u64)depthNow() * 1000);
  diagnose();
}

static void actDestroyE(EmM* e) {
  CtxScope cs;
  bool emitting = anyEmitting(e);
  setctxf("Emitter.destroy/%s", g.frames.n == 0 ? "quiescent" : emitting ? "while-emitting" : "inside-slot-of-other-emitter");
  histf("delete E%d%s", e->idx, emitting ? "   # is emitting" : "");
  ++g.clock;
  bool twin = false, hadConn = false; int depthSum = 0;
  for (int sig = 0; sig < MAXS; ++sig) { depthSum += e->depth[sig]; const Vec<Rec>& v = e->recs[sig]; for (size_t q = 0; q < v.n; ++q) if (v[q].live) { hadConn = true; if (liveOnOtherSignals(e, sig, v[q].l, v[q].which)) twin = true; } }
  if (hadConn) esEv(e->shape, EE_DESTROY_CONNECTED);
  if (emitting) esEv(e->shape, EE_DESTROY_WHILE_EMITTING);
  if (twin) cnt("destroy_emitter_same_slot_on_two_signals_of_one_emitter");
  for (int sig = 0; sig < MAXS; ++sig) { Vec<Rec>& v = e->recs[sig]; for (size_t q = 0; q < v.n; ++q) if (v[q].live) { v[q].live = false; v[q].why = W_EMITTER_DESTROYED; v[q].diedAt = g.clock; } }
  e->live = false;
  void* etop = e->top; e->obj = 0; e->top = 0;
  ++g_ops;
  if (e->shape == ES_OWN) delete static_cast<Em*>(etop); else if (e->shape == ES_SECONDARY) delete static_cast<EmS*>(etop); else harnessBug("delete emitter: shape %d", e->shape);   // not polymorphic: deleted as what it was created as
  cnt("op_destroy_emitter"); if (emitting) { cnt("op_destroy_emitter_while_emitting"); if (depthSum > 1) cnt("op_destroy_emitter_with_nested_emissions"); } else if (g.frames.n) cnt("op_destroy_emitter_in_slot");
  g.fp = mix(g.fp, 15 + (u64)e->idx * 7 + (u64)depthNow() * 1000);
  diagnose();
}

static void actCreateL(int idx) {
  CtxScope cs;
  setctxf("Listener.create/%s", g.frames.n == 0 ? "quiescent" : "in-slot");
  LiM* l = new LiM; l->idx = idx; l->gen = ++g.gen; l->live = true;
  l->shape = g.fixedLShape >= 0 ? g.fixedLShape : g.shapesAll ? (int)g.r.below(NLS) : LS_OWN;
  histf("L%d = new listener%s%s", idx, l->shape != LS_OWN ? "   # class shape " : "", l->shape != LS_OWN ? LSN[l->shape] : "");
  ++g_ops;
  switch (l->shape) {
  case LS_OWN: { Li* w = new Li(l->gen); l->top = w; l->obj = w; l->topSize = sizeof *w; break; }
  case LS_PRIMARY: { LiP* w = new LiP(l->gen); l->top = w; l->obj = w; l->topSize = sizeof *w; break; }
  case LS_SECONDARY: { LiS* w = new LiS(l->gen); l->top = w; l->obj = w; l->topSize = sizeof *w; break; }
  case LS_SECONDARY_OVERRIDE: { LiO* w = new LiO(l->gen); l->top = w; l->obj = w; l->topSize = sizeof *w; break; }
  case LS_SECONDARY_OWN: { LiD* w = new LiD(l->gen); l->top = w; l->obj = w; l->topSize = sizeof *w; break; }
  default: harnessBug("create listener: shape %d", l->shape);
  }
#ifndef VERIF_NO_PRIVATE
  for (int k = 0; k < NAR; ++k) for (int wh = 0; wh < 2; ++wh) l->forms[k][wh] = slotForms(l->shape, l->top, k, wh);
#endif
  lsEv(l->shape, LE_CREATE);
  g.allL.push(l); g.li[idx] = l; cnt("op_create_listener");
  g.fp = mix(g.fp, 16 + (u64)idx + (u64)l->shape * 1000);
  diagnose();
}
// which of the 18 signal members stand behind this emitter object's signal indexes (pairwise distinct signal ids)
static void drawSignals(EmM* e) {
  if (g.fixedAr >= 0) {
    e->sid[0] = g.fixedAr * 2; e->sid[1] = g.fixedTwin ? g.fixedAr * 2 + 1 : ((g.fixedAr + 1) % NAR) * 2; e->sid[2] = ((g.fixedAr + 2) % NAR) * 2;
  } else {
    for (int s = 0; s < MAXS; ++s) {
      // candidates: twins of earlier indexes whose twin is still free; fresh arities of the palette (then of all nine) not used by an earlier index
      int tw[MAXS], ntw = 0, fr[NAR], nfr = 0;
      for (int q = 0; q < s; ++q) { bool used = false; for (int t = 0; t < s; ++t) if (e->sid[t] == (e->sid[q] ^ 1)) used = true; if (!used) tw[ntw++] = e->sid[q] ^ 1; }
      for (int pass = 0; pass < 2 && !nfr && !(pass && ntw); ++pass)   // the palette is exhausted: a twin if there is one, otherwise any of the nine arities
        for (int i = 0; i < (pass ? NAR : g.npal); ++i) { int a = pass ? i : g.pal[i]; bool used = false; for (int t = 0; t < s; ++t) if (e->sid[t] / 2 == a) used = true; if (!used) fr[nfr++] = a; }
      if (ntw && (!nfr || g.r.chance((u32)g.twinNum, 4))) e->sid[s] = tw[g.r.below((u64)ntw)];
      else e->sid[s] = fr[g.r.below((u64)nfr)] * 2 + (int)g.r.below(2);
    }
  }
  for (int s = 0; s < MAXS; ++s) { e->ar[s] = e->sid[s] / 2; for (int t = 0; t < s; ++t) if (e->sid[t] == e->sid[s]) harnessBug("drawSignals: signal id %d drawn twice", e->sid[s]); }
}
static void actCreateE(int idx) {
  CtxScope cs;
  setctxf("Emitter.create/%s", g.frames.n == 0 ? "quiescent" : "in-slot");
  EmM* e = new EmM; e->idx = idx; e->gen = ++g.gen; e->live = true; for (int s = 0; s < MAXS; ++s) { e->depth[s] = 0; e->outerStart[s] = 0; e->everConn[s] = false; }
  for (int s = 0; s < MAXS; ++s) for (int sh = 0; sh < NLS; ++sh) e->discPending[s][sh] = 0;
  drawSignals(e);
  e->shape = g.fixedEShape >= 0 ? g.fixedEShape : g.shapesAll ? (int)g.r.below(NES) : ES_OWN;
  histf("E%d = new emitter   # signals %s, %s, %s%s%s", idx, SN(e, 0), SN(e, 1), SN(e, 2), e->shape != ES_OWN ? "; class shape " : "", e->shape != ES_OWN ? ESN[e->shape] : "");
  ++g_ops;
  if (e->shape == ES_OWN) { Em* v = new Em(e->gen); e->top = v; e->obj = v; } else { EmS* v = new EmS(e->gen); e->top = v; e->obj = v; }
  esEv(e->shape, EE_CREATE);
  g.allE.push(e); g.em[idx] = e; cnt("op_create_emitter");
  g.fp = mix(g.fp, 17 + (u64)idx + (u64)e->sid[0] * 100 + (u64)e->sid[1] * 10000 + (u64)e->sid[2] * 1000000 + (u64)e->shape * 100000000);
  diagnose();
}

// ------------------------------------------------------------------------------------------------ action generator
static bool pickLiveRec(EmM*& e, int& sig, LiM*& l, int& which) {
  size_t total = 0; for (int i = 0; i < g.NE; ++i) if (g.em[i] && g.em[i]->live) for (int s = 0; s < MAXS; ++s) total += liveCount(g.em[i], s);
  if (!total) return false;
  size_t k = (size_t)g.r.below(total);
  for (int i = 0; i < g.NE; ++i) if (g.em[i] && g.em[i]->live) for (int s = 0; s < MAXS; ++s) { const Vec<Rec>& v = g.em[i]->recs[s]; for (size_t q = 0; q < v.n; ++q) if (v[q].live) { if (k-- == 0) { e = g.em[i]; sig = s; l = v[q].l; which = v[q].which; return true; } } }
  return false;
}

// one action; sc = the slot that is running (0 at top level)
static void randomAction(const SlotCtx* sc) {
  int w[NKINDS]; int tot = 0;
  for (int i = 0; i < NKINDS; ++i) { w[i] = g.w[i]; if (!sc && i == K_EMIT) w[i] *= 3; if (!sc && (i == K_DESTROY_L || i == K_DESTROY_E || i == K_FOCUS_DESTROY_L || i == K_FOCUS_DESTROY_E)) w[i] = (w[i] + 2) / 3; tot += w[i]; }
  int pick = (int)g.r.below((u64)tot), kind = 0; while (pick >= w[kind]) pick -= w[kind++];
  // focus connection: the running slot's connection where its parts are still alive, otherwise a random live connection, otherwise a random tuple
  EmM* fe = 0; LiM* fl = 0; int fs = (int)g.r.below((u64)g.NS), fw = (int)g.r.below((u64)g.NW); bool ownL = false;
  if (sc) { if (sc->e->live) fe = sc->e; if (sc->l->live) { fl = sc->l; ownL = true; } fs = sc->sig; fw = sc->which; }
  else { EmM* e2; LiM* l2; int s2, w2; if (pickLiveRec(e2, s2, l2, w2)) { fe = e2; fl = l2; fs = s2; fw = w2; } }
  if (!fe) fe = randLiveE();
  if (!fl) fl = randLiveL();
  bool canEmit = (int)g.frames.n < g.maxDepth;
  char item[64]; snprintf(item, sizeof item, "%s@depth%d", KINDN[kind], depthNow()); setItem("action_at_depth", item);
  switch (kind) {
  case K_CONNECT: { EmM* e = randLiveE(); LiM* l = randLiveL(); int s = (int)g.r.below((u64)g.NS), wh = (int)g.r.below((u64)g.NW); if (e && l && liveCount(e, s) < 10) actConnect(e, s, l, wh); break; }
  case K_DISCONNECT: {
    EmM* e; LiM* l; int s, wh;
    if (g.r.chance(3, 4) && pickLiveRec(e, s, l, wh)) actDisconnect(e, s, l, wh);
    else { e = randLiveE(); l = randLiveL(); s = (int)g.r.below((u64)g.NS); wh = (int)g.r.below((u64)g.NW); if (e && l) actDisconnect(e, s, l, wh); }
    break; }
  case K_EMIT: {
    EmM* e; LiM* l; int s, wh;   // mostly a signal that has connections
    if (!(g.r.chance(3, 4) && pickLiveRec(e, s, l, wh))) { e = randLiveE(); s = (int)g.r.below((u64)g.NS); }
    if (e && canEmit) actEmit(e, s);
    break; }
  case K_DESTROY_L: { LiM* l = randLiveL(); if (l) actDestroyL(l, sc && l == sc->l); break; }
  case K_DESTROY_E: { EmM* e = randLiveE(); if (e) actDestroyE(e); break; }
  case K_RECREATE: {
    int cand[MAXE + MAXL], n = 0;
    for (int i = 0; i < g.NE; ++i) if (!g.em[i] || !g.em[i]->live) cand[n++] = i;
    for (int i = 0; i < g.NL; ++i) if (!g.li[i] || !g.li[i]->live) cand[n++] = 100 + i;
    if (n) { int c = cand[g.r.below((u64)n)]; if (c >= 100) actCreateL(c - 100); else actCreateE(c); }
    break; }
  case K_FOCUS_DISC: if (fe && fl) { actDisconnect(fe, fs, fl, fw); if (sc && ownL && fe == sc->e) cnt("self_disconnect_in_own_slot"); } break;
  case K_FOCUS_SEQ: if (fe && fl) {
      // 2..5 connect/disconnect steps on one connection, e.g. disconnect-connect-disconnect
      int n = (int)g.r.range(2, 5); bool startDisc = g.r.chance(3, 4); bool alternate = g.r.chance(3, 4); char pat[8]; int pn = 0;
      for (int i = 0; i < n; ++i) {
        bool disc = alternate ? ((i & 1) == 0) == startDisc : g.r.chance(1, 2);
        pat[pn++] = disc ? 'd' : 'c';
        if (disc) actDisconnect(fe, fs, fl, fw); else if (liveCount(fe, fs) < 10) actConnect(fe, fs, fl, fw);
      }
      pat[pn] = 0; if (strstr(pat, "dcd")) cnt(sc && fe->depth[fs] > 0 ? "dcd_sequences_signal_emitting" : "dcd_sequences_other"); cnt("self_sequences");
    } break;
  case K_FOCUS_DESTROY_L: if (fl) actDestroyL(fl, sc && fl == sc->l); break;
  case K_FOCUS_DESTROY_E: if (fe) actDestroyE(fe); break;
  case K_FOCUS_EMIT: if (fe && canEmit) actEmit(fe, fs); break;
  case K_FOCUS_CONNECT: if (fe && fl && liveCount(fe, fs) < 10) {
      int m = (int)g.r.below(4);
      if (m == 3) {   // the same listener slot to another signal of the same emitter that has the same arity (twin signal), if this emitter object has one
        int c[MAXS], n = 0; for (int s2 = 0; s2 < MAXS; ++s2) if (s2 != fs && fe->ar[s2] == fe->ar[fs] && liveCount(fe, s2) < 10) c[n++] = s2;
        if (n) actConnect(fe, c[g.r.below((u64)n)], fl, fw); else m = 0;
      }
      if (m == 0) actConnect(fe, fs, fl, fw);                         // the same slot again (duplicate, or re-connect after a disconnect)
      else if (m == 1) actConnect(fe, fs, fl, (int)g.r.below(2));     // this listener, either slot (may exceed NW on purpose)
      else { LiM* l = randLiveL(); if (l) actConnect(fe, fs, l, fw); }
    } break;
  }
}

// ------------------------------------------------------------------------------------------------ the slot monitor
static void onSlotAt(void* self, void* bodyThis, int body, int arity, int which, const long* vals) {
  cnt("slot_invocations"); ++g.invocations;
  if (g.frames.n == 0) fail("Emitter.emit/no-emission-in-progress/slot-invoked", "a slot (%s) was invoked while the harness is not inside any emit call", SLOTN9[arity][which]);
  size_t fi = g.frames.n - 1;
  EmM* e = g.frames[fi].e; int fsig = g.frames[fi].sig;
  LiM* l = liveListenerAt(self);
  const char* sus1 = g.suspect ? "; structures first diverged right after " : ""; const char* sus2 = g.suspect ? g.suspectCtx : "";
  if (!e->live) fail("Emitter.emit/emitter-destroyed/slot-invoked", "slot %s invoked by the emission of E%d.%s after that emitter was destroyed%s%s", SLOTN9[arity][which], e->idx, SN(e, fsig), sus1, sus2);
  if (!l) {   // not a live listener's slot-declaring subobject: a `this` that points elsewhere into a live receiver object is its own kind of divergence
    LiM* around = liveListenerAround(bodyThis); if (!around) around = liveListenerAround(self);
    if (around) { char key[160]; snprintf(key, sizeof key, "Emitter.emit/receiver-shape=%s/slot-invoked-with-misadjusted-this", LSN[around->shape]);
      fail(key, "emission of E%d.%s invoked slot %s with this = receiver object of L%d %+ld bytes, but the subobject of the class that declares the slot lies at %+ld bytes (receiver class shape %s)%s%s",
           e->idx, SN(e, fsig), SLOTN9[arity][which], around->idx, (long)((char*)bodyThis - (char*)around->top), (long)((char*)(body ? around->top : (void*)around->obj) - (char*)around->top), LSN[around->shape], sus1, sus2); }
  }
  if (!l) fail("Emitter.emit/listener-destroyed/slot-invoked", "emission of E%d.%s invoked slot %s on an object that is not a live listener (destroyed earlier)%s%s", e->idx, SN(e, fsig), SLOTN9[arity][which], sus1, sus2);
  histf("-> L%d.%s", l->idx, SLOTN9[arity][which]);
  {  // the function body the slot pointer had to reach for this receiver class, and the `this` it had to run with
    int wantBody = l->shape == LS_SECONDARY_OWN || (l->shape == LS_SECONDARY_OVERRIDE && which == 1) ? 1 : 0;
    if (body != wantBody) { char key[160]; snprintf(key, sizeof key, "Emitter.emit/receiver-shape=%s/wrong-function-body", LSN[l->shape]);
      fail(key, "emission of E%d.%s invoked slot %s of L%d (receiver class shape %s) in the body of %s, expected the body of %s", e->idx, SN(e, fsig), SLOTN9[arity][which], l->idx, LSN[l->shape],
           body ? "the derived class" : "class Li", wantBody ? "the derived class (final overrider / own slot)" : "class Li"); }
    if (bodyThis != (body ? l->top : (void*)l->obj)) { char key[160]; snprintf(key, sizeof key, "Emitter.emit/receiver-shape=%s/slot-invoked-with-misadjusted-this", LSN[l->shape]);
      fail(key, "emission of E%d.%s invoked slot %s of L%d with this off by %ld bytes (receiver class shape %s)", e->idx, SN(e, fsig), SLOTN9[arity][which], l->idx, (long)((char*)bodyThis - (char*)(body ? l->top : (void*)l->obj)), LSN[l->shape]); }
  }
  if (arity != e->ar[fsig]) fail("Emitter.emit/other-signal/slot-invoked", "emission of E%d.%s invoked L%d.%s, a slot of another signal", e->idx, SN(e, fsig), l->idx, SLOTN9[arity][which]);
  int sig = fsig;
  Vec<Rec>& v = e->recs[sig];
  size_t p = nextExpected(g.frames[fi]);
  if (p == NPOS || v[p].l != l || v[p].which != which) {
    bool laterEligible = false, liveYoung = false, deadInEmission = false, earlierEligible = false; int deadWhy = 0;
    for (size_t q = 0; q < v.n; ++q) if (v[q].l == l && v[q].which == which) {
      if (v[q].live && v[q].serial < e->outerStart[sig]) { if (p != NPOS && q > p) laterEligible = true; else earlierEligible = true; }
      else if (v[q].live) liveYoung = true;
      else { deadInEmission = true; deadWhy = v[q].why; }
    }
    char exp[64]; if (p == NPOS) snprintf(exp, sizeof exp, "the end of the emission"); else snprintf(exp, sizeof exp, "L%d.%s", v[p].l->idx, LN(e, sig, v[p].which));
    if (laterEligible) fail(shapedKey("Emitter.emit/connected-slot/skipped", e, l), "emission of E%d.%s invoked L%d.%s but the model expects %s first (connected before the outermost emission began, still connected, not yet invoked)%s%s", e->idx, SN(e, sig), l->idx, LN(e, sig, which), exp, sus1, sus2);
    if (earlierEligible) fail(shapedKey("Emitter.emit/connected-slot/invoked-again", e, l), "emission of E%d.%s invoked L%d.%s out of turn (its connection was already served in this emission); the model expects %s%s%s", e->idx, SN(e, sig), l->idx, LN(e, sig, which), exp, sus1, sus2);
    if (liveYoung) fail(shapedKey("Emitter.emit/connected-during-emission/slot-invoked", e, l), "emission of E%d.%s invoked L%d.%s, which was connected only after the outermost emission of that signal still in progress began; the model expects %s%s%s", e->idx, SN(e, sig), l->idx, LN(e, sig, which), exp, sus1, sus2);
    if (deadInEmission) fail(shapedKey(deadWhy == W_DISC_EMITTING ? "Emitter.emit/disconnected-during-emission/slot-invoked" : "Emitter.emit/disconnected/slot-invoked", e, l), "emission of E%d.%s invoked L%d.%s after it was disconnected; the model expects %s%s%s", e->idx, SN(e, sig), l->idx, LN(e, sig, which), exp, sus1, sus2);
    fail(shapedKey("Emitter.emit/not-connected/slot-invoked", e, l), "emission of E%d.%s invoked L%d.%s, which has no live connection to that signal (disconnected earlier or never connected); the model expects %s%s%s", e->idx, SN(e, sig), l->idx, LN(e, sig, which), exp, sus1, sus2);
  }
  noteSkipped(g.frames[fi], g.frames[fi].pos, p);
  g.frames[fi].pos = p + 1; ++g.frames[fi].invoked;
  for (int a = 0; a < arity; ++a) if (vals[a] != argVal(g.frames[fi].arg, a))
    fail("Emitter.emit/argument/value", "slot L%d.%s received %ld as argument #%d of %d, the emission passed %ld", l->idx, LN(e, sig, which), vals[a], a, arity, argVal(g.frames[fi].arg, a));
  arEv(arity, AE_INVOKED); arEv(arity, AE_ARGUMENTS_COMPARED, arity); sgEv(e->sid[sig], SE_INVOKED);
  lsEv(l->shape, LE_INVOKED); if (which == 1) lsEv(l->shape, LE_INVOKED_VIRTUAL_SLOT); if (body) lsEv(l->shape, LE_INVOKED_DERIVED_BODY); esEv(e->shape, EE_INVOKED); ++g_pairInvoked[e->shape][l->shape];
  if (liveOnOtherSignals(e, sig, l, which)) cnt("invoked_slot_also_on_other_signal_of_emitter");
  cnt("invocations_matched");
  // ---- nested actions, drawn from the same stream
  SlotCtx sc; sc.e = e; sc.sig = sig; sc.l = l; sc.which = which;
  if (g.script) { g.script(sc); return; }
  if (g.slotBudget <= 0 || !g.r.chance((u32)g.nestNum, (u32)g.nestDen)) return;
  int n = g.r.chance(1, 2) ? 1 : (int)g.r.range(2, 3);
  for (int i = 0; i < n && g.slotBudget > 0; ++i) { --g.slotBudget; ++g.nestedActions; cnt("nested_actions"); randomAction(&sc); }
}

// ------------------------------------------------------------------------------------------------ case driver
static void resetCase() {
  for (int i = 0; i < MAXE; ++i) g.em[i] = 0;
  for (int i = 0; i < MAXL; ++i) g.li[i] = 0;
  g.frames.clear(); g.serial = 1; g.clock = 1; g.gen = 0; g.argSeq = 1000; g.fp = 0; g.invocations = 0; g.nestedActions = 0; g.maxDepthSeen = 0; g.script = 0; g.fixedAr = -1; g.fixedLShape = g.fixedEShape = 0; g.shapesAll = false; g.ptrMode = 0; g.fixedTwin = false; g.npal = NAR; for (int i = 0; i < NAR; ++i) g.pal[i] = i; g.twinNum = 2; g.suspect = false; g.topAction = "setup";
  g.NE = 1; g.NL = 1; g.NS = 2; g.NW = 2; g.maxDepth = 4; g.nestNum = 0; g.nestDen = 1; g.slotBudget = 0;
  for (int i = 0; i < NKINDS; ++i) g.w[i] = 1;
  ElemReg::reset();
}
static void freeModels() {
  for (size_t i = 0; i < g.allE.n; ++i) { if (g.allE[i]->live) harnessBug("emitter model still live at the end of the case"); delete g.allE[i]; }
  for (size_t i = 0; i < g.allL.n; ++i) { if (g.allL[i]->live) harnessBug("listener model still live at the end of the case"); delete g.allL[i]; }
  g.allE.clear(); g.allL.clear();
}
static void top(const char* name) { g.topAction = name; }

// final sweep: every signal index of every live emitter that ever had a connection is emitted once more at top level, without nested actions. Whatever record the
// library kept although the connection is gone, lost although it is live, or filed in another order than the connection order becomes a wrong / missing / misordered
// invocation here at the latest - also when the program itself never emitted that signal again (the only way the fallback flavour gets to see such a record)
static void finalSweep() {
  long savedBudget = g.slotBudget; void (*savedScript)(const SlotCtx&) = g.script; g.slotBudget = 0; g.script = 0;
  for (int i = 0; i < g.NE; ++i) {
    EmM* e = g.em[i]; if (!e || !e->live) continue;
    for (int s = 0; s < MAXS; ++s) if (e->everConn[s]) { top("final-sweep-emit"); size_t before = liveCount(e, s); actEmit(e, s); quiescentCheck(); cnt("final_sweep_emissions"); cnt("final_sweep_invocations_matched", (long)before); }
  }
  g.slotBudget = savedBudget; g.script = savedScript;
}

static void destroyEverything() {
  finalSweep();
  // remaining objects go in random order, with a quiescent check after each
  for (;;) {
    int cand[MAXE + MAXL], n = 0;
    for (int i = 0; i < g.NE; ++i) if (g.em[i] && g.em[i]->live) cand[n++] = i;
    for (int i = 0; i < g.NL; ++i) if (g.li[i] && g.li[i]->live) cand[n++] = 100 + i;
    if (!n) break;
    int c = cand[g.r.below((u64)n)];
    if (c >= 100) { top("final-destroy-listener"); actDestroyL(g.li[c - 100], false); } else { top("final-destroy-emitter"); actDestroyE(g.em[c]); }
    quiescentCheck();
  }
  setctx("Callback/end-of-case");
  ElemReg::checkBalanced("Emitter.emit/argument");
  freeModels();
}

static void randomPrograms() {
  for (long idx = opts.start; idx < opts.start + opts.cases; ++idx) {
    if (!mine(idx)) continue;
    beginCase(idx);
    resetCase();
    g.r.seed(opts.seed, 1201, (u64)idx);
    Rng& r = g.r;
    bool tiny = r.chance(1, 4);   // dense universe: everything happens to the same one or two connections
    g.NE = tiny ? (int)r.range(1, 2) : (int)r.range(2, 3);
    g.NL = tiny ? (int)r.range(1, 2) : (int)r.range(2, 4);
    g.NS = tiny ? (r.chance(1, 3) ? 2 : 1) : (int)r.range(1, MAXS);
    g.twinNum = tiny ? (int)r.range(2, 4) : (int)r.range(0, 4);   // chance/4 that a signal index of an emitter object is the same-arity twin of an earlier one
    if (r.chance(1, 2)) { g.npal = (int)r.range(2, 3); for (int i = 0; i < g.npal; ++i) { int j = i + (int)r.below((u64)(NAR - i)); int t = g.pal[i]; g.pal[i] = g.pal[j]; g.pal[j] = t; } }   // small palette of arities: emitters share arities
    g.NW = r.chance(1, 3) ? 1 : 2;
    g.fixedLShape = g.fixedEShape = -1; g.shapesAll = !r.chance(1, 8); g.ptrMode = r.chance(3, 4) ? 1 : 0;   // class shapes: every listener / emitter object (also a recreated one) draws its own; 1 case in 8 keeps the plain shapes throughout
    g.maxDepth = r.chance(3, 4) ? 4 : (int)r.range(1, 3);
    { int c = (int)r.below(4); g.nestNum = c == 0 ? 1 : c == 1 ? 1 : c == 2 ? 2 : 9; g.nestDen = c == 0 ? 8 : c == 1 ? 3 : c == 2 ? 3 : 10; }
    g.slotBudget = r.range(40, 400);
    for (int i = 0; i < NKINDS; ++i) g.w[i] = r.chance(1, 4) ? 0 : (int)r.range(1, 8);
    g.w[K_CONNECT] += 2; g.w[K_EMIT] += 3;
    if (r.chance(1, 2)) { g.w[K_DESTROY_E] = (g.w[K_DESTROY_E] + 2) / 3; g.w[K_FOCUS_DESTROY_E] = (g.w[K_FOCUS_DESTROY_E] + 2) / 3; }
    if (g.w[K_DESTROY_L] + g.w[K_DESTROY_E] + g.w[K_FOCUS_DESTROY_L] + g.w[K_FOCUS_DESTROY_E] && !g.w[K_RECREATE]) g.w[K_RECREATE] = 2;
    int ntop = (int)r.range(6, r.chance(1, 6) ? 80 : 30);
    hist.addf("# C12 random program: emitters=%d listeners=%d signals/emitter=%d (drawn per emitter object: twin chance %d/4, %d arities in the palette) slots/signal=%d class shapes=%s maxdepth=%d nest=%d/%d budget=%ld top-level actions=%d\n# weights:", g.NE, g.NL, g.NS, g.twinNum, g.npal, g.NW, g.shapesAll ? "drawn per object" : "own", g.maxDepth, g.nestNum, g.nestDen, g.slotBudget, ntop);
    for (int i = 0; i < NKINDS; ++i) hist.addf(" %s=%d", KINDN[i], g.w[i]);
    hist.add("\n");
    top("setup");
    for (int i = 0; i < g.NE; ++i) actCreateE(i);
    for (int i = 0; i < g.NL; ++i) actCreateL(i);
    int nconn = (int)r.range(0, 2 * g.NL + 1);
    for (int i = 0; i < nconn; ++i) { EmM* e = randLiveE(); LiM* l = randLiveL(); actConnect(e, (int)r.below((u64)g.NS), l, (int)r.below((u64)g.NW)); }
    quiescentCheck();
    for (int t = 0; t < ntop; ++t) {
      top("action");
      size_t h0 = hist.n;
      randomAction(0);
      // name the top-level action for keys: first word of what was appended to the history
      if (hist.n > h0) { const char* s = hist.d + h0; top(!strncmp(s, "emit", 4) ? "emit" : !strncmp(s, "connect", 7) ? "connect" : !strncmp(s, "disconnect", 10) ? "disconnect" : !strncmp(s, "delete L", 8) ? "destroy-listener" : !strncmp(s, "delete E", 8) ? "destroy-emitter" : "create"); }
      quiescentCheck();
      cnt("top_level_actions");
    }
    destroyEverything();
    statMax("max_emission_depth", g.maxDepthSeen);
    statMax("max_slot_invocations_in_one_case", g.invocations);
    bool nontrivial = g.invocations >= 2 && g.nestedActions >= 1;
    if (idx % 1499 == 7 || (nontrivial && idx % 997 == 3)) sample("%.1500s", hist.c());
    endCase(g.fp, nontrivial);
  }
}

// ------------------------------------------------------------------------------------------------ exhaustive small programs
// Universe: E0, L0, L1, one signal, one slot per listener. Program = prefix (variant 0: connect L0, L1; variant 1: connect L0, L0 again, L1),
// emit, m top-level actions from an alphabet of 8, emit, emit. The nested actions are a stream of n digits from an alphabet of 10 that the slot
// invocations consume in execution order: an invocation performs actions until it reads 0 (stop) or the stream is exhausted.
// mode "exhMN": every one of the 2 * 8^M * 10^N programs (case index = mixed-radix number), e.g. exh23, exh34, on the 0-argument signal;
// mode "exhMNx": every one of those programs for every arity 0..8 (case index = program * 9 + arity).
static int x_nested[8]; static int x_n = 0, x_pos = 0;
static void scriptExh(const SlotCtx& sc) {
  while (x_pos < x_n) {
    int a = x_nested[x_pos++];
    if (a == 0) return;
    ++g.nestedActions; cnt("nested_actions");
    EmM* e = g.em[0]; LiM* self = sc.l->live ? sc.l : 0; LiM* other = g.li[sc.l->idx ^ 1]; if (other && !other->live) other = 0;
    char item[64]; snprintf(item, sizeof item, "exh-nested-%d@depth%d", a, depthNow()); setItem("action_at_depth", item);
    switch (a) {
    case 1: if (e->live && (int)g.frames.n < 4) actEmit(e, 0); break;
    case 2: if (e->live && self && liveCount(e, 0) < 10) actConnect(e, 0, self, 0); break;
    case 3: if (e->live && self) actDisconnect(e, 0, self, 0); break;
    case 4: if (e->live && other && liveCount(e, 0) < 10) actConnect(e, 0, other, 0); break;
    case 5: if (e->live && other) actDisconnect(e, 0, other, 0); break;
    case 6: if (self) actDestroyL(self, true); break;
    case 7: if (other) actDestroyL(other, false); break;
    case 8: if (e->live) actDestroyE(e); break;
    default: if (!g.em[0]->live) actCreateE(0); else if (!g.li[0]->live) actCreateL(0); else if (!g.li[1]->live) actCreateL(1); break;
    }
  }
}
static void exhaustivePrograms(int M, int N, bool allArities) {
  long total = 2; for (int i = 0; i < M; ++i) total *= 8; for (int i = 0; i < N; ++i) total *= 10;
  if (allArities) total *= NAR;
  long from = opts.cases < 0 ? 0 : opts.start, to = opts.cases < 0 ? total : opts.start + opts.cases; if (to > total) to = total;
  for (long idx = from; idx < to; ++idx) {
    if (!mine(idx)) continue;
    beginCase(idx);
    resetCase(); g.r.seed(opts.seed, 1202, (u64)idx);
    g.NE = 1; g.NL = 2; g.NS = 1; g.NW = 1;
    long c = idx; g.fixedAr = 0; if (allArities) { g.fixedAr = (int)(c % NAR); c /= NAR; }
    int variant = (int)(c % 2); c /= 2;
    int topd[8]; for (int i = 0; i < M; ++i) { topd[i] = (int)(c % 8); c /= 8; }
    x_n = N; x_pos = 0; for (int i = 0; i < N; ++i) { x_nested[i] = (int)(c % 10); c /= 10; }
    hist.addf("# C12 exhaustive program %ld of %ld: arity=%d variant=%d top=", idx, total, g.fixedAr, variant); for (int i = 0; i < M; ++i) hist.addf("%d", topd[i]); hist.add(" nested="); for (int i = 0; i < N; ++i) hist.addf("%d", x_nested[i]); hist.add("\n");
    top("setup"); actCreateE(0); actCreateL(0); actCreateL(1);
    actConnect(g.em[0], 0, g.li[0], 0); if (variant) actConnect(g.em[0], 0, g.li[0], 0); actConnect(g.em[0], 0, g.li[1], 0);
    quiescentCheck();
    g.script = scriptExh;
    for (int t = -1; t < M + 2; ++t) {
      int a = t < 0 || t >= M ? 0 : topd[t];
      EmM* e = g.em[0]; LiM* l = g.li[(a - 1) & 1];
      switch (a) {
      case 0: top("emit"); if (e->live) actEmit(e, 0); break;
      case 1: case 2: top("connect"); if (e->live && l->live) actConnect(e, 0, l, 0); break;
      case 3: case 4: top("disconnect"); if (e->live && l->live) actDisconnect(e, 0, l, 0); break;
      case 5: case 6: top("destroy-listener"); if (l->live) actDestroyL(l, false); break;
      default: top("destroy-emitter"); if (e->live) actDestroyE(e); break;
      }
      quiescentCheck(); cnt("top_level_actions");
    }
    g.script = 0;
    destroyEverything();
    statMax("max_emission_depth", g.maxDepthSeen);
    bool nontrivial = g.invocations >= 2 && g.nestedActions >= 1;
    if (idx % 100003 == 4711) sample("%.1500s", hist.c());
    endCase(g.fp, nontrivial);
    cnt("exhaustive_programs"); if (allArities) cnt("exhaustive_programs_all_arities");
  }
}

// ------------------------------------------------------------------------------------------------ scripted scenarios (probes for the findings; also run as fixed regression cases)
static int s_step = 0;
static void scriptDcd(const SlotCtx& sc) { if (s_step++ == 0) { actDisconnect(sc.e, sc.sig, sc.l, sc.which); actConnect(sc.e, sc.sig, sc.l, sc.which); actDisconnect(sc.e, sc.sig, sc.l, sc.which); } }
static void scriptDcDelete(const SlotCtx& sc) { if (s_step++ == 0) { actDisconnect(sc.e, sc.sig, sc.l, sc.which); actConnect(sc.e, sc.sig, sc.l, sc.which); actDestroyL(sc.l, true); } }
static void scriptDupDd(const SlotCtx& sc) { if (s_step++ == 0) { actDisconnect(sc.e, sc.sig, sc.l, sc.which); actDisconnect(sc.e, sc.sig, sc.l, sc.which); } }

static void scenario(int which, int arity) {
  resetCase(); g.NE = 1; g.NL = 2; s_step = 0; g.fixedAr = arity;
  hist.addf("# C12 scripted scenario %d, arity %d\n", which, arity);
  top("setup"); actCreateE(0); actCreateL(0); actCreateL(1);
  actConnect(g.em[0], 0, g.li[0], 0);
  if (which == 2) actConnect(g.em[0], 0, g.li[0], 0);
  actConnect(g.em[0], 0, g.li[1], 0);
  quiescentCheck();
  g.script = which == 0 ? scriptDcd : which == 1 ? scriptDcDelete : scriptDupDd;
  top("emit"); actEmit(g.em[0], 0); quiescentCheck();
  g.script = 0;
  top("emit"); actEmit(g.em[0], 0); quiescentCheck();
  if (g.li[0]->live) { top("destroy-listener"); actDestroyL(g.li[0], false); quiescentCheck(); }
  top("emit"); actEmit(g.em[0], 0); quiescentCheck();
  destroyEverything();
  cnt("scripted_scenarios");
}

// twin-signal scenarios: slot a of L0 is connected to BOTH same-arity signals of E0 (first sigK, then sigKb), then the connection made later is disconnected
// (variant 0: at top level, then both signals are emitted, L0 is deleted, both are emitted again; variant 1: by L0's own slot during the emission of sigK,
// which then deletes its listener; variant 2: at top level, then the emitter is deleted before the listener)
static void scriptTwinDiscDelete(const SlotCtx& sc) { if (s_step++ == 0) { actDisconnect(sc.e, 1, sc.l, sc.which); actDestroyL(sc.l, true); } }
static void scenarioTwin(int variant, int arity) {
  resetCase(); g.NE = 1; g.NL = 2; s_step = 0; g.fixedAr = arity; g.fixedTwin = true;
  hist.addf("# C12 scripted twin-signal scenario %d, arity %d\n", variant, arity);
  top("setup"); actCreateE(0); actCreateL(0); actCreateL(1);
  EmM* e = g.em[0];
  actConnect(e, 0, g.li[0], 0); actConnect(e, 1, g.li[0], 0); actConnect(e, 0, g.li[1], 0); actConnect(e, 1, g.li[1], 0);
  quiescentCheck();
  top("emit"); actEmit(e, 0); quiescentCheck(); actEmit(e, 1); quiescentCheck();
  if (variant == 1) { g.script = scriptTwinDiscDelete; top("emit"); actEmit(e, 0); quiescentCheck(); g.script = 0; }
  else { top("disconnect"); actDisconnect(e, 1, g.li[0], 0); quiescentCheck(); }
  top("emit"); actEmit(e, 0); quiescentCheck(); actEmit(e, 1); quiescentCheck();
  if (variant == 2) { top("destroy-emitter"); actDestroyE(e); quiescentCheck(); }
  else {
    if (g.li[0]->live) { top("destroy-listener"); actDestroyL(g.li[0], false); quiescentCheck(); }
    top("emit"); actEmit(e, 0); quiescentCheck(); actEmit(e, 1); quiescentCheck();
  }
  destroyEverything();
  cnt("scripted_scenarios"); cnt("scripted_twin_signal_scenarios");
}

// class-shape scenarios: the same short history for every (listener shape, emitter shape, arity): slots a and b (virtual) of L0 and slot a of L1 connected, emitted;
// L0.a disconnected at top level, emitted (must stay silent), connected again, emitted (one delivery, now last); then L0.b disconnects itself and the pending L0.a from
// inside its slot; emitted; both connected again and L0 deleted (even arities) or the emitter deleted (odd arities); emitted. L1 has the next shape in the list.
// Each once with the complete-object pointers in every call and once with disconnect() getting pointers to the base classes Li / Em where the class has one.
static void scriptShapeDisc(const SlotCtx& sc) { if (s_step++ == 0) { actDisconnect(sc.e, sc.sig, sc.l, 1); actDisconnect(sc.e, sc.sig, sc.l, 0); } }
static void scenarioShape(int lshape, int eshape, int arity, int ptrMode) {
  resetCase(); g.NE = 1; g.NL = 2; s_step = 0; g.fixedAr = arity; g.fixedEShape = eshape; g.ptrMode = ptrMode;
  hist.addf("# C12 scripted class-shape scenario: listener shape %s, emitter shape %s, arity %d, %s\n", LSN[lshape], ESN[eshape], arity, ptrMode ? "disconnect() gets base-class pointers" : "complete-object pointers throughout");
  top("setup"); actCreateE(0); g.fixedLShape = lshape; actCreateL(0); g.fixedLShape = (lshape + 1) % NLS; actCreateL(1);
  EmM* e = g.em[0]; LiM* l0 = g.li[0]; LiM* l1 = g.li[1];
  actConnect(e, 0, l0, 0); actConnect(e, 0, l0, 1); actConnect(e, 0, l1, 0); quiescentCheck();
  top("emit"); actEmit(e, 0); quiescentCheck();
  top("disconnect"); actDisconnect(e, 0, l0, 0); quiescentCheck();
  top("emit"); actEmit(e, 0); quiescentCheck();
  top("connect"); actConnect(e, 0, l0, 0); quiescentCheck();
  top("emit"); actEmit(e, 0); quiescentCheck();
  g.script = scriptShapeDisc; top("emit"); actEmit(e, 0); quiescentCheck(); g.script = 0;
  top("emit"); actEmit(e, 0); quiescentCheck();
  top("connect"); actConnect(e, 0, l0, 1); quiescentCheck(); actConnect(e, 0, l0, 0); quiescentCheck();
  top("emit"); actEmit(e, 0); quiescentCheck();
  if (arity & 1) { top("destroy-emitter"); actDestroyE(e); quiescentCheck(); }
  else { top("destroy-listener"); actDestroyL(l0, false); quiescentCheck(); top("emit"); actEmit(e, 0); quiescentCheck(); }
  destroyEverything();
  cnt("scripted_scenarios"); cnt("scripted_class_shape_scenarios");
}

static int probe(const char* key) {
  beginCase(-1);
  if (!strcmp(key, KEY_DISC)) { for (int k = 0; k < NAR; ++k) { scenario(0, k); scenario(2, k); } return 0; }
  if (!strcmp(key, KEY_LDESTROY)) { for (int k = 0; k < NAR; ++k) scenario(1, k); return 0; }
  harnessBug("unknown probe %s", key);
}

int main(int argc, char** argv) {
  init(argc, argv, "h_callback");
  checkKeysDistinct();
  if (opts.probe) { int rc = probe(opts.probe); flushWalkStats(); finish(); return rc; }
  if (!strcmp(opts.mode, "programs")) {
    // the three scripted scenarios (each for every arity) are part of every shard's workload (cheap), unless their trigger is a listed finding
    // (replay of a failing scripted scenario: --start -1 --cases 1)
    if ((opts.start == 0 && opts.cases != 1) || opts.start == -1) {
      beginCase(-1);
      for (int k = 0; k < NAR; ++k) {
        if (!excluded(KEY_DISC)) { scenario(0, k); scenario(2, k); }
        if (!excluded(KEY_LDESTROY)) scenario(1, k);
        for (int v = 0; v < 3; ++v) scenarioTwin(v, k);
        for (int ls = 0; ls < NLS; ++ls) for (int es = 0; es < NES; ++es) for (int pm = 0; pm <= 2; pm += 2) scenarioShape(ls, es, k, pm);
      }
      endCase(1, true);
    }
    if (opts.start >= 0) randomPrograms();
  }
  else if (!strncmp(opts.mode, "exh", 3) && opts.mode[3] >= '1' && opts.mode[3] <= '4' && opts.mode[4] >= '1' && opts.mode[4] <= '6' && (!opts.mode[5] || (opts.mode[5] == 'x' && !opts.mode[6])))
    exhaustivePrograms(opts.mode[3] - '0', opts.mode[4] - '0', opts.mode[5] == 'x');
  else harnessBug("unknown mode %s", opts.mode);
  flushArityStats();
  flushShapeStats();
  flushWalkStats();
  leakCheck("Callback/leak");
  finish();
  return 0;
}
