// h_process.cpp - C20: Process::Arguments against an independent getopt_long-convention reference (argv strings in exactly-sized heap
// blocks), and child processes started through every Process::start/open overload with a self-exec echo child (--child-echo).
// modes: args-exh (every vector of <= `scale` words over a token alphabet), args-rand (character-level random words),
//        proc (argv/env/exit code/stream cases), proc-bs (command lines with backslashes inside quoted segments),
//        proc-late (children that write to their redirected stdout/stderr only after the parent is inside join() / the destructor)
//        proc-multi (histories over several Process objects alive at once: open with redirects / close(stream subsets) / read / write /
//        join / kill / destruction interleaved, so that descriptor numbers released by one object are re-issued to another)
// All proc* modes run under the descriptor monitor of interpose/fd_track.cpp (every library call is made inside an fdtrack::Scope naming the
// object and the API entry) and compare the set of open descriptors of this process before and after every case.
#include "vh.hpp"
#include "scratch.hpp"
#include "../interpose/fd_track.hpp"
#include <fcntl.h>
#include <time.h>
#include <nstd/Process.hpp>
#include <nstd/List.hpp>
#include <nstd/Map.hpp>
#include <pthread.h>

using namespace vh;
extern char** environ;

typedef Vec<u8> Bytes;
static void bappend(Bytes& v, const void* p, size_t n) { if (!n) return; v.grow(v.n + n); memcpy(v.d + v.n, p, n); v.n += n; }
static u64 fnv(const void* p, size_t n, u64 h = 1469598103934665603ULL) { const u8* b = (const u8*)p; for (size_t i = 0; i < n; ++i) { h ^= b[i]; h *= 1099511628211ULL; } return h; }
static inline u8 pat(unsigned seed, unsigned stream, unsigned long i) { unsigned x = seed * 1000003u + stream * 7919u + (unsigned)i; x ^= x >> 7; x *= 0x9E3779B1u; return (u8)(x >> 24); }
static char g_key[240];
static const char* key(const char* fmt, ...) __attribute__((format(printf, 1, 2)));
static const char* key(const char* fmt, ...) { va_list ap; va_start(ap, fmt); vsnprintf(g_key, sizeof g_key, fmt, ap); va_end(ap); return g_key; }

// =================================================================================================== the echo child (plain libc only)
static void wrAll(int fd, const void* p, size_t n) { const char* c = (const char*)p; while (n) { ssize_t k = write(fd, c, n); if (k <= 0) _exit(97); c += k; n -= (size_t)k; } }
static long long monoNs() { struct timespec ts; clock_gettime(CLOCK_MONOTONIC, &ts); return (long long)ts.tv_sec * 1000000000LL + ts.tv_nsec; }
static int g_rf = -1;
static bool g_tolerant = false, g_dead[3] = { false, false, false };
// the child's own stdout/stderr: a failing write is recorded in the report ("W <fd> <errno>") before the child gives up with code 97
// (tolerant children - flag 128 - only stop writing to that stream: the parent may have closed its end on purpose)
static void wrStream(int fd, const void* p, size_t n) {
  const char* c = (const char*)p;
  if (g_tolerant && g_dead[fd]) return;
  while (n) { ssize_t k = write(fd, c, n); if (k <= 0) { int e = errno; char line[48]; int l = snprintf(line, sizeof line, "W %d %d\n", fd, e); if (g_rf >= 0) wrAll(g_rf, line, (size_t)l); if (g_tolerant) { g_dead[fd] = true; return; } _exit(97); } c += k; n -= (size_t)k; }
}
static int childMain(int argc, char** argv) {
  // argv: exe --child-echo <report file> <code,flags,outN,errN,seed[,delayMs[,inN]]> [test arguments...]
  // flags: 1 read stdin to end-of-file, 2/4 echo stdin to stdout/stderr, 8 payload before the stdin phase, 16 "late": sleep delayMs right before the payload
  //        is written (report line "T <CLOCK_MONOTONIC ns>" = the moment the sleep ended), 32 (with 16) SIGPIPE back to its default action,
  //        64 read exactly inN bytes from stdin (never waits for end-of-file: sibling children may hold copies of the write end), 128 tolerant:
  //        SIGPIPE ignored, a failing write to stdout/stderr only ends the output to that stream
  if (argc < 4) _exit(96);
  int code = 0, flags = 0; long outN = 0, errN = 0, delayMs = 0, inN = 0; unsigned long seed = 0;
  if (sscanf(argv[3], "%d,%d,%ld,%ld,%lu,%ld,%ld", &code, &flags, &outN, &errN, &seed, &delayMs, &inN) < 5) _exit(95);
  if (flags & 128) { g_tolerant = true; signal(SIGPIPE, SIG_IGN); }
  int rf = open(argv[2], O_WRONLY | O_CREAT | O_TRUNC, 0600); if (rf < 0) _exit(94);
  g_rf = rf;
  char line[64]; int k = snprintf(line, sizeof line, "A %d\n", argc); wrAll(rf, line, (size_t)k);
  for (int i = 0; i < argc; ++i) { k = snprintf(line, sizeof line, "%lu ", (unsigned long)strlen(argv[i])); wrAll(rf, line, (size_t)k); wrAll(rf, argv[i], strlen(argv[i])); wrAll(rf, "\n", 1); }
  int envc = 0; while (environ[envc]) ++envc;
  k = snprintf(line, sizeof line, "E %d\n", envc); wrAll(rf, line, (size_t)k);
  for (int i = 0; i < envc; ++i) { k = snprintf(line, sizeof line, "%lu ", (unsigned long)strlen(environ[i])); wrAll(rf, line, (size_t)k); wrAll(rf, environ[i], strlen(environ[i])); wrAll(rf, "\n", 1); }
  static u8 buf[65536];
  for (int phase = 0; phase < 2; ++phase) {
    bool payload = (phase == 0) == ((flags & 8) != 0);
    if (payload) {   // interleave stdout (stream 1) and stderr (stream 2) chunks
      if (flags & 16) {
        if (flags & 32) signal(SIGPIPE, SIG_DFL);
        struct timespec ts; ts.tv_sec = delayMs / 1000; ts.tv_nsec = (delayMs % 1000) * 1000000L; while (nanosleep(&ts, &ts) != 0 && errno == EINTR) {}
        k = snprintf(line, sizeof line, "T %lld\n", monoNs()); wrAll(rf, line, (size_t)k);
      }
      long o = 0, e = 0; unsigned lcg = (unsigned)seed * 2654435761u + 12345u;
      while (o < outN || e < errN) {
        lcg = lcg * 1664525u + 1013904223u; long c = 1 + (long)((lcg >> 8) % 8192);
        if (o < outN) { long n = outN - o < c ? outN - o : c; for (long i = 0; i < n; ++i) buf[i] = pat((unsigned)seed, 1, (unsigned long)(o + i)); wrStream(1, buf, (size_t)n); o += n; }
        if (e < errN) { long n = errN - e < c ? errN - e : c; for (long i = 0; i < n; ++i) buf[i] = pat((unsigned)seed, 2, (unsigned long)(e + i)); wrStream(2, buf, (size_t)n); e += n; }
      }
    } else if (flags & 1) {
      unsigned long total = 0; u64 h = 1469598103934665603ULL;
      for (;;) { ssize_t n = read(0, buf, sizeof buf); if (n < 0) _exit(93); if (!n) break; total += (unsigned long)n; h = fnv(buf, (size_t)n, h); if (flags & 2) wrStream(1, buf, (size_t)n); if (flags & 4) wrStream(2, buf, (size_t)n); }
      k = snprintf(line, sizeof line, "I %lu %llu\n", total, (unsigned long long)h); wrAll(rf, line, (size_t)k);
    } else if (flags & 64) {
      unsigned long total = 0; u64 h = 1469598103934665603ULL;
      while (total < (unsigned long)inN) { size_t want = (unsigned long)inN - total < sizeof buf ? (size_t)((unsigned long)inN - total) : sizeof buf; ssize_t n = read(0, buf, want); if (n < 0) _exit(93); if (!n) break; total += (unsigned long)n; h = fnv(buf, (size_t)n, h); }
      k = snprintf(line, sizeof line, "I %lu %llu\n", total, (unsigned long long)h); wrAll(rf, line, (size_t)k);
    }
  }
  wrAll(rf, "D\n", 2); close(rf);
  _exit(code);
}

// =================================================================================================== Process::Arguments
static const Process::Option OPTS[] = {
  { 'a', "alpha", Process::optionFlag },
  { 'b', 0, Process::optionFlag },
  { 'c', "gamma", Process::argumentFlag },
  { 'd', "delta", Process::argumentFlag | Process::optionalFlag },
  { 300, "omega", Process::optionFlag },
};
enum { NOPTS = sizeof OPTS / sizeof *OPTS };

// expected item. alt: the word was "--flag=value" for an option that takes no value - getopt_long reports an error; accepted encodings:
// ('?', word), (character, "") or (character, value)
struct Item { int ch; Text* arg; const char* cls; bool alt; int altCh; Text* altVal; };
struct Expect {
  Vec<Item> items; bool ambiguous; const char* why;
  ~Expect() { for (size_t i = 0; i < items.n; ++i) { delete items[i].arg; delete items[i].altVal; } }
  void emit(int ch, const char* a, size_t n, const char* cls) { Item it; it.ch = ch; it.arg = new Text; it.arg->add(a, n); it.cls = cls; it.alt = false; it.altCh = 0; it.altVal = 0; items.push(it); }
};
// Independent reference: the conventions of POSIX getopt / GNU getopt_long, operands reported in order with character 0 (libnstd's
// encoding): '?' + offending word (or "-x") for unknown options, ':' + option for a missing required value, "--" ends option processing.
static void reference(const char* const* w, const size_t* wl, int n, Expect& ex) {
  ex.ambiguous = false; ex.why = "";
  bool ended = false; int i = 0;
  while (i < n) {
    const char* s = w[i]; size_t l = wl[i]; ++i;
    if (ended) { ex.emit(0, s, l, "operand-after-terminator"); continue; }
    if (l == 0 || s[0] != '-') { ex.emit(0, s, l, "operand"); continue; }
    if (l == 1) { ex.emit(0, s, l, "single-dash"); continue; }
    if (s[1] == '-') {
      if (l == 2) { ended = true; continue; }
      const char* body = s + 2; size_t bl = l - 2; const char* eq = (const char*)memchr(body, '=', bl);
      size_t nl = eq ? (size_t)(eq - body) : bl; const Process::Option* o = 0;
      for (int k = 0; k < NOPTS; ++k) if (OPTS[k].name) { size_t ol = strlen(OPTS[k].name); if (ol == nl && !memcmp(OPTS[k].name, body, nl)) o = &OPTS[k]; else if (nl && nl < ol && !memcmp(OPTS[k].name, body, nl)) { ex.ambiguous = true; ex.why = "abbreviated long option"; } }
      if (ex.ambiguous) return;
      if (!o) { ex.emit('?', s, l, "long-unknown"); continue; }
      const char* val = eq ? eq + 1 : 0; size_t vl = eq ? bl - nl - 1 : 0;
      if (!(o->flags & Process::argumentFlag)) {
        if (eq) { ex.emit('?', s, l, "long-flag-with-value"); Item& it = ex.items.back(); it.alt = true; it.altCh = o->character; it.altVal = new Text; it.altVal->add(val, vl); }
        else ex.emit(o->character, "", 0, "long-flag");
      } else if (o->flags & Process::optionalFlag) { if (eq) ex.emit(o->character, val, vl, "long-optional-with-value"); else ex.emit(o->character, "", 0, "long-optional-bare"); }
      else if (eq) ex.emit(o->character, val, vl, "long-required-attached");
      else if (i < n) { ex.emit(o->character, w[i], wl[i], "long-required-detached"); ++i; }
      else ex.emit(':', s, l, "long-missing-value");
      continue;
    }
    for (size_t j = 1; j < l; ++j) {
      char c = s[j]; const Process::Option* o = 0; bool inCluster = l > 2;
      for (int k = 0; k < NOPTS; ++k) if (OPTS[k].character == (int)c) o = &OPTS[k];
      char dash[2] = { '-', c };
      if (!o) { ex.emit('?', dash, 2, inCluster ? "short-unknown-in-cluster" : "short-unknown"); continue; }
      if (!(o->flags & Process::argumentFlag)) { ex.emit(c, "", 0, inCluster ? (j == 1 ? "short-flag-first-in-cluster" : "short-flag-later-in-cluster") : "short-flag"); continue; }
      if (o->flags & Process::optionalFlag) {
        if (j + 1 < l) { ex.ambiguous = true; ex.why = "short option with optional value followed by more characters"; return; }
        ex.emit(c, "", 0, inCluster ? "short-optional-last-in-cluster" : "short-optional-bare"); continue;
      }
      if (j + 1 < l) { ex.emit(c, s + j + 1, l - j - 1, j == 1 ? "short-required-attached" : "short-required-attached-in-cluster"); break; }
      if (i < n) { ex.emit(c, w[i], wl[i], j == 1 ? "short-required-detached" : "short-required-detached-after-cluster"); ++i; break; }
      ex.emit(':', dash, 2, "short-missing-value"); break;
    }
  }
}

static long g_vectors = 0, g_items = 0, g_skipped = 0;
static void histVector(const char* const* w, const size_t* wl, int n) { hist.n = 0; if (hist.d) hist.d[0] = 0; hist.add("argv = [prog"); for (int i = 0; i < n; ++i) { hist.add(", \""); hist.addEsc(w[i], wl[i]); hist.add("\""); } hist.add("]\n"); }

static void runVector(const char* const* w, const size_t* wl, int n) {
  Expect ex; reference(w, wl, n, ex);
  if (ex.ambiguous) { ++g_skipped; return; }
  histVector(w, wl, n);
  bool cluster = false; for (int i = 0; i < n; ++i) if (wl[i] >= 3 && w[i][0] == '-' && w[i][1] != '-') cluster = true;
  // argv: exactly-sized heap blocks, pointer array without terminator slot
  int argc = n + 1; char** argv = (char**)malloc(sizeof(char*) * (size_t)argc);
  argv[0] = (char*)malloc(5); memcpy(argv[0], "prog", 5);
  for (int i = 0; i < n; ++i) { argv[i + 1] = (char*)malloc(wl[i] + 1); memcpy(argv[i + 1], w[i], wl[i]); argv[i + 1][wl[i]] = 0; }
  {
    setctx(cluster ? "Process.Arguments.read/clustered-short-options" : "Process.Arguments.read");
    Process::Arguments args(argc, argv, OPTS);
    size_t at = 0; bool afterAlt = false;
    for (int guard = 0;; ++guard) {
      if (guard > n * 40 + 40) fail("Process.Arguments.read/does-not-end", "read() keeps returning true after %d calls", guard);
      int ch = 0x7fffabcd; String arg("untouched");
      bool more = args.read(ch, arg);
      const char* ecls = at < ex.items.n ? ex.items[at].cls : "end-of-arguments"; if (afterAlt) ecls = "after-long-flag-with-value";
      if (!more) { if (at != ex.items.n) fail(key("Process.Arguments.read/%s/ended-early", ecls), "read() returned false after %lu of %lu expected items", (unsigned long)at, (unsigned long)ex.items.n); break; }
      if (at >= ex.items.n) { Text t; t.addEsc((const char*)arg, arg.length()); fail(key("Process.Arguments.read/%s/extra-item", ecls), "read() produced an item after the expected %lu: character %d argument \"%s\"", (unsigned long)ex.items.n, ch, t.c()); }
      Item& it = ex.items[at]; size_t al = arg.length(); const char* ad = (const char*)arg;
      bool ok = ch == it.ch && al == it.arg->n && !memcmp(ad, it.arg->c(), al);
      if (!ok && it.alt) ok = ch == it.altCh && (al == 0 || (al == it.altVal->n && !memcmp(ad, it.altVal->c(), al)));
      if (!ok) { Text t; t.addEsc(ad, al); Text e; e.addEsc(it.arg->c(), it.arg->n); fail(key("Process.Arguments.read/%s/%s", ecls, ch != it.ch ? "character" : "argument"), "item %lu: got character %d ('%c') argument \"%s\", expected %d ('%c') \"%s\"", (unsigned long)at, ch, ch > 32 && ch < 127 ? ch : '.', t.c(), it.ch, it.ch > 32 && it.ch < 127 ? it.ch : '.', e.c()); }
      setItem("item_classes", it.cls); afterAlt = it.alt; ++at; ++g_items;
    }
  }
  for (int i = 0; i < argc; ++i) free(argv[i]);
  free(argv);
  ++g_vectors;
}

static const char* TOK[] = { "-a", "-b", "-c", "-d", "-z", "-ab", "-abc", "-ac", "-cx", "-acx", "-az", "-zb", "-ad", "-c-", "--alpha", "--gamma", "--delta", "--zeta", "--omega",
                             "--gamma=x", "--gamma=", "--delta=x", "--delta=", "--zeta=x", "--alpha=x", "x", "-", "--", "", "=" };
enum { NTOK = sizeof TOK / sizeof *TOK };
static long powT(int e) { long r = 1; while (e-- > 0) r *= NTOK; return r; }
static void argsExhaustive() {
  // the case number printed in replay files is idx * 16 + scale, so that the driver's replay command (`--start <case> --cases 1`, no --scale) re-executes exactly that case
  bool replay = opts.cases >= 0 && opts.start >= 16;
  int maxWords = replay ? (int)(opts.start % 16) : (opts.scale > 1 ? (int)opts.scale : 4); if (maxWords < 1) maxWords = 1; if (maxWords > 5) maxWords = 5; int P = maxWords < 3 ? maxWords : 3;
  long total = 0; for (int l = 0; l <= P; ++l) total += powT(l);
  long lo = replay ? opts.start / 16 : opts.start, hi = opts.cases < 0 ? total : lo + opts.cases; if (hi > total) hi = total;
  for (long idx = lo; idx < hi; ++idx) {
    if (!mine(idx)) continue;
    beginCase(idx * 16 + maxWords);
    long v = idx; int n = 0; while (v >= powT(n)) { v -= powT(n); ++n; }
    const char* w[8]; size_t wl[8]; for (int i = 0; i < n; ++i) { w[i] = TOK[v % NTOK]; wl[i] = strlen(w[i]); v /= NTOK; }
    runVector(w, wl, n);
    int extra = n == P ? maxWords - P : 0;
    if (extra >= 1) for (int a = 0; a < NTOK; ++a) { w[n] = TOK[a]; wl[n] = strlen(TOK[a]); runVector(w, wl, n + 1); if (extra >= 2) for (int b = 0; b < NTOK; ++b) { w[n + 1] = TOK[b]; wl[n + 1] = strlen(TOK[b]); runVector(w, wl, n + 2); } }
    if (idx % 4999 == 11) { histVector(w, wl, n); sample("%s (and every extension by up to %d more tokens)", hist.c(), extra); }
    endCase(mix(21, (u64)idx), n >= 2);
  }
}
static void argsRandom() {
  static const char* FR[] = { "-", "-", "a", "b", "c", "d", "z", "=", "x", "alpha", "gamma", "delta", "omega", "zeta", "\xe9", "--", "-c", "--gamma" };
  for (long idx = opts.start; idx < opts.start + opts.cases; ++idx) {
    if (!mine(idx)) continue;
    beginCase(idx);
    Rng r(opts.seed, 2002, (u64)idx);
    u64 fp = 0;
    for (int rep = 0; rep < 32; ++rep) {
      int n = (int)r.range(0, 6); Text words[6]; const char* w[6]; size_t wl[6];
      for (int i = 0; i < n; ++i) { int nf = (int)r.range(0, 5); for (int f = 0; f < nf; ++f) words[i].add(FR[r.below(18)]); w[i] = words[i].c(); wl[i] = words[i].n; fp = mix(fp, fnv(w[i], wl[i])); }
      runVector(w, wl, n);
    }
    if (idx % 3001 == 1) sample("%s", hist.c());
    endCase(fp, true);
  }
}

// =================================================================================================== child processes
// ---- descriptor monitor glue (interpose/fd_track.cpp)
static unsigned long g_serial = 0;   // owner numbers of the Process objects of this run
static const char* const API_FORM[] = { "Process.start(commandLine)", "Process.start(executable,argc,argv)", "Process.open(commandLine)", "Process.open(executable,argc,argv)", "Process.open(executable,List)" };
static const char* const API_READ1 = "Process.read(buffer,length)";
static const char* const API_READ3 = "Process.read(buffer,length,streams)";
static const char* const API_WRITE = "Process.write";
static const char* const API_CLOSE = "Process.close(streams)";
static const char* const API_JOINX = "Process.join(exitCode)";
static const char* const API_JOIN = "Process.join()";
static const char* const API_KILL = "Process.kill";
static const char* const API_DTOR = "Process.~Process";
#define LIB(id, api) fdtrack::Scope lib_scope_((id), (api))
static void onFdViolation(const fdtrack::Violation& v) {
  bool self = v.releasedBy && v.releasedBy == v.owner && v.releasedIn[0];
  char k[240]; snprintf(k, sizeof k, "%s/%s%s%s", v.api, fdtrack::kindName(v.kind), self ? "/released-earlier-in=" : "", self ? v.releasedIn : "");
  char held[200] = "";
  if (v.kind == fdtrack::K_CLOSE_OTHER_OBJECT || v.kind == fdtrack::K_USE_OTHER_OBJECT) snprintf(held, sizeof held, "; that number is currently held by Process object #%lu (handed out during its %s)", v.other, v.otherApi);
  else if (v.kind == fdtrack::K_CLOSE_HARNESS || v.kind == fdtrack::K_USE_HARNESS) snprintf(held, sizeof held, "; that number is currently held by the application (a descriptor the harness opened itself)");
  else snprintf(held, sizeof held, "; the number is not open (EBADF)");
  char rel[200] = "";
  if (v.releasedBy) snprintf(rel, sizeof rel, "; it was last closed by Process object #%lu inside %s", v.releasedBy, v.releasedIn);
  fail(k, "inside %s, Process object #%lu calls %s on descriptor %d%s%s", v.api, v.owner, v.call, v.fd, held, rel);
}
// the open descriptors of this process (numbers < 4096) as a bitmap; the directory stream used for the listing is left out
struct FdSnap { unsigned char b[512]; int n; };
static void snapFds(FdSnap& s) {
  memset(&s, 0, sizeof s);
  DIR* d = opendir("/proc/self/fd"); if (!d) harnessBug("cannot list /proc/self/fd");
  int self = dirfd(d); struct dirent* e;
  while ((e = readdir(d))) { if (e->d_name[0] < '0' || e->d_name[0] > '9') continue; int fd = atoi(e->d_name); if (fd == self || fd >= 4096) continue; s.b[fd >> 3] |= (unsigned char)(1 << (fd & 7)); ++s.n; }
  closedir(d);
}
// quiescent point: every Process object of the case is gone - the process has to hold exactly the descriptors it held when the case began
static void fdQuiescent(const FdSnap& base, const char* cls) {
  FdSnap now; snapFds(now); cnt("fd_quiescent_checks"); statMax("fd_open_at_quiescence", now.n);
  if (!memcmp(now.b, base.b, sizeof now.b)) return;
  Text t; int extra = 0, missing = 0;
  for (int fd = 0; fd < 4096; ++fd) {
    bool a = base.b[fd >> 3] & (1 << (fd & 7)), b = now.b[fd >> 3] & (1 << (fd & 7)); if (a == b) continue;
    if (b) { char link[64], tgt[128]; snprintf(link, sizeof link, "/proc/self/fd/%d", fd); ssize_t l = readlink(link, tgt, sizeof tgt - 1); if (l < 0) l = 0; tgt[l] = 0; const char* api = fdtrack::createdIn(fd); t.addf(" +%d(%s%s%s)", fd, tgt, api[0] ? ", handed out in " : "", api); ++extra; }
    else { t.addf(" -%d", fd); ++missing; }
  }
  fail(key("Process.~Process/%s/%s", cls, extra ? "descriptors-left-open" : "descriptors-of-the-application-closed"), "after all Process objects of the case were destroyed the process holds %d descriptors, it held %d when the case began:%s (+ still open, - no longer open)", now.n, base.n, t.c());
}
// the object is destroyed: no descriptor handed out on its behalf may still be open
static void checkGone(unsigned long id, const char* cls) {
  int fds[8]; int n = fdtrack::ownedList(id, fds, 8); cnt("fd_objects_checked_after_destruction");
  if (!n) return;
  Text t; for (int i = 0; i < n && i < 8; ++i) t.addf(" %d(%s)", fds[i], fdtrack::createdIn(fds[i]));
  fail(key("Process.~Process/%s/descriptor-left-open", cls), "Process object #%lu was destroyed, %d descriptor(s) handed out on its behalf were never closed:%s", id, n, t.c());
}
// right after start/open: an object that keeps both the read and the write end of one pipe can never see end-of-file on it (nor can its child)
static void checkPipeEnds(unsigned long id, const char* api, const char* cls) {
  int fds[16]; int n = fdtrack::ownedList(id, fds, 16); if (n > 16) n = 16; cnt("fd_pipe_end_checks");
  struct stat st[16]; int acc[16];
  for (int i = 0; i < n; ++i) { if (fstat(fds[i], &st[i]) != 0 || !S_ISFIFO(st[i].st_mode)) acc[i] = -1; else { int fl = fcntl(fds[i], F_GETFL); acc[i] = fl < 0 ? -1 : (fl & O_ACCMODE); } }
  for (int i = 0; i < n; ++i) for (int j = 0; j < n; ++j)
    if (acc[i] == O_RDONLY && acc[j] == O_WRONLY && st[i].st_dev == st[j].st_dev && st[i].st_ino == st[j].st_ino)
      fail(key("%s/%s/both-ends-of-a-pipe-kept-open", api, cls), "after %s returned, Process object #%lu holds descriptor %d (read end) and descriptor %d (write end) of the same pipe: end-of-file can never arrive on it", api, id, fds[i], fds[j]);
}
static void fdStats() {
  cnt("fd_library_closes_observed", fdtrack::stat(fdtrack::S_LIB_CLOSES)); cnt("fd_library_descriptors_registered", fdtrack::stat(fdtrack::S_LIB_CREATES));
  cnt("fd_application_descriptors_registered", fdtrack::stat(fdtrack::S_HARNESS_CREATES));
  cnt("fd_numbers_reissued_to_another_object", fdtrack::stat(fdtrack::S_REUSE_OTHER_OBJECT)); cnt("fd_numbers_reissued_while_releaser_alive", fdtrack::stat(fdtrack::S_REUSE_RELEASER_ALIVE));
  cnt("fd_numbers_reissued_to_application", fdtrack::stat(fdtrack::S_REUSE_LIB_TO_HARNESS));
  cnt("fd_library_selects_observed", fdtrack::stat(fdtrack::S_LIB_SELECTS)); cnt("fd_library_reads_observed", fdtrack::stat(fdtrack::S_LIB_READS)); cnt("fd_library_writes_observed", fdtrack::stat(fdtrack::S_LIB_WRITES));
  cnt("fd_library_closes_of_unknown_origin", fdtrack::stat(fdtrack::S_LIB_CLOSES_UNKNOWN_ORIGIN));
}

struct Word { Text t; };
struct Reader { Process* p; unsigned long owner; uint mask; bool oneArg; size_t chunk; Bytes out, err; bool error; int lastErrno; long reads; };
static void* readerMain(void* a) {
  Reader& rd = *(Reader*)a; uint open = rd.mask; u8* buf = (u8*)malloc(rd.chunk);
  while (open) {
    ssize_t k; uint which;
    if (rd.oneArg) { LIB(rd.owner, API_READ1); k = rd.p->read(buf, rd.chunk); which = Process::stdoutStream; }
    else { which = open; LIB(rd.owner, API_READ3); k = rd.p->read(buf, rd.chunk, which); }
    ++rd.reads;
    if (k < 0) { rd.error = true; rd.lastErrno = errno; break; }
    if (which != Process::stdoutStream && which != Process::stderrStream) { rd.error = true; rd.lastErrno = -1; break; }
    if (k == 0) { open &= ~which; continue; }
    bappend(which == Process::stdoutStream ? rd.out : rd.err, buf, (size_t)k);
  }
  free(buf); return 0;
}

static char g_exe[512];
static const long SIZES[] = { 0, 1, 4095, 4096, 65535, 65536, 65537, 300000 };

// command-line rendering: words separated by single spaces; a word is a sequence of bare and double-quoted segments, '"' inside a quoted
// segment is written as \" (the reference reading: quotes group, \" is a quote character, everything else is literal)
static void renderWord(Rng& r, const Text& w, Text& out, bool wholeQuoted) {
  if (!w.n) { out.add("\"\""); return; }
  size_t pos = 0;
  while (pos < w.n) {
    size_t l = wholeQuoted ? w.n : (size_t)r.range(1, (long)(w.n - pos)); bool need = false;
    for (size_t i = 0; i < l; ++i) if (w.d[pos + i] == ' ' || w.d[pos + i] == '"') need = true;
    bool q = wholeQuoted || need || r.chance(1, 3);
    if (q) out.add("\"");
    for (size_t i = 0; i < l; ++i) { char c = w.d[pos + i]; if (c == '"') out.add("\\\""); else out.add(&c, 1); }
    if (q) out.add("\"");
    pos += l;
  }
}

struct EnvPair { Text k, v; };
static int cmpStr(const void* a, const void* b) { return strcmp(*(const char* const*)a, *(const char* const*)b); }

static void processCases(bool backslashMode) {
  signal(SIGPIPE, SIG_IGN);
  snprintf(g_exe, sizeof g_exe, "/proc/self/exe");   // resolves to this binary in the vfork child as well, even if the build cache has replaced the file meanwhile
  for (long idx = opts.start; idx < opts.start + opts.cases; ++idx) {
    if (!mine(idx)) continue;
    beginCase(idx);
    Rng r(opts.seed, backslashMode ? 2004 : 2003, (u64)idx);
    int form = backslashMode ? (r.chance(1, 2) ? 0 : 2) : (int)(idx % 5);   // 0 start(cmdline) 1 start(argv) 2 open(cmdline) 3 open(argv) 4 open(List)
    bool cmdForm = form == 0 || form == 2, openForm = form >= 2;
    static const char* FORM[] = { "Process.start(commandLine)", "Process.start(executable,argc,argv)", "Process.open(commandLine)", "Process.open(executable,argc,argv)", "Process.open(executable,List)" };
    uint streams = openForm ? (uint)((idx / 5) % 8) : 0;
    bool so = streams & Process::stdoutStream, se = streams & Process::stderrStream, si = streams & Process::stdinStream;
    long outN = so ? SIZES[r.below(8)] : 0, errN = se ? SIZES[r.below(8)] : 0, inN = si ? SIZES[r.below(8)] : 0;
    if (r.chance(1, 2)) { if (outN > 70000) outN = r.range(0, 3000); if (errN > 70000) errN = r.range(0, 3000); if (inN > 70000) inN = r.range(0, 3000); }
    int flags = (si ? 1 : 0) | (si && so && r.chance(2, 3) ? 2 : 0) | (si && se && r.chance(1, 2) ? 4 : 0) | (r.chance(1, 2) ? 8 : 0);
    int code = r.chance(1, 4) ? (int)(idx % 256) : (int)r.below(256); unsigned seed = (unsigned)r.below(1000000);
    // ---- argument vector
    int nargs = (int)r.range(0, 6); Vec<Word*> words;
    char report[300]; snprintf(report, sizeof report, "%s/r%ld", scratch::root, idx); unlink(report);
    char ctl[100]; snprintf(ctl, sizeof ctl, "%d,%d,%ld,%ld,%u", code, flags, outN, errN, seed);
    { Word* w = new Word; w->t.add(g_exe); words.push(w); w = new Word; w->t.add("--child-echo"); words.push(w); w = new Word; w->t.add(report); words.push(w); w = new Word; w->t.add(ctl); words.push(w); }
    for (int i = 0; i < nargs; ++i) {
      Word* w = new Word; int len = r.chance(1, 8) ? 0 : (int)r.range(1, r.chance(1, 10) ? 200 : 12);
      if (i == nargs - 1 && cmdForm && len == 0) len = 1;   // a trailing empty word is not expressible in the command-line form (see assumptions)
      for (int k = 0; k < len; ++k) {
        char c;
        if (backslashMode) { static const char A[] = "ab \\\\\\\"x/"; c = A[r.below(sizeof A - 1)]; if (c == '"' && k && w->t.d[k - 1] == '\\') c = 'q'; if (c == '\\' && k == len - 1) c = 'e'; }
        else if (cmdForm) { static const char A[] = "abXY09 \"  \"-_=./,:;'#$%&()*+<>?@[]^`{|}~!"; c = A[r.below(sizeof A - 1)]; }
        else { c = (char)r.range(1, 255); if (r.chance(1, 3)) { static const char S[] = " \"\\'\t\n$"; c = S[r.below(sizeof S - 1)]; } }
        w->t.add(&c, 1);
      }
      words.push(w);
    }
    // ---- environment
    Map<String, String> env; Vec<char*> expectEnv;
    int nenv = r.chance(2, 5) ? 0 : (int)r.range(1, 5);
    for (int i = 0; i < nenv; ++i) {
      char k[40]; int kl = snprintf(k, sizeof k, "VT_%c%d%s", (char)('A' + r.below(26)), i, r.chance(1, 4) ? "_long_name" : "");
      Text v; int vl = r.chance(1, 5) ? 0 : (int)r.range(1, 30); for (int j = 0; j < vl; ++j) { char c = (char)r.range(1, 255); if (r.chance(1, 4)) { static const char S[] = "= \"\\\n"; c = S[r.below(sizeof S - 1)]; } v.add(&c, 1); }
      env.insert(String(k, (usize)kl), String(v.c(), v.n));
      char* e = (char*)malloc((size_t)kl + 1 + v.n + 1); memcpy(e, k, (size_t)kl); e[kl] = '='; memcpy(e + kl + 1, v.c(), v.n); e[kl + 1 + v.n] = 0; expectEnv.push(e);
    }
    if (!nenv) {
      // inherited: set one variable through the library first, then the child has to see the parent's whole environment
      char val[32]; snprintf(val, sizeof val, "m%ld", idx); setctx("Process.setEnvironmentVariable");
      if (!Process::setEnvironmentVariable(String("VT_MARK"), String(val, strlen(val)))) fail("Process.setEnvironmentVariable/result", "returned false");
      String back = Process::getEnvironmentVariable(String("VT_MARK"));
      if (back.length() != strlen(val) || memcmp((const char*)back, val, strlen(val))) fail("Process.getEnvironmentVariable/value", "does not return the value that was just set");
      for (char** e = environ; *e; ++e) expectEnv.push(strdup(*e));
    }
    qsort(expectEnv.d, expectEnv.n, sizeof(char*), cmpStr);
    // ---- history line
    hist.addf("%s streams=%s%s%s%s exit=%d stdout=%ld stderr=%ld stdin=%ld childflags=%d env=%s(%d)\n", FORM[form], so ? "out " : "", se ? "err " : "", si ? "in " : "", streams ? "" : "none", code, outN, errN, inN, flags, nenv ? "explicit" : "inherited", nenv);
    for (size_t i = 4; i < words.n; ++i) { hist.addf("  arg%lu = \"", (unsigned long)(i - 3)); hist.addEsc(words[i]->t.c(), words[i]->t.n); hist.add("\"\n"); }
    for (size_t i = 0; nenv && i < expectEnv.n; ++i) { hist.add("  env \""); hist.addEsc(expectEnv[i], strlen(expectEnv[i])); hist.add("\"\n"); }
    char ctxs[200]; snprintf(ctxs, sizeof ctxs, "%s/streams=%s%s%s%s,env=%s%s", FORM[form], so ? "o" : "", se ? "e" : "", si ? "i" : "", streams ? "" : "none", nenv ? "explicit" : "inherited", backslashMode ? ",backslash-inside-quotes" : "");
    setctxf("%s", ctxs);
    const char* F0 = FORM[form]; const char* bsTag = backslashMode ? ",backslash-inside-quotes" : "";
    char strs[40]; snprintf(strs, sizeof strs, "streams=%s%s%s%s", so ? "o" : "", se ? "e" : "", si ? "i" : "", streams ? "" : "none");
    // ---- spawn
    FdSnap fdBase; snapFds(fdBase);
    Process* p = new Process; bool started = false; unsigned long oid = ++g_serial; fdtrack::born(oid);
    { LIB(oid, API_FORM[form]);
    if (cmdForm) {
      Text cmd; for (size_t i = 0; i < words.n; ++i) { if (i) cmd.add(" "); bool bs = false; for (size_t k = 0; k < words[i]->t.n; ++k) if (words[i]->t.d[k] == '\\') bs = true; renderWord(r, words[i]->t, cmd, bs); }
      hist.add("  command line: "); hist.add(cmd.c()); hist.add("\n");
      String cl(cmd.c(), cmd.n);
      if (backslashMode) cpuBudget(5, "Process.splitCommandLine/backslash-inside-quotes/nonterminating");
      if (form == 0) { uint32 pid = p->start(cl, env); started = pid != 0; if (started && p->getProcessId() != pid) fail(key("%s/process-id", FORM[form]), "start returned %u but getProcessId() says %u", pid, p->getProcessId()); }
      else started = p->open(cl, streams, env);
      if (backslashMode) cpuBudget(0, 0);
    } else {
      bool terminated = r.chance(1, 2); int argc = (int)words.n + (terminated ? 1 : 0);
      char** argv = (char**)malloc(sizeof(char*) * (size_t)argc);
      for (size_t i = 0; i < words.n; ++i) { argv[i] = (char*)malloc(words[i]->t.n + 1); memcpy(argv[i], words[i]->t.c(), words[i]->t.n + 1); }
      if (terminated) argv[words.n] = 0;
      hist.addf("  argc=%d (%s)\n", argc, terminated ? "last element null" : "no terminator");
      String exe(g_exe, strlen(g_exe));
      if (form == 1) { uint32 pid = p->start(exe, argc, argv, env); started = pid != 0; if (started && p->getProcessId() != pid) fail(key("%s/process-id", FORM[form]), "start returned %u but getProcessId() says %u", pid, p->getProcessId()); }
      else if (form == 3) started = p->open(exe, argc, argv, streams, env);
      else { List<String> l; for (size_t i = 0; i < words.n; ++i) l.append(String(words[i]->t.c(), words[i]->t.n)); started = p->open(exe, l, streams, env); }
      for (size_t i = 0; i < words.n; ++i) free(argv[i]);
      free(argv);
    }
    }
    if (!started) fail(key("%s/not-started", FORM[form]), "returned failure: %s", strerror(errno));
    if (!p->isRunning()) fail(key("%s/isRunning", FORM[form]), "isRunning() is false right after a successful start");
    checkPipeEnds(oid, FORM[form], strs);
    // ---- streams
    Reader rd; rd.p = p; rd.owner = oid; rd.mask = streams & (Process::stdoutStream | Process::stderrStream); rd.oneArg = rd.mask == Process::stdoutStream && r.chance(1, 2);
    rd.chunk = (size_t)(r.chance(1, 3) ? r.range(1, 300) : r.chance(1, 2) ? 4096 : r.range(60000, 70000)); rd.error = false; rd.lastErrno = 0; rd.reads = 0;
    pthread_t th; bool haveReader = rd.mask != 0;
    if (haveReader && pthread_create(&th, 0, readerMain, &rd) != 0) harnessBug("pthread_create");
    Bytes inData;
    if (si) {
      inData.grow((size_t)inN + 1); for (long i = 0; i < inN; ++i) inData.d[i] = pat(seed, 3, (unsigned long)i); inData.n = (size_t)inN;
      long off = 0; size_t wchunk = (size_t)(r.chance(1, 2) ? r.range(1, 5000) : 400000);
      while (off < inN) { size_t n = (size_t)(inN - off) < wchunk ? (size_t)(inN - off) : wchunk; u8* blk = (u8*)malloc(n); memcpy(blk, inData.d + off, n); ssize_t k; { LIB(oid, API_WRITE); k = p->write(blk, n); } free(blk); if (k <= 0) fail(key("%s/%s/write", F0, strs), "Process::write returned %ld after %ld of %ld bytes: %s", (long)k, off, inN, strerror(errno)); off += k; }
      { LIB(oid, API_CLOSE); p->close(Process::stdinStream); }
    }
    if (haveReader) pthread_join(th, 0);
    if (rd.error) fail(key("%s/%s/read-error", F0, strs), "Process::read failed (errno %d) before end-of-file", rd.lastErrno);
    uint32 got = 0xdeadbeef; bool j; { LIB(oid, API_JOINX); j = p->join(got); }
    if (!j) fail(key("%s/join-result", F0), "join returned false: %s", strerror(errno));
    if (got != (uint32)code) fail(key("%s/code%s/exit-code", F0, code >= 128 ? ">=128" : "<128"), "join reported exit code %u, the child exited with %d", got, code);
    if (p->isRunning()) fail(key("%s/isRunning-after-join", F0), "isRunning() still true after join");
    { LIB(oid, API_DTOR); delete p; }
    fdtrack::retire(oid); checkGone(oid, strs);
    // ---- streams content
    Bytes wantOut, wantErr;
    for (int phase = 0; phase < 2; ++phase) {
      bool payload = (phase == 0) == ((flags & 8) != 0);
      if (payload) { size_t o0 = wantOut.n; wantOut.grow(o0 + (size_t)outN + 1); for (long i = 0; i < outN; ++i) wantOut.d[o0 + (size_t)i] = pat(seed, 1, (unsigned long)i); wantOut.n = o0 + (size_t)outN;
                     size_t e0 = wantErr.n; wantErr.grow(e0 + (size_t)errN + 1); for (long i = 0; i < errN; ++i) wantErr.d[e0 + (size_t)i] = pat(seed, 2, (unsigned long)i); wantErr.n = e0 + (size_t)errN; }
      else { if (flags & 2) bappend(wantOut, inData.d, inData.n); if (flags & 4) bappend(wantErr, inData.d, inData.n); }
    }
    if (so && (rd.out.n != wantOut.n || (wantOut.n && memcmp(rd.out.d, wantOut.d, wantOut.n)))) { size_t at = 0; while (at < rd.out.n && at < wantOut.n && rd.out.d[at] == wantOut.d[at]) ++at; fail(key("%s/%s/stdout-bytes", F0, strs), "read %lu bytes from the child's stdout until end-of-file, it wrote %lu; first difference at %lu", (unsigned long)rd.out.n, (unsigned long)wantOut.n, (unsigned long)at); }
    if (se && (rd.err.n != wantErr.n || (wantErr.n && memcmp(rd.err.d, wantErr.d, wantErr.n)))) { size_t at = 0; while (at < rd.err.n && at < wantErr.n && rd.err.d[at] == wantErr.d[at]) ++at; fail(key("%s/%s/stderr-bytes", F0, strs), "read %lu bytes from the child's stderr until end-of-file, it wrote %lu; first difference at %lu", (unsigned long)rd.err.n, (unsigned long)wantErr.n, (unsigned long)at); }
    cnt("stream_bytes_compared", (long)(wantOut.n * so + wantErr.n * se)); cnt("stdin_bytes_written", inN); cnt("reads", rd.reads);
    // ---- report: argv, environment, stdin digest
    Bytes rep; { int fd = open(report, O_RDONLY); if (fd < 0) fail(key("%s/child-did-not-run", F0), "the child wrote no report (exec failed?)"); u8 b[8192]; for (;;) { ssize_t k = read(fd, b, sizeof b); if (k <= 0) break; bappend(rep, b, (size_t)k); } close(fd); unlink(report); }
    { u8 z = 0; bappend(rep, &z, 1); }
    const char* q = (const char*)rep.d; const char* qe = q + rep.n - 1;
    long cargc = -1; if (sscanf(q, "A %ld\n", &cargc) != 1) harnessBug("bad report"); q = strchr(q, '\n') + 1;
    if (cargc != (long)words.n) fail(key("%s%s/argc", F0, bsTag), "child got %ld arguments, %lu were given", cargc, (unsigned long)words.n);
    for (size_t i = 0; i < words.n; ++i) {
      unsigned long l = strtoul(q, (char**)&q, 10); ++q; if (q + l > qe) harnessBug("bad report (argv)");
      if (l != words[i]->t.n || memcmp(q, words[i]->t.c(), l)) { Text g, e; g.addEsc(q, l > 300 ? 300 : l); e.addEsc(words[i]->t.c(), words[i]->t.n > 300 ? 300 : words[i]->t.n); fail(key("%s%s/argv", F0, bsTag), "argv[%lu] in the child is \"%s\", given \"%s\"", (unsigned long)i, g.c(), e.c()); }
      q += l + 1; cnt("argv_strings_compared");
    }
    long cenvc = -1; if (sscanf(q, "E %ld\n", &cenvc) != 1) harnessBug("bad report (env header)"); q = strchr(q, '\n') + 1;
    Vec<char*> gotEnv; for (long i = 0; i < cenvc; ++i) { unsigned long l = strtoul(q, (char**)&q, 10); ++q; if (q + l > qe) harnessBug("bad report (env)"); char* e = (char*)malloc(l + 1); memcpy(e, q, l); e[l] = 0; gotEnv.push(e); q += l + 1; }
    qsort(gotEnv.d, gotEnv.n, sizeof(char*), cmpStr);
    bool envOk = gotEnv.n == expectEnv.n; for (size_t i = 0; envOk && i < gotEnv.n; ++i) if (strcmp(gotEnv[i], expectEnv[i])) envOk = false;
    if (!envOk) { Text t; for (size_t i = 0; i < gotEnv.n && i < 8; ++i) { const char* eq = strchr(gotEnv[i], '='); size_t nl = eq ? (size_t)(eq - gotEnv[i]) : strlen(gotEnv[i]); t.add(" "); t.addEsc(gotEnv[i], nl > 40 ? 40 : nl); } /* names only: values of the inherited environment do not belong in reports */ fail(key("%s/env=%s/environment", F0, nenv ? "explicit" : "inherited"), "child environment has %lu variables, expected %lu (%s); child sees the variables:%s ...", (unsigned long)gotEnv.n, (unsigned long)expectEnv.n, nenv ? "exactly the given map" : "the parent's environment", t.c()); }
    cnt("env_strings_compared", (long)gotEnv.n);
    if (si) { unsigned long il = 0; unsigned long long ih = 0; const char* ip = strstr(q, "I "); if (!ip || sscanf(ip, "I %lu %llu", &il, &ih) != 2) fail(key("%s/%s/stdin-bytes", F0, strs), "child reported no stdin digest"); if (il != (unsigned long)inN || ih != fnv(inData.d, inData.n)) fail(key("%s/%s/stdin-bytes", F0, strs), "child read %lu bytes from stdin (digest %llx), %ld were written (digest %llx)", il, ih, inN, (unsigned long long)fnv(inData.d, inData.n)); }
    if (!strstr(q, "D\n")) fail(key("%s/child-incomplete", F0), "child report is incomplete");
    for (size_t i = 0; i < gotEnv.n; ++i) free(gotEnv[i]);
    for (size_t i = 0; i < expectEnv.n; ++i) free(expectEnv[i]);
    for (size_t i = 0; i < words.n; ++i) delete words[i];
    cnt("processes"); setItem("overloads", FORM[form]); { char s[16]; snprintf(s, sizeof s, "%u", streams); setItem("stream_sets", s); } setItem("env_kinds", nenv ? "explicit" : "inherited");
    { char s[48]; snprintf(s, sizeof s, "%s,%s", FORM[form] + 8, nenv ? "explicit" : "inherited"); setItem("overload_x_env", s); }
    if (outN >= 65536 || errN >= 65536 || inN >= 65536) cnt("payloads_over_pipe_capacity");
    statMax("max_exit_code", code); { char s[8]; snprintf(s, sizeof s, "%d", code); setItem("exit_codes", s); }
    fdQuiescent(fdBase, strs);
    if (idx % 97 == 0) sample("%.1000s", hist.c());
    endCase(mix(mix(22, (u64)form * 8 + streams), mix((u64)code, (u64)nargs * 7 + (u64)nenv)), nargs > 0 || streams != 0);
  }
}


// =================================================================================================== late output: the child writes while the parent is inside join()
// The child sleeps a seeded 20..200 ms, then writes a payload that fits the pipe to its redirected stdout and/or stderr and exits with the given
// code. The parent does not read first: it calls join(exitCode) / join() / the destructor right after open(). The child can always finish on its
// own (nobody has to drain the pipe), so: join() reports the requested code, and the child's report proves that every write succeeded and
// that it reached its _exit ("D" line). Variant read-then-join: the parent reads to end-of-file first (blocks until the late bytes arrive).
static void lateCases() {
  signal(SIGPIPE, SIG_IGN);
  snprintf(g_exe, sizeof g_exe, "/proc/self/exe");
  static const uint SETS[] = { Process::stdoutStream, Process::stderrStream, Process::stdoutStream | Process::stderrStream, Process::stdoutStream | Process::stdinStream,
                               Process::stderrStream | Process::stdinStream, Process::stdoutStream | Process::stderrStream | Process::stdinStream };
  static const char* FORM[] = { "Process.open(commandLine)", "Process.open(executable,argc,argv)", "Process.open(executable,List)" };
  static const char* FIN[] = { "join(exitCode)", "join()", "destructor", "read-then-join" }; static const int FINSEQ[] = { 0, 0, 3, 2, 1 };
  for (long idx = opts.start; idx < opts.start + opts.cases; ++idx) {
    if (!mine(idx)) continue;
    beginCase(idx);
    Rng r(opts.seed, 2005, (u64)idx);
    int form = (int)(idx % 3); uint streams = SETS[(idx / 3) % 6]; int fin = FINSEQ[(idx + idx / 256) % 5]; int code = (int)(idx % 256);   // every code meets join(exitCode) within 512 consecutive cases
    bool so = streams & Process::stdoutStream, se = streams & Process::stderrStream, si = streams & Process::stdinStream;
    long delay = r.range(20, 200);
    long outN = so ? (r.chance(1, 5) ? 1 : r.range(2, 4096)) : 0, errN = se ? (r.chance(1, 5) ? 1 : r.range(2, 4096)) : 0;
    if (so && se && r.chance(1, 4)) { if (r.chance(1, 2)) outN = 0; else errN = 0; }
    bool sigDefault = r.chance(1, 2); int flags = 16 | (sigDefault ? 32 : 0) | (r.chance(1, 2) ? 8 : 0); unsigned seed = (unsigned)r.below(1000000);
    char report[300]; snprintf(report, sizeof report, "%s/l%ld", scratch::root, idx); unlink(report);
    char ctl[120]; snprintf(ctl, sizeof ctl, "%d,%d,%ld,%ld,%u,%ld", code, flags, outN, errN, seed, delay);
    const char* words[6]; int nw = 0; words[nw++] = g_exe; words[nw++] = "--child-echo"; words[nw++] = report; words[nw++] = ctl; if (r.chance(1, 2)) words[nw++] = "extra";
    Map<String, String> env; env.insert(String("VT_LATE"), String("1"));
    char strs[40]; snprintf(strs, sizeof strs, "streams=%s%s%s", so ? "o" : "", se ? "e" : "", si ? "i" : "");
    const char* F0 = FORM[form];
    hist.addf("%s %s: the child sleeps %ld ms, then writes stdout=%ld stderr=%ld bytes and exits with %d (SIGPIPE %s in the child); the parent calls %s right after open()\n",
              F0, strs, delay, outN, errN, code, sigDefault ? "default action" : "ignored", fin == 3 ? "read() to end-of-file, then join(exitCode)" : FIN[fin]);
    setctxf("%s/%s,late-output,%s", F0, strs, FIN[fin]);
    FdSnap fdBase; snapFds(fdBase);
    Process* p = new Process; bool started; unsigned long oid = ++g_serial; fdtrack::born(oid);
    { LIB(oid, API_FORM[form + 2]);
    if (form == 0) { Text cmd; for (int i = 0; i < nw; ++i) { if (i) cmd.add(" "); cmd.add(words[i]); } started = p->open(String(cmd.c(), cmd.n), streams, env); }
    else if (form == 1) { char* argv[6]; for (int i = 0; i < nw; ++i) argv[i] = strdup(words[i]); started = p->open(String(g_exe, strlen(g_exe)), nw, argv, streams, env); for (int i = 0; i < nw; ++i) free(argv[i]); }
    else { List<String> l; for (int i = 0; i < nw; ++i) l.append(String(words[i], strlen(words[i]))); started = p->open(String(g_exe, strlen(g_exe)), l, streams, env); }
    }
    if (!started) fail(key("%s/not-started", F0), "returned failure: %s", strerror(errno));
    checkPipeEnds(oid, F0, strs);
    long long t0 = monoNs(); uint32 got = 0xdeadbeef; bool haveCode = false; Reader rd; rd.error = false; rd.owner = oid;
    switch (fin) {
    case 0: { bool j; { LIB(oid, API_JOINX); j = p->join(got); } if (!j) fail(key("%s/%s,late-output,%s/join-result", F0, strs, FIN[fin]), "join returned false: %s", strerror(errno)); haveCode = true; break; }
    case 1: { bool j; { LIB(oid, API_JOIN); j = p->join(); } if (!j) fail(key("%s/%s,late-output,%s/join-result", F0, strs, FIN[fin]), "join returned false: %s", strerror(errno)); break; }
    case 2: break;
    default: {
      rd.p = p; rd.mask = streams & (Process::stdoutStream | Process::stderrStream); rd.oneArg = rd.mask == Process::stdoutStream && r.chance(1, 2); rd.chunk = (size_t)(r.chance(1, 2) ? r.range(1, 300) : 8192); rd.lastErrno = 0; rd.reads = 0;
      readerMain(&rd);
      if (rd.error) fail(key("%s/%s,late-output,%s/read-error", F0, strs, FIN[fin]), "Process::read failed (errno %d) before end-of-file", rd.lastErrno);
      bool j; { LIB(oid, API_JOINX); j = p->join(got); } if (!j) fail(key("%s/%s,late-output,%s/join-result", F0, strs, FIN[fin]), "join returned false: %s", strerror(errno)); haveCode = true; break; }
    }
    if (fin != 2 && p->isRunning()) fail(key("%s/isRunning-after-join", F0), "isRunning() still true after join");
    { LIB(oid, API_DTOR); delete p; }   // fin == 2: the destructor joins
    fdtrack::retire(oid); checkGone(oid, strs);
    // ---- the child's report (the child has been reaped in every variant, the file is final)
    Bytes rep; { int fd = open(report, O_RDONLY); if (fd < 0) fail(key("%s/child-did-not-run", F0), "the child wrote no report (exec failed?)"); u8 b[8192]; for (;;) { ssize_t k = read(fd, b, sizeof b); if (k <= 0) break; bappend(rep, b, (size_t)k); } close(fd); unlink(report); }
    { u8 z = 0; bappend(rep, &z, 1); }
    const char* q = (const char*)rep.d; const char* qe = q + rep.n - 1;
    for (int sec = 0; sec < 2; ++sec) {   // skip the argv and the environment section (compared in mode proc)
      long cnt0 = -1; if (sscanf(q, sec ? "E %ld\n" : "A %ld\n", &cnt0) != 1) harnessBug("bad report (section %d)", sec); q = strchr(q, '\n') + 1;
      if (!sec && cnt0 != nw) fail(key("%s/argc", F0), "child got %ld arguments, %d were given", cnt0, nw);
      for (long i = 0; i < cnt0; ++i) { unsigned long l = strtoul(q, (char**)&q, 10); ++q; if (q + l > qe) harnessBug("bad report (entry)"); q += l + 1; }
    }
    long long tWrite = 0; bool haveT = false, done = false; int wfd = -1, werr = 0;
    while (q < qe) {
      if (q[0] == 'T' && sscanf(q, "T %lld", &tWrite) == 1) haveT = true;
      else if (q[0] == 'W') sscanf(q, "W %d %d", &wfd, &werr);
      else if (q[0] == 'D' && q[1] == '\n') done = true;
      const char* nl = strchr(q, '\n'); if (!nl) break; q = nl + 1;
    }
    if (!haveT) harnessBug("late child wrote no T line");
    bool lateForReal = fin != 3 && tWrite > t0;   // the child's sleep ended after this process had started its join()/destructor call
    char joined[64] = ""; if (haveCode) snprintf(joined, sizeof joined, "; join reported exit code %u", got);
    if (wfd >= 0) fail(key("%s/%s,late-output,%s/child-write-failed", F0, strs, FIN[fin]), "the child's write to its redirected %s failed with \"%s\" %lld us after the parent had called %s (%ld-byte payload, nobody has to read it for the child to finish); the child was to exit with %d%s",
                       wfd == 1 ? "stdout" : "stderr", strerror(werr), (tWrite - t0) / 1000, FIN[fin], wfd == 1 ? outN : errN, code, joined);
    if (!done) fail(key("%s/%s,late-output,%s/child-did-not-finish", F0, strs, FIN[fin]), "the child never reached its exit(%d): it was terminated while writing %ld/%ld bytes to stdout/stderr %lld us after the parent had called %s%s",
                    code, outN, errN, (tWrite - t0) / 1000, FIN[fin], joined);
    if (haveCode && got != (uint32)code) fail(key("%s/%s,late-output,%s/exit-code", F0, strs, FIN[fin]), "join reported exit code %u, the child exited with %d", got, code);
    if (fin == 3) {
      bool okO = rd.out.n == (size_t)outN, okE = rd.err.n == (size_t)errN;
      for (long i = 0; okO && i < outN; ++i) if (rd.out.d[i] != pat(seed, 1, (unsigned long)i)) okO = false;
      for (long i = 0; okE && i < errN; ++i) if (rd.err.d[i] != pat(seed, 2, (unsigned long)i)) okE = false;
      if (so && !okO) fail(key("%s/%s,late-output,%s/stdout-bytes", F0, strs, FIN[fin]), "read %lu bytes from the child's stdout until end-of-file, it wrote %ld (or different bytes)", (unsigned long)rd.out.n, outN);
      if (se && !okE) fail(key("%s/%s,late-output,%s/stderr-bytes", F0, strs, FIN[fin]), "read %lu bytes from the child's stderr until end-of-file, it wrote %ld (or different bytes)", (unsigned long)rd.err.n, errN);
      cnt("late_stream_bytes_compared", outN * so + errN * se);
    }
    cnt("late_children"); cnt("late_payload_bytes", outN + errN); if (lateForReal) cnt("late_writes_after_join_entry"); if (fin != 3) cnt("late_children_not_read_first");
    if (haveCode) { char s[8]; snprintf(s, sizeof s, "%d", code); setItem(fin == 0 ? "late_exit_codes_join_first" : "late_exit_codes_read_first", s); }
    setItem("late_finish", FIN[fin]); setItem("late_stream_sets", strs); setItem("late_overloads", F0); setItem("late_child_sigpipe", sigDefault ? "default" : "ignored");
    { char s[96]; snprintf(s, sizeof s, "%s,%s", FIN[fin], strs); setItem("late_finish_x_streams", s); }
    statMax("late_max_delay_ms", delay);
    fdQuiescent(fdBase, strs);
    if (idx % 97 == 0) sample("%.600s", hist.c());
    endCase(mix(mix(23, (u64)form * 8 + streams), mix((u64)code * 4 + (u64)fin, (u64)(outN * 4099 + errN))), true);
  }
}

// =================================================================================================== several Process objects alive at once
// One case = a seeded history over 2..4 slots, all on this thread. A slot holds no object, an idle object (never started, joined or killed)
// or a running one. Every child is tolerant (flag 128), reads exactly the bytes the parent writes (flag 64; it never waits for end-of-file on
// its stdin, because children started later inherit copies of the write end) and writes at most 12000 bytes per stream (far below the pipe
// capacity), so it terminates on its own whatever the parent reads or closes. Blocking calls are only made when the model guarantees progress:
//   read    - the stream is open, not at end-of-file, and either every stdin byte has been written (the child will write and exit) or the child
//             writes its payload before its stdin phase and bytes of that stream are still outstanding;
//   join/destructor - the rest of the stdin bytes is written first (as is before close(stdin)).
// Oracles: bytes returned by read() are the next bytes of exactly that child's pattern for exactly that stream (complete at end-of-file, never
// mixed with another child's), the stream reported by the 3-argument read is open and was asked for, join(exitCode) reports the child's code,
// the child's report shows the stdin digest and that it reached its exit; descriptor monitor on every library call; after destruction no
// descriptor handed out for the object is open; at the end of the case the process holds exactly the descriptors it held at the start;
// descriptors the harness opened itself meanwhile ("bystanders") are still the same kernel objects when it closes them.
enum { MS_NONE, MS_IDLE, MS_RUN };
struct MP {
  Process* p; unsigned long id; int st, form, gen, nwords, code; uint redir, openSet, closedEarlier; long outN, errN, inN, inWritten, gotOut, gotErr; unsigned seed; bool payloadFirst, eofOut, eofErr; char report[300];
  MP() : p(0), id(0), st(MS_NONE), form(0), gen(0), nwords(0), code(0), redir(0), openSet(0), closedEarlier(0), outN(0), errN(0), inN(0), inWritten(0), gotOut(0), gotErr(0), seed(0), payloadFirst(false), eofOut(false), eofErr(false) { report[0] = 0; }
};
struct Bystander { int fd; unsigned long dev, ino; const char* what; };
static const uint SO = Process::stdoutStream, SE = Process::stderrStream, SI = Process::stdinStream;
static const char* sstr(uint m, char* buf) { int n = 0; if (m & SO) buf[n++] = 'o'; if (m & SE) buf[n++] = 'e'; if (m & SI) buf[n++] = 'i'; if (!n) { memcpy(buf, "none", 4); n = 4; } buf[n] = 0; return buf; }
static void histFds(MP& m) { int fds[8]; int n = fdtrack::ownedList(m.id, fds, 8); hist.add("   [descriptors held for it now:"); for (int i = 0; i < n && i < 8; ++i) hist.addf(" %d", fds[i]); hist.add(n ? "]\n" : " none]\n"); }
static bool mStdinComplete(const MP& m) { return !(m.redir & SI) || m.inWritten == m.inN; }
static bool mReady(const MP& m, uint s) {
  if (!(m.openSet & s) || (s == SO ? m.eofOut : m.eofErr)) return false;
  return mStdinComplete(m) || (m.payloadFirst && (s == SO ? m.gotOut < m.outN : m.gotErr < m.errN));
}
static long g_mOps = 0;
static void mOp(const char* kind) { ++g_mOps; cnt("multi_ops"); setItem("multi_op_kinds", kind); }

static void mOpen(MP& m, Rng& r, long idx, int slot) {
  bool fresh = m.st == MS_NONE;
  if (fresh) { m.p = new Process; m.id = ++g_serial; fdtrack::born(m.id); }
  m.form = r.chance(1, 8) ? (int)r.below(2) : 2 + (int)r.below(3);
  m.redir = m.form >= 2 ? (r.chance(1, 10) ? 0u : (uint)r.range(1, 7)) : 0u;
  bool so = m.redir & SO, se = m.redir & SE, si = m.redir & SI;
  m.outN = so ? (r.chance(1, 6) ? 0 : r.chance(1, 4) ? 1 : r.range(2, 12000)) : 0; m.errN = se ? (r.chance(1, 6) ? 0 : r.chance(1, 4) ? 1 : r.range(2, 12000)) : 0;
  m.inN = si ? (r.chance(1, 6) ? 0 : r.chance(1, 4) ? 1 : r.range(2, 12000)) : 0;
  m.payloadFirst = r.chance(1, 2); m.code = (int)r.below(256); m.seed = (unsigned)r.below(1000000);
  int flags = 128 | (si ? 64 : 0) | (m.payloadFirst ? 8 : 0);
  snprintf(m.report, sizeof m.report, "%s/m%ld_%d_%d", scratch::root, idx, slot, ++m.gen); unlink(m.report);
  char ctl[140]; snprintf(ctl, sizeof ctl, "%d,%d,%ld,%ld,%u,0,%ld", m.code, flags, m.outN, m.errN, m.seed, m.inN);
  const char* words[6]; int nw = 0; words[nw++] = g_exe; words[nw++] = "--child-echo"; words[nw++] = m.report; words[nw++] = ctl; if (r.chance(1, 2)) words[nw++] = "extra";
  m.nwords = nw;
  Map<String, String> env; bool explicitEnv = r.chance(1, 2); if (explicitEnv) env.insert(String("VT_MULTI"), String("1"));
  char sb[8]; const char* F0 = API_FORM[m.form];
  hist.addf("#%lu %s%s streams=%s: child exits with %d, writes stdout=%ld stderr=%ld %s it reads %ld bytes from stdin\n", m.id, fresh ? "new Process; " : "(object re-used) ", F0, sstr(m.redir, sb), m.code, m.outN, m.errN, m.payloadFirst ? "before" : "after", m.inN);
  mOp(fresh ? "open-new-object" : "open-reused-object");
  setctxf("%s/several-objects", F0);
  bool started;
  { LIB(m.id, F0);
    if (m.form == 0 || m.form == 2) { Text cmd; for (int i = 0; i < nw; ++i) { if (i) cmd.add(" "); cmd.add(words[i]); } String cl(cmd.c(), cmd.n); started = m.form == 0 ? m.p->start(cl, env) != 0 : m.p->open(cl, m.redir, env); }
    else if (m.form == 4) { List<String> l; for (int i = 0; i < nw; ++i) l.append(String(words[i], strlen(words[i]))); started = m.p->open(String(g_exe, strlen(g_exe)), l, m.redir, env); }
    else { char* argv[6]; for (int i = 0; i < nw; ++i) argv[i] = strdup(words[i]); String exe(g_exe, strlen(g_exe)); started = m.form == 1 ? m.p->start(exe, nw, argv, env) != 0 : m.p->open(exe, nw, argv, m.redir, env); for (int i = 0; i < nw; ++i) free(argv[i]); }
  }
  if (!started) fail(key("%s/several-objects/not-started", F0), "returned failure: %s", strerror(errno));
  if (!m.p->isRunning()) fail(key("%s/several-objects/isRunning", F0), "isRunning() is false right after a successful start");
  checkPipeEnds(m.id, F0, "several-objects");
  m.st = MS_RUN; m.openSet = m.redir; m.closedEarlier = 0; m.inWritten = 0; m.gotOut = m.gotErr = 0; m.eofOut = m.eofErr = false;
  histFds(m);
  cnt("multi_processes"); setItem("multi_overloads", F0); setItem("multi_stream_sets", sb);
}

static void mWrite(MP& m, long n) {
  while (n > 0) {
    u8* blk = (u8*)malloc((size_t)n); for (long i = 0; i < n; ++i) blk[i] = pat(m.seed, 3, (unsigned long)(m.inWritten + i));
    hist.addf("#%lu write(%ld bytes) [%ld of %ld written before]\n", m.id, n, m.inWritten, m.inN); mOp("write");
    setctx("Process.write/several-objects"); ssize_t k; { LIB(m.id, API_WRITE); k = m.p->write(blk, (size_t)n); } free(blk);
    if (k <= 0 || k > n) fail("Process.write/several-objects/result", "Process::write(%ld bytes) returned %ld: %s", n, (long)k, strerror(errno));
    m.inWritten += k; n -= k; cnt("multi_stdin_bytes_written", (long)k);
  }
}
static void mWriteRest(MP& m) { if ((m.openSet & SI) && m.inWritten < m.inN) mWrite(m, m.inN - m.inWritten); }

static void mClose(MP& m, uint mask) {
  if (m.st == MS_RUN && (mask & SI)) mWriteRest(m);
  char a[8], b[8]; hist.addf("#%lu close(%s) [%s; open before: %s]\n", m.id, sstr(mask, a), m.st == MS_RUN ? "running" : "not running", sstr(m.openSet, b));
  mOp(m.st != MS_RUN ? "close-on-idle-object" : (m.openSet & mask) == 0 ? "close-nothing-open" : (m.openSet & ~mask) ? "close-subset" : "close-all-open");
  setctx("Process.close(streams)/several-objects"); { LIB(m.id, API_CLOSE); m.p->close(mask); }
  if (m.st == MS_RUN) { m.closedEarlier |= m.openSet & mask; if (m.openSet & mask) { cnt("multi_streams_closed_before_finish"); setItem("multi_close_masks", a); } m.openSet &= ~mask; histFds(m); }
}

// one read() call; mask is ignored by the 1-argument form
static void mRead(MP& m, bool oneArg, uint mask, size_t chunk) {
  char a[8], b[8]; sstr(mask, a); sstr(m.openSet, b);
  const char* api = oneArg ? API_READ1 : API_READ3;
  u8* buf = (u8*)malloc(chunk); uint which = mask; ssize_t k;
  mOp(oneArg ? "read(1-arg)" : "read(3-arg)");
  if (!oneArg && (mask & m.closedEarlier)) { cnt("multi_reads_with_earlier_closed_stream_in_mask"); }
  if (!oneArg && (mask & (SO | SE) & ~m.redir)) cnt("multi_reads_with_never_redirected_stream_in_mask");
  setctxf("%s/several-objects,mask=%s,open=%s", api, oneArg ? "-" : a, b);
  { LIB(m.id, api); if (oneArg) { k = m.p->read(buf, chunk); which = SO; } else k = m.p->read(buf, chunk, which); }
  int e = errno;
  hist.addf("#%lu read(%lu%s%s) -> %ld%s\n", m.id, (unsigned long)chunk, oneArg ? "" : ", streams=", oneArg ? "" : a, (long)k, which == SO ? " stdout" : which == SE ? " stderr" : " ?");
  if (k < 0) fail(key("%s/several-objects,mask=%s,open=%s/read-error", api, oneArg ? "-" : a, b), "Process::read failed (%s) although the streams %s of this object are open and its child still has output / end-of-file to deliver", strerror(e), b);
  if ((which != SO && which != SE) || !(which & m.openSet) || (!oneArg && !(which & mask))) { char c[8]; fail(key("%s/several-objects,mask=%s,open=%s/stream-reported", api, oneArg ? "-" : a, b), "read reported stream set '%s' (asked for '%s', open '%s')", sstr(which, c), a, b); }
  long& got = which == SO ? m.gotOut : m.gotErr; long total = which == SO ? m.outN : m.errN; bool& eof = which == SO ? m.eofOut : m.eofErr; const char* sn = which == SO ? "stdout" : "stderr";
  if ((size_t)k > chunk) fail(key("%s/several-objects/length", api), "read returned %ld for a %lu-byte buffer", (long)k, (unsigned long)chunk);
  if (k == 0) {
    if (got != total) fail(key("%s/several-objects,mask=%s,open=%s/%s-bytes", api, oneArg ? "-" : a, b, sn), "end-of-file on the %s of object #%lu after %ld bytes, its child wrote %ld", sn, m.id, got, total);
    if (!eof) { eof = true; cnt("multi_streams_read_to_eof"); }
  } else {
    if (got + k > total) fail(key("%s/several-objects,mask=%s,open=%s/%s-bytes", api, oneArg ? "-" : a, b, sn), "read delivered %ld bytes after %ld on the %s of object #%lu, its child writes only %ld in total (bytes of another object's pipe?)", (long)k, got, sn, m.id, total);
    for (long i = 0; i < k; ++i) if (buf[i] != pat(m.seed, which == SO ? 1 : 2, (unsigned long)(got + i)))
      fail(key("%s/several-objects,mask=%s,open=%s/%s-bytes", api, oneArg ? "-" : a, b, sn), "byte %ld of the %s of object #%lu differs from what its child wrote (bytes of another stream or another object's pipe?)", got + i, sn, m.id);
    got += k; cnt("multi_stream_bytes_compared", (long)k);
  }
  free(buf);
}
static size_t mChunk(Rng& r) { return (size_t)(r.chance(1, 3) ? r.range(1, 300) : r.chance(1, 2) ? 4096 : 20000); }
static uint mExtraMask(Rng& r) { uint x = 0; if (r.chance(1, 2)) x |= SO; if (r.chance(1, 2)) x |= SE; if (r.chance(1, 6)) x |= SI; return x; }
// read every open output stream to end-of-file (requires mStdinComplete)
static void mDrain(MP& m, Rng& r) {
  for (int guard = 0;; ++guard) {
    uint need = (mReady(m, SO) ? SO : 0) | (mReady(m, SE) ? SE : 0); if (!need) break;
    if (guard > 400000) harnessBug("drain does not end");
    if (need == SO && (m.openSet & SO) && r.chance(1, 3)) mRead(m, true, SO, mChunk(r)); else mRead(m, false, need | (r.chance(1, 3) ? mExtraMask(r) : 0), mChunk(r));
  }
}

static void mCheckReport(MP& m, const char* api) {
  Bytes rep; { int fd = open(m.report, O_RDONLY); if (fd < 0) fail(key("%s/several-objects/child-did-not-run", API_FORM[m.form]), "the child of object #%lu wrote no report (exec failed?)", m.id); u8 b[8192]; for (;;) { ssize_t k = read(fd, b, sizeof b); if (k <= 0) break; bappend(rep, b, (size_t)k); } close(fd); unlink(m.report); }
  { u8 z = 0; bappend(rep, &z, 1); }
  const char* q = (const char*)rep.d; const char* qe = q + rep.n - 1;
  for (int sec = 0; sec < 2; ++sec) {
    long c0 = -1; if (sscanf(q, sec ? "E %ld\n" : "A %ld\n", &c0) != 1) harnessBug("bad report (section %d)", sec); q = strchr(q, '\n') + 1;
    if (!sec && c0 != m.nwords) fail(key("%s/several-objects/argc", API_FORM[m.form]), "child got %ld arguments, %d were given", c0, m.nwords);
    for (long i = 0; i < c0; ++i) { unsigned long l = strtoul(q, (char**)&q, 10); ++q; if (q + l > qe) harnessBug("bad report (entry)"); q += l + 1; }
  }
  bool done = false, haveI = false; unsigned long il = 0; unsigned long long ih = 0;
  while (q < qe) { if (q[0] == 'I' && sscanf(q, "I %lu %llu", &il, &ih) == 2) haveI = true; else if (q[0] == 'D' && q[1] == '\n') done = true; const char* nl = strchr(q, '\n'); if (!nl) break; q = nl + 1; }
  if (m.redir & SI) {
    u64 h = 1469598103934665603ULL; for (long i = 0; i < m.inN; ++i) { u8 c = pat(m.seed, 3, (unsigned long)i); h = fnv(&c, 1, h); }
    if (!haveI || il != (unsigned long)m.inN || ih != h) fail(key("%s/several-objects/stdin-bytes", api), "the child of object #%lu read %lu bytes from its stdin (digest %llx), %ld were written to it (digest %llx)", m.id, il, ih, m.inN, (unsigned long long)h);
    cnt("multi_stdin_digests_compared");
  }
  if (!done) fail(key("%s/several-objects/child-incomplete", api), "the child of object #%lu never reached its exit(%d)", m.id, m.code);
}

// how: 0 join(exitCode), 1 join(), 2 kill, 3 destructor
static void mFinish(MP& m, int how) {
  static const char* const API[] = { API_JOINX, API_JOIN, API_KILL, API_DTOR }; const char* api = API[how];
  if (how != 2) mWriteRest(m);
  char b[8], c[8]; hist.addf("#%lu %s [open before: %s, closed earlier by close(): %s]\n", m.id, how == 3 ? "delete (running)" : api, sstr(m.openSet, b), sstr(m.closedEarlier, c));
  static const char* const KIND[] = { "join(exitCode)", "join()", "kill", "destructor-while-running" }; mOp(KIND[how]);
  { char s[64]; snprintf(s, sizeof s, "%s,closed-earlier=%s", KIND[how], c); setItem("multi_finish_x_closed_earlier", s); }
  setctxf("%s/several-objects,closed-earlier=%s", api, c);
  uint32 got = 0xdeadbeef; bool ok = true;
  switch (how) {
  case 0: { LIB(m.id, api); ok = m.p->join(got); } break;
  case 1: { LIB(m.id, api); ok = m.p->join(); } break;
  case 2: { LIB(m.id, api); ok = m.p->kill(); } break;
  default: { LIB(m.id, api); delete m.p; } m.p = 0; break;
  }
  if (!ok) fail(key("%s/several-objects/result", api), "returned false for a running process: %s", strerror(errno));
  if (how == 0 && got != (uint32)m.code) fail(key("%s/several-objects/exit-code", api), "join reported exit code %u for object #%lu, its child exited with %d", got, m.id, m.code);
  if (how < 3 && m.p->isRunning()) fail(key("%s/several-objects/isRunning-after", api), "isRunning() still true");
  if (how == 2) unlink(m.report); else mCheckReport(m, api);
  m.openSet = 0;
  if (how == 3) { fdtrack::retire(m.id); char cls[48]; snprintf(cls, sizeof cls, "several-objects,running,closed-earlier=%s", c); checkGone(m.id, cls); m.st = MS_NONE; }
  else { m.st = MS_IDLE; histFds(m); }
}
static void mDeleteIdle(MP& m) {
  hist.addf("#%lu delete (not running)\n", m.id); mOp("destructor-idle"); setctx("Process.~Process/several-objects,not-running");
  { LIB(m.id, API_DTOR); delete m.p; } m.p = 0; fdtrack::retire(m.id); checkGone(m.id, "several-objects,not-running"); m.st = MS_NONE;
}

static void mBystanderOpen(Vec<Bystander>& bys, Rng& r) {
  int fds[2] = { -1, -1 }; const char* what;
  if (r.chance(1, 2)) { fds[0] = open("/dev/null", O_RDONLY | O_CLOEXEC); what = "/dev/null"; } else { if (pipe2(fds, O_CLOEXEC) != 0) harnessBug("pipe2"); what = "pipe"; }
  for (int i = 0; i < 2; ++i) if (fds[i] >= 0) { struct stat st; if (fstat(fds[i], &st) != 0) harnessBug("fstat"); Bystander b; b.fd = fds[i]; b.dev = (unsigned long)st.st_dev; b.ino = (unsigned long)st.st_ino; b.what = what; bys.push(b); hist.addf("(application opens %s: descriptor %d)\n", what, fds[i]); }
  mOp("application-opens-descriptor");
}
static void mBystanderClose(Vec<Bystander>& bys, size_t i) {
  Bystander b = bys[i]; bys[i] = bys[bys.n - 1]; --bys.n;
  struct stat st; int rc = fstat(b.fd, &st); int e = errno;
  hist.addf("(application closes its descriptor %d)\n", b.fd); mOp("application-closes-descriptor"); cnt("multi_bystander_descriptors_verified");
  if (rc != 0 || (unsigned long)st.st_dev != b.dev || (unsigned long)st.st_ino != b.ino)
    fail("Process/several-objects/application-descriptor-disturbed", "descriptor %d (%s) opened by the application while Process objects were in use %s when the application came back to it", b.fd, b.what, rc != 0 ? strerror(e) : "refers to a different kernel object");
  if (close(b.fd) != 0) fail("Process/several-objects/application-descriptor-disturbed", "close(%d) of the application's own descriptor failed: %s", b.fd, strerror(errno));
}

static void multiCases() {
  signal(SIGPIPE, SIG_IGN);
  snprintf(g_exe, sizeof g_exe, "/proc/self/exe");
  for (long idx = opts.start; idx < opts.start + opts.cases; ++idx) {
    if (!mine(idx)) continue;
    beginCase(idx);
    Rng r(opts.seed, 2006, (u64)idx);
    FdSnap fdBase; snapFds(fdBase);
    long reuse0 = fdtrack::stat(fdtrack::S_REUSE_RELEASER_ALIVE);
    int K = (int)r.range(2, 4), steps = (int)r.range(8, 24); MP mp[4]; Vec<Bystander> bys; u64 fp = 24; int maxAlive = 0; long procs0 = 0;
    hist.addf("%d slots, %d steps\n", K, steps);
    int forcedSlot = -1, forcedKind = 0;   // directed continuation: 1 = start a child in that slot, 2 = finish that slot
    for (int step = 0; step < steps; ++step) {
      if (forcedSlot < 0 && r.chance(1, 10)) { if (bys.n < 3 && (bys.n == 0 || r.chance(2, 3))) mBystanderOpen(bys, r); else if (bys.n) mBystanderClose(bys, r.below(bys.n)); continue; }
      int slot = forcedSlot >= 0 ? forcedSlot : (int)r.below((u64)K); int fk = forcedSlot >= 0 ? forcedKind : 0; forcedSlot = -1;
      MP& m = mp[slot]; fp = mix(fp, (u64)slot * 16 + (u64)m.st);
      if (m.st == MS_NONE) { mOpen(m, r, idx, slot); ++procs0; }
      else if (m.st == MS_IDLE) {
        int c = fk == 1 ? 0 : (int)r.below(6);
        if (c < 3) { mOpen(m, r, idx, slot); ++procs0; } else if (c < 5) mDeleteIdle(m); else mClose(m, (uint)r.range(1, 7));
      } else if (fk == 2) mFinish(m, (int)r.below(4));
      else {
        bool canWrite = (m.openSet & SI) && m.inWritten < m.inN, r1 = mReady(m, SO), r3 = mReady(m, SO) || mReady(m, SE), canDrain = mStdinComplete(m) && r3;
        int w[6] = { canWrite ? 3 : 0, 5, r1 ? 2 : 0, r3 ? 3 : 0, canDrain ? 2 : 0, 3 }; int tot = 0; for (int i = 0; i < 6; ++i) tot += w[i];
        int pick = (int)r.below((u64)tot), op = 0; while (pick >= w[op]) { pick -= w[op]; ++op; }
        fp = mix(fp, (u64)op);
        switch (op) {
        case 0: mWrite(m, r.range(1, m.inN - m.inWritten)); break;
        case 1: {
          uint before = m.openSet; uint mask = r.chance(2, 3) && m.openSet ? ((uint)r.range(1, 7) & m.openSet) : (uint)r.range(1, 7); if (!mask) mask = m.openSet;
          mClose(m, mask);
          if (before != m.openSet && r.chance(1, 2)) {   // a number was released while the object lives on: let another object pick it up, then finish this one
            int other = -1; for (int t = 0; t < K; ++t) { int cand = (slot + 1 + t) % K; if (cand != slot && mp[cand].st != MS_RUN) { other = cand; break; } }
            if (other >= 0) { forcedSlot = other; forcedKind = 1; if (steps - step < 3) steps += 2; }
          }
          break; }
        case 2: mRead(m, true, SO, mChunk(r)); break;
        case 3: { uint need = mReady(m, SO) && mReady(m, SE) ? (r.chance(1, 2) ? (SO | SE) : r.chance(1, 2) ? SO : SE) : mReady(m, SO) ? SO : SE; mRead(m, false, need | mExtraMask(r) | (r.chance(1, 2) ? (m.closedEarlier & (SO | SE)) : 0u), mChunk(r)); break; }
        case 4: mDrain(m, r); break;
        default: mFinish(m, (int)r.below(4)); break;
        }
      }
      if (fk == 1) { for (int t = 0; t < K; ++t) if (t != slot && mp[t].st == MS_RUN && mp[t].closedEarlier && r.chance(1, 2)) { forcedSlot = t; forcedKind = 2; break; } }
      int alive = 0; for (int t = 0; t < K; ++t) if (mp[t].st == MS_RUN) ++alive; if (alive > maxAlive) maxAlive = alive;
    }
    // ---- wind down: objects in seeded order (running ones: sometimes read everything first), bystanders last
    hist.add("-- end of the history: finish and destroy every object\n");
    int order[4]; for (int i = 0; i < K; ++i) order[i] = i; for (int i = K - 1; i > 0; --i) { int j = (int)r.below((u64)i + 1); int t = order[i]; order[i] = order[j]; order[j] = t; }
    for (int i = 0; i < K; ++i) {
      MP& m = mp[order[i]];
      if (m.st == MS_RUN) { if (r.chance(1, 2)) { mWriteRest(m); if (mStdinComplete(m)) mDrain(m, r); } mFinish(m, (int)r.below(4)); }
      if (m.st == MS_IDLE) mDeleteIdle(m);
    }
    while (bys.n) mBystanderClose(bys, bys.n - 1);
    fdQuiescent(fdBase, "several-objects");
    cnt("multi_cases"); statMax("multi_max_objects_running_at_once", maxAlive); if (maxAlive >= 2) cnt("multi_cases_with_objects_running_at_once");
    if (fdtrack::stat(fdtrack::S_REUSE_RELEASER_ALIVE) > reuse0) cnt("multi_cases_with_number_reissued_while_releaser_alive");
    if (idx % 37 == 0) sample("%.1800s", hist.c());
    endCase(mix(fp, (u64)procs0), true);
  }
}

// =================================================================================================== probes
static int probe(const char* k) {
  if (!strncmp(k, "Process.Arguments", 17)) { const char* w[] = { "-ab" }; size_t wl[] = { 3 }; runVector(w, wl, 1); const char* w2[] = { "-abc", "x" }; size_t wl2[] = { 4, 1 }; runVector(w2, wl2, 2); return 0; }
  harnessBug("unknown probe %s", k);
}

static int worker(int argc, char** argv) {
  init(argc, argv, "h_process");
  if (opts.probe) { int rc = probe(opts.probe); finish(); return rc; }
  const char* m = opts.mode;
  bool procMode = !strncmp(m, "proc", 4);
  if (procMode) fdtrack::enable(onFdViolation);
  if (!strcmp(m, "args-exh")) argsExhaustive();
  else if (!strcmp(m, "args-rand")) argsRandom();
  else if (!strcmp(m, "proc")) processCases(false);
  else if (!strcmp(m, "proc-bs")) processCases(true);
  else if (!strcmp(m, "proc-late")) lateCases();
  else if (!strcmp(m, "proc-multi")) multiCases();
  else harnessBug("unknown mode %s", m);
  if (procMode) { fdStats(); fdtrack::disable(); }
  cnt("vectors", g_vectors); cnt("items_compared", g_items); cnt("vectors_outside_conventions_skipped", g_skipped);
  leakCheck("Process/leak");
  finish();
  return 0;
}

int main(int argc, char** argv) {
  if (argc >= 2 && !strcmp(argv[1], "--child-echo")) return childMain(argc, argv);
  bool needScratch = false;
  for (int i = 1; i + 1 < argc; ++i) if (!strcmp(argv[i], "--mode") && !strncmp(argv[i + 1], "proc", 4)) needScratch = true;
  if (needScratch) return scratch::supervise(worker, argc, argv);
  return worker(argc, argv);
}
