// h_server_write.cpp - C13: Server clients deliver written bytes completely and in order under arbitrary send outcomes.
// Single-threaded, virtual time (interpose/net_shims.cpp). The library's send() calls on the client sockets are scripted from a fault plan
// (full / partial(1) / partial(k) / partial(n-1) / EAGAIN / hard error), the peer end of every socket pair is owned by the harness.
// Monitors (all online):
//   (a) bytes handed to send() and bytes arriving at the peer == concatenation of the slices of write() calls that returned true, in call order
//   (b) after every write and at every idle point: postponed == getSendBufferSize() == accepted bytes - sum of successful send returns
//   (c) onWrite exactly once per non-empty -> empty transition of the backlog (as seen in the send log), never while bytes are pending
//   (d) no onRead while suspended (also when the read event was already selected in the same poll batch); readable + resumed => dispatched
//       (independent poll() on the fd at the moment the loop is about to block)
//   (e) hard error => write() false or write-ready failure => onClosed before the loop blocks; nothing reported as sent is lost
// modes: plan-exh (every outcome sequence up to length --scale x 3 size classes), plan-err (every sequence up to scale-1 followed by a hard error),
//        rand (random long plans, 1..3 clients, cross suspend/resume), kernel (no scripted faults: minimal SO_SNDBUF, slow reader)
//        accept-exh / accept-rand / accept-kernel: the first client is not a Server::pair client but comes out of Server::listen (raw loopback connection made
//        by the harness) or Server::connect (raw loopback listener owned by the harness), and the Listener::ICallback::onAccepted / Establisher::ICallback::
//        onConnected callback ITSELF acts on the fresh client before it returns the client's callback object: nothing / write / suspend / suspend+write /
//        write+suspend / write+write (scripted send outcomes, kernel mode: payload larger than the socket buffer). All monitors above then apply to that
//        client. accept-exh enumerates origin x action x size class x every outcome sequence up to length --scale.
//        Loopback TCP delivers asynchronously: wherever the harness itself has put bytes in flight it waits (bounded, real time) until its own poll() sees
//        them before judging the loop; a readiness verdict is a violation only if the needed event bit is missing from the epoll registration.
//        drain-exh: one backlog is drained in SEVERAL partial sends and after every partial send a small write arrives (from onRead: the send hook lets the
//        peer say something, the next poll round therefore reports the client readable) - sizes steered by a model of the Buffer policy so that the append hits the
//        grow / compact / in-place(front offset 0) / in-place(front offset > 0) branches; when the backlog finally drains, the onWrite handler acts: nothing / write /
//        suspend / suspend+write / write+suspend / remove another client (whose read event is selected in the same batch), with or without peer data that was made
//        pending before the poll round whose send completes the drain (an event carrying read + write readiness). Enumerates action x pending x size class x
//        every outcome sequence up to length --scale. rand draws the same two scripts (mid-drain writes, onWrite actions) for half of its cases from a separate stream.
//        hangup-exh: peer-side events while the client is SUSPENDED: the peer sends data / shuts down its write side (FIN) / shuts down both directions / closes / resets
//        (SO_LINGER 0) / closes with unread data - on a pair (AF_UNIX), an accepted and a connected (loopback TCP) client, with an empty send backlog (the client is then
//        registered in the poll set without any event) or a pending one (first send partial or would-block, optionally more would-blocks), inbound bytes pending or not,
//        suspend before or after the write; then the loop runs (no onRead may be delivered; a hung-up client that is registered without events makes the unchanged loop
//        spin on EPOLLHUP without dispatching anything: the harness treats a poll round that dispatched nothing as an idle point - counted in loop rounds, never in time),
//        then: resume / run again + resume / write + resume / leave to the end of the case. After resume the pending bytes and the hang-up must be delivered (onRead, all
//        inbound bytes when the close was graceful, onClosed). Enumerates origin x event x backlog x pending x order x follow-up, --scale repetitions with fresh sizes.
#include "srv_util.hpp"
#include <nstd/Socket/Server.hpp>
#include <nstd/Socket/Socket.hpp>
#ifndef VERIF_NO_PRIVATE
#define SOCK_FD(sockref) ((sockref).s)
#define SOCK_TAKE_FD(sockref, out) do { (out) = (sockref).s; (sockref).s = -1; } while (0)
#else   // fallback flavour: public API only
#define SOCK_FD(sockref) ((int)(sockref).getFileDescriptor())
#define SOCK_TAKE_FD(sockref, out) do { (out) = dup((int)(sockref).getFileDescriptor()); (sockref).close(); } while (0)
#endif


using namespace vh;
namespace ns = netshim;
using su::Slice;

enum Outcome { O_FULL, O_P1, O_PK, O_PN1, O_AGAIN, O_ERR };
static const char* const ONAME[] = { "full", "part1", "partk", "partn-1", "eagain", "error" };
enum OpKind { K_WRITE, K_SUSPEND, K_RESUME, K_READALL, K_READSOME, K_SKIPREAD, K_REMOVE };
enum Venue { V_OUT, V_ONREAD, V_ONWRITE, V_ONACCEPTED, V_ONCONNECTED };
static const char* const VNAME[] = { "outside", "onRead", "onWrite", "onAccepted", "onConnected" };
enum FreshAct { F_NONE, F_WRITE, F_SUSPEND, F_SUSPEND_WRITE, F_WRITE_SUSPEND, F_WRITE_WRITE, NFRESH };
static const char* const FNAME[] = { "nothing", "write", "suspend", "suspend+write", "write+suspend", "write+write" };
enum WriteAct { W_NONE, W_WRITE, W_SUSPEND, W_SUSPEND_WRITE, W_WRITE_SUSPEND, W_REMOVE_OTHER, NWACT };   // what the onWrite handler does (drain-exh, rand)
static const char* const WNAME[] = { "nothing", "write", "suspend", "suspend+write", "write+suspend", "remove-other" };
enum PeerEv { E_DATA, E_SHUT_WR, E_SHUT_RDWR, E_CLOSE, E_RESET, E_CLOSE_UNREAD, NPEEREV };   // what the peer does while the client is suspended (hangup-exh)
static const char* const ENAME[] = { "data", "shutdown-wr", "shutdown-rdwr", "close", "reset", "close-with-unread-data" };
enum Backlog { B_NONE, B_PENDING, B_PENDING_EAGAIN, NBACK };
static const char* const BNAME[] = { "no-backlog", "backlog", "backlog+eagain" };
enum Follow { U_RESUME, U_RUN_RESUME, U_WRITE_RESUME, U_LEAVE, NFOLLOW };
static const char* const UNAME[] = { "resume", "run-again+resume", "write+resume", "left-to-end-of-case" };
struct Op { int kind; int tgt; long n; int post; };

struct Cm;
struct CB : public Server::Client::ICallback { Cm* m; void onRead(); void onWrite(); void onClosed(); };

struct Cm {
  int id; CB cb; Server::Client* c; int fd, pfd; int origin;   // 0 pair, 1 accepted (listener), 2 connected (establisher)
  su::OutStream out;        // client -> peer
  u64 S;                    // sum of successful send returns (bytes handed to the OS)
  u64 peerGot;              // bytes read and verified at the peer
  bool inWrite, errInThisWrite, backlogDropped, suspended, closedSeen, expectClosed, removed, pendingOnWrite, peerClosed, peerEof;
  bool inBatch;
  int lastOutcome;
  long onWriteCount, transitions, onReadCount;
  u32 inSalt; u64 inSent, inRead;   // peer -> client
  long lastRecvRet; int lastRecvErr;
  Vec<Op> qRead, qWrite;
  // scripts of drain-exh / rand: small writes that arrive between the partial sends of one backlog, and what onWrite does when the backlog has drained
  long midLeft; int wAct; bool wActArmed, pendAtDrain, pendScripted, otherInjected; int pendOther; long wSize; int wPost; long partialDrainsOfBacklog, midWritesOfBacklog;
  // model of the send Buffer's policy (capacity, front offset, size): steers the sizes of the mid-drain writes and feeds coverage counters, never a verdict
  u64 bufC, bufOff, bufN;
  // hangup-exh: the peer no longer receives (closed / shut down both directions): what is handed to the OS from then on can never be verified at the peer
  bool peerGone; long sendCalls;
  u64 backlog() const { return out.total(inWrite) - S; }
};

static Server* g_srv = 0;
static Vec<Cm*> g_cl;
static Vec<int> g_plan; static size_t g_planPos = 0;
static Rng* g_rng = 0;
static bool g_kernel = false, g_inRun = false, g_intrReq = false;
static long g_rounds = 0, g_roundCap = 0;
static int g_venue = V_OUT;
static u64 g_fp = 0;
static long g_nonfull = 0, g_drains = 0, g_frontOffsetAppends = 0, g_onWriteActs = 0;
static u8* g_tmp = 0; enum { TMPSZ = 1 << 17 };
// hangup-exh: did the library dispatch anything (callback, send, recv) between two epoll_wait calls?
static bool g_hangupWorld = false; static long g_progress = 0, g_progressAtLeave = 0; static int g_lastBatchN = 0;

static Cm* byFd(int fd) { int t = ns::tagOf(fd); return t >= 0 && (size_t)t < g_cl.n ? g_cl[(size_t)t] : 0; }

// ---------------------------------------------------------------- model of the send Buffer's policy (Buffer::append/resize/removeFront/free as used by Server::Client)
static void bufFree(Cm* m) { m->bufC = m->bufOff = m->bufN = 0; }
static void bufRemoveFront(Cm* m, u64 k) { if (k >= m->bufN) { bufFree(m); return; } m->bufOff += k; m->bufN -= k; }   // a complete drain is followed by free()
static void bufAppend(Cm* m, u64 k) {
  u64 ns = m->bufN + k; const char* br;
  if (ns > m->bufC) { m->bufC = ns; m->bufOff = 0; br = m->bufN ? "grow" : "grow-from-empty"; }
  else if (m->bufOff + ns <= m->bufC) { br = m->bufOff ? "in-place/front-offset" : "in-place/front-0"; if (m->bufOff) { ++g_frontOffsetAppends; cnt("appends_in_place_behind_front_offset"); } }
  else { m->bufOff = 0; br = "compact"; cnt("appends_compacting"); }
  m->bufN = ns;
  setItem("buffer_append_branches", br);
}
// size of a write that arrives after a partial send: mostly smaller than what was just sent, steered towards the in-place / compact / grow branch of the model
static long midSize(Cm* m) {
  Rng& r = *g_rng;
  u64 spare = m->bufC - m->bufOff - m->bufN, off = m->bufOff; u32 x = (u32)r.below(10);
  if (spare >= 1 && x < 6) return 1 + (long)r.below(spare < 4096 ? spare : 4096);                                  // fits behind the data: in place, front offset > 0
  if (off >= 2 && x < 9) return (long)spare + 1 + (long)r.below(off - 1 < 4096 ? off - 1 : 4096);                  // fits only after moving the data to the front; leaves room
  if (x < 9) return (long)(spare + off);                                                                           // fills the buffer exactly
  return (long)(spare + off) + 1 + (long)r.below(64);                                                              // does not fit: grow
}

// ---------------------------------------------------------------- peer side
static void drainPeer(Cm* m, long limit = -1) {
  if (m->pfd < 0 || m->peerEof) return;
  for (;;) {
    size_t want = TMPSZ; if (limit >= 0) { if (limit == 0) return; if ((size_t)limit < want) want = (size_t)limit; }
    long r = ns::realRecv(m->pfd, g_tmp, want, 0);
    if (m->origin != 0) su::quickAck(m->pfd);
    if (r < 0) { if (errno == EINTR) continue; if (errno == EAGAIN || errno == EWOULDBLOCK) return; m->peerEof = true; return; }
    if (r == 0) { m->peerEof = true; return; }
    u64 off = 0;
    long d = m->out.compare(m->peerGot, g_tmp, (size_t)r, m->inWrite, &off);
    if (d == -2) fail("Server.Client/peer-stream/excess-bytes", "client %d: the peer received %ld byte(s) at stream position %llu but only %llu byte(s) were ever accepted", m->id, r, (unsigned long long)m->peerGot, (unsigned long long)m->out.total(m->inWrite));
    if (d >= 0) {
      long long from = su::locate(m->out.salt, g_tmp + d, (size_t)(r - d), m->out.offered);
      fail("Server.Client/peer-stream/content", "client %d: peer stream differs at position %llu: expected the byte of offered offset %llu, received bytes that belong to offered offset %lld (%s)", m->id,
           (unsigned long long)(m->peerGot + (u64)d), (unsigned long long)off, from, from < 0 ? "garbage" : (u64)from > off ? "bytes were lost" : "bytes were duplicated or reordered");
    }
    m->peerGot += (u64)r; cnt("peer_bytes_verified", r);
    if (limit >= 0) limit -= r;
  }
}

static void peerSend(Cm* m, long n) {
  if (m->pfd < 0 || m->peerClosed || n <= 0) return;
  if (n > TMPSZ) n = TMPSZ;
  su::fill(m->inSalt, m->inSent, g_tmp, (size_t)n);
  long r = ns::realSend(m->pfd, g_tmp, (size_t)n, MSG_NOSIGNAL);
  if (r > 0) m->inSent += (u64)r;
  hist.addf("peer%d sends %ld byte(s) -> %ld\n", m->id, n, r);
}

// ---------------------------------------------------------------- shim hooks
static long hSendPlan(int fd, const void* buf, size_t len, int* err) {
  Cm* m = byFd(fd); if (!m) return -2;
  cnt("send_calls");
  const char* path = m->inWrite ? "direct" : "backlog";
  if (m->removed) fail("Server.Client.send/after-remove", "send() on the socket of removed client %d", m->id);
  if (len == 0) fail("Server.Client.send/zero-length", "client %d: send() called with length 0 (%s path)", m->id, path);
  u64 off = 0;
  long d = m->out.compare(m->S, (const u8*)buf, len, m->inWrite, &off);
  if (d != -1) {
    char key[128]; snprintf(key, sizeof key, "Server.Client.send/%s-after-%s/%s", path, m->lastOutcome < 0 ? "none" : ONAME[m->lastOutcome], d == -2 ? "beyond-accepted" : "content");
    if (d == -2) fail(key, "client %d: send() offers %zu byte(s) at stream position %llu but only %llu byte(s) were accepted", m->id, len, (unsigned long long)m->S, (unsigned long long)m->out.total(m->inWrite));
    long long from = su::locate(m->out.salt, (const u8*)buf + d, len - (size_t)d, m->out.offered);
    fail(key, "client %d: bytes handed to send() differ from the accepted stream at position %llu (offered offset %llu expected, bytes belong to offered offset %lld): %s", m->id,
         (unsigned long long)(m->S + (u64)d), (unsigned long long)off, from, from < 0 ? "garbage" : (u64)from > off ? "accepted bytes skipped (lost)" : "bytes sent twice or out of order");
  }
  cnt("send_bytes_compared", (long)len);
  if (g_kernel) return -2;
  int o = g_planPos < g_plan.n ? g_plan[g_planPos++] : O_FULL;
  long want;
  switch (o) {
  case O_P1: want = 1; break;
  case O_PK: want = len >= 3 ? 1 + (long)g_rng->below(len - 1) : (long)len; if (len >= 3 && want == (long)len) want = (long)len / 2; break;
  case O_PN1: want = len >= 2 ? (long)len - 1 : (long)len; break;
  case O_AGAIN: *err = g_rng->chance(1, 2) ? EAGAIN : EWOULDBLOCK; want = -1; break;
  case O_ERR: *err = g_rng->chance(1, 2) ? EPIPE : ECONNRESET; want = -1; break;
  default: want = (long)len; break;
  }
  if (want >= (long)len && o != O_FULL) { cnt("plan_degenerate_to_full"); o = O_FULL; }
  m->lastOutcome = o;
  { char it[64]; snprintf(it, sizeof it, "%s/%s", path, ONAME[o]); setItem("send_outcomes", it); }
  cnt(o == O_FULL ? "send_full" : o == O_AGAIN ? "send_eagain" : o == O_ERR ? "send_error" : "send_partial");
  return want;
}

static void hSendDone(int fd, const void* buf, size_t len, long ret, int err) {
  (void)buf;
  Cm* m = byFd(fd); if (!m) return;
  ++g_progress; ++m->sendCalls;
  hist.addf("    send(client%d, len=%zu, %s) -> %ld%s%s\n", m->id, len, m->inWrite ? "direct" : "backlog", ret, ret < 0 ? " errno=" : "", ret < 0 ? strerror(err) : "");
  if (!(g_kernel && m->origin != 0)) g_fp = mix(g_fp, (u64)(ret + 7) * 31 + (m->inWrite ? 1 : 0));   // real kernel on TCP: the split varies with ACK timing, not part of the case identity
  if (ret > 0) {
    u64 before = m->backlog();
    if ((u64)ret > before) harnessBug("send returned more than was offered");
    m->S += (u64)ret;
    if ((size_t)ret < len) { ++g_nonfull; if (g_kernel) { cnt("send_partial"); setItem("send_outcomes", m->inWrite ? "direct/kernel-partial" : "backlog/kernel-partial"); } }
    else if (g_kernel) { cnt("send_full"); setItem("send_outcomes", m->inWrite ? "direct/kernel-full" : "backlog/kernel-full"); }
    if (!m->inWrite && before > 0 && m->backlog() == 0) {
      m->pendingOnWrite = true; ++m->transitions; ++g_drains; cnt("backlog_drained");
      if (m->partialDrainsOfBacklog >= 2) cnt("backlogs_drained_in_3plus_sends");
      if (m->midWritesOfBacklog >= 2) cnt("backlogs_with_2plus_mid_drain_writes");
      m->partialDrainsOfBacklog = m->midWritesOfBacklog = 0;
    }
    if (!m->inWrite) {
      bufRemoveFront(m, (u64)ret);
      if (m->backlog() > 0) {
        // partial drain: the front of the buffer is now ahead of its start. Scripted: a small write arrives before the next send (the peer says something, so the
        // next poll round reports the client readable and onRead issues the write)
        ++m->partialDrainsOfBacklog; cnt("partial_drains");
        if (m->midLeft > 0 && g_inRun && !m->suspended && !m->removed && !m->peerClosed && m->pfd >= 0) {
          --m->midLeft;
          Op w = { K_WRITE, m->id, midSize(m), g_rng->chance(2, 3) ? 1 : 0 };
          m->qRead.insert(0, w);
          cnt("mid_drain_writes_scripted");
          peerSend(m, 1 + (long)g_rng->below(8));
        }
      }
    }
  } else if (ret < 0 && (err == EAGAIN || err == EWOULDBLOCK)) {
    ++g_nonfull;
    if (g_kernel) { cnt("send_eagain"); setItem("send_outcomes", m->inWrite ? "direct/kernel-eagain" : "backlog/kernel-eagain"); }
  } else {
    if (ret == 0) harnessBug("send returned 0");
    m->expectClosed = true;
    if (m->inWrite) m->errInThisWrite = true; else { m->backlogDropped = true; bufFree(m); cnt("hard_error_in_loop"); }
  }
}

static void hDrain(int fd) { Cm* m = byFd(fd); if (m) drainPeer(m); }
static void hRecvDone(int fd, const void* buf, size_t len, long ret, int err) { (void)buf; (void)len; Cm* m = byFd(fd); if (!m) return; ++g_progress; m->lastRecvRet = ret; m->lastRecvErr = err; cnt("recv_calls"); }

static int hIdle(int epfd, int timeout, long elapsed, long* adv);
// a live client that is suspended, for which neither read nor write readiness is requested from the poll set (epoll_ctl boundary) and whose socket the kernel reports
// as hung up / in error / at end of stream: epoll reports EPOLLHUP / EPOLLERR for it in every round although nothing was requested
static bool noInterest(unsigned mask) { return mask == 0xffffffffu || !(mask & (EPOLLIN | EPOLLOUT)); }
static Cm* hungUpUnregisteredClient() {
  for (size_t i = 0; i < g_cl.n; ++i) {
    Cm* m = g_cl[i];
    if (!m->removed && m->suspended && noInterest(ns::epollMask(m->fd)) && (su::pollNow(m->fd, POLLRDHUP) & (POLLHUP | POLLERR | POLLRDHUP))) return m;
  }
  return 0;
}

static void hWaitEnter(int epfd, int timeout) {
  (void)epfd; (void)timeout;
  if (!g_inRun) fail("Server/poll-outside-run", "epoll_wait called while run() is not executing");
  if (++g_rounds > g_roundCap) { fprintf(stderr, "--- history tail ---\n%s\n", hist.c()); harnessBug("round cap %ld exceeded (livelock of the loop or of the script)", g_roundCap); }
  cnt("loop_rounds");
  for (size_t i = 0; i < g_cl.n; ++i) {
    Cm* m = g_cl[i]; m->inBatch = false;
    if (m->pendingOnWrite && !m->removed) fail("Server.Client.onWrite/missing-after-drain", "client %d: the backlog drained (send log) but the loop polls again without having called onWrite", m->id);
  }
  // hangup-exh: the previous poll round reported events, the library dispatched nothing (no callback, no send, no recv) and polls again: with a hung-up suspended client
  // that is registered without events this repeats forever (the kernel keeps reporting EPOLLHUP) - for the harness this is an idle point: judge, then interrupt
  if (g_hangupWorld && g_lastBatchN > 0 && g_progress == g_progressAtLeave && hungUpUnregisteredClient()) {
    cnt("poll_rounds_that_dispatched_nothing");
    hIdle(epfd, timeout, 0, 0);
  }
  // scripted: peer data is made pending just before the poll round whose send will complete the drain (the event then carries read AND write readiness);
  // for "remove-other" the other client's read event is put into the same batch
  if (!g_kernel) for (size_t i = 0; i < g_cl.n; ++i) {
    Cm* m = g_cl[i];
    const bool wantOther = m->wActArmed && m->wAct == W_REMOVE_OTHER && !m->otherInjected;
    if ((!m->pendAtDrain && !wantOther) || m->removed || m->backlogDropped || m->peerClosed || m->pfd < 0 || m->backlog() == 0) continue;
    u64 len = m->backlog(); int o = g_planPos < g_plan.n ? g_plan[g_planPos] : O_FULL;
    bool drains = o == O_FULL || (o == O_P1 && len == 1) || (o == O_PK && len < 3) || (o == O_PN1 && len < 2);
    if (!drains) continue;
    if (m->pendAtDrain && !m->suspended) {
      m->pendAtDrain = false; cnt("peer_data_injected_before_draining_poll");
      peerSend(m, 1 + (long)g_rng->below(16));
    } else if (wantOther && (m->suspended || m->inSent == m->inRead)) {
      // nothing to read on this client: the coming round handles its write readiness, the other client's read event sits in the same batch
      Cm* ot = m->pendOther >= 0 && (size_t)m->pendOther < g_cl.n ? g_cl[(size_t)m->pendOther] : 0;
      m->otherInjected = true;
      if (ot && ot != m && !ot->removed && !ot->suspended) { cnt("other_client_made_readable_before_draining_poll"); peerSend(ot, 1 + (long)g_rng->below(16)); }
    }
  }
}

static void hWaitLeave(int epfd, int n, struct epoll_event* ev) {
  (void)epfd;
  g_lastBatchN = n; g_progressAtLeave = g_progress;
  int k = 0;
  for (int i = 0; i < n; ++i) {
    void* p = ev[i].data.ptr; if (!p) continue;
    void* sock = *(void**)p;   // Poll::Private::SocketInfo::socket (first member) - used for coverage counters only
    for (size_t j = 0; j < g_cl.n; ++j) if (!g_cl[j]->removed && (void*)g_cl[j]->c == sock) {
      g_cl[j]->inBatch = true; ++k;
      if ((ev[i].events & EPOLLIN) && (ev[i].events & EPOLLOUT) && g_cl[j]->backlog() > 0) {
        cnt("events_readable_and_writable_with_backlog");
        if (g_cl[j]->wActArmed && (g_cl[j]->wAct == W_SUSPEND || g_cl[j]->wAct == W_SUSPEND_WRITE || g_cl[j]->wAct == W_WRITE_SUSPEND)) cnt("events_readable_and_writable_with_onWrite_suspend_scripted");
      }
    }
  }
  if (k >= 2) cnt("batches_with_2plus_clients");
  statMax("max_events_in_batch", n);
}

static void checkBacklogValue(Cm* m, const char* where) {
  if (m->removed || m->backlogDropped) return;
  u64 have = m->c->getSendBufferSize(), want = m->backlog();
  cnt("backlog_size_checks");
  if (have != want) {
    char key[128]; snprintf(key, sizeof key, "Server.Client.getSendBufferSize/%s/value", where);
    fail(key, "client %d: getSendBufferSize() = %llu but accepted(%llu) - handed to the OS(%llu) = %llu", m->id, (unsigned long long)have, (unsigned long long)m->out.total(m->inWrite), (unsigned long long)m->S, (unsigned long long)want);
  }
}

// A loopback TCP wake-up is still in flight inside the kernel: the fd is ready according to poll(), the needed readiness IS requested from the loop's poll set,
// yet epoll_wait(0) has just returned nothing. Ask again (short real-time naps); inconclusive if that persists for 10 s, never a violation.
static int64_t g_strikeT0 = 0; static long g_strikeRound = -1, g_strikes = 0;
static int inflight(const char* what, int id, int fd, int re, unsigned mask) {
  if (g_strikeRound != g_rounds) { g_strikeRound = g_rounds; g_strikes = 0; g_strikeT0 = ns::realMonotonicMs(); }
  ++g_strikes; cnt("idle_repolls");
  if (g_strikes > 3) su::sleepUs(g_strikes < 50 ? 100 : 2000);
  if (ns::realMonotonicMs() - g_strikeT0 > 10000)
    harnessBug("%s %d: poll() reports 0x%x on fd %d, which is registered in the epoll set with mask 0x%x, yet epoll_wait(0) kept returning nothing for 10 s", what, id, re, fd, mask);
  return 1;
}

// returns 1 when a loopback TCP wake-up is in flight (the kernel has to be asked again), 0 when every client has been judged
static int idleChecks() {
  for (size_t i = 0; i < g_cl.n; ++i) {
    Cm* m = g_cl[i]; if (m->removed) continue;
    const bool tcp = m->origin != 0;
    if (m->pendingOnWrite) fail("Server.Client.onWrite/missing-after-drain", "client %d: the backlog drained but onWrite was not called before the loop blocks", m->id);
    if (m->expectClosed && !m->closedSeen) fail("Server.Client.onClosed/missing-after-failure", "client %d: a send/recv failed but the loop is about to block without having called onClosed", m->id);
    checkBacklogValue(m, "idle");
    // readiness is judged by an independent poll() on the fd; the violation is the library's registration as observed at the epoll_ctl boundary
    // (a properly registered fd that poll() and epoll_wait(0) disagree about would be a kernel matter: inconclusive)
    unsigned mask = ns::epollMask(m->fd);
    if (!m->backlogDropped && m->backlog() > 0 && m->S == m->peerGot) {
      if (tcp && !su::pollNow(m->fd, POLLOUT)) { cnt("tcp_inflight_waits"); if (!su::waitReady(m->fd, POLLOUT)) harnessBug("client %d: the peer has read everything but the TCP socket did not become writable within 10 s", m->id); }
      int re = su::pollNow(m->fd, POLLOUT);
      cnt("independent_poll_checks");
      if (!re) harnessBug("client %d: nothing in flight but the socket is not writable", m->id);
      if (tcp && mask != 0xffffffffu && (mask & EPOLLOUT)) return inflight("client", m->id, m->fd, re, mask);
      if (mask != 0xffffffffu && (mask & EPOLLOUT)) harnessBug("client %d: fd %d writable and registered with mask 0x%x, yet epoll_wait(0) returned nothing", m->id, m->fd, mask);
      fail(m->suspended ? "Server.Client.write/suspended/backlog-stalled" : "Server.Client.write/backlog-stalled", "client %d: %llu accepted byte(s) are still queued, the socket is writable (nothing in flight, poll() 0x%x), write readiness is not requested (epoll mask %s0x%x) and the loop is about to block",
           m->id, (unsigned long long)m->backlog(), re, mask == 0xffffffffu ? "absent " : "", mask);
    }
    if (!m->suspended && !m->closedSeen) {
      if (tcp && (m->inSent > m->inRead || m->peerClosed) && !su::pollNow(m->fd, POLLIN | POLLRDHUP | POLLHUP)) {
        cnt("tcp_inflight_waits"); if (!su::waitReady(m->fd, POLLIN | POLLRDHUP | POLLHUP)) harnessBug("client %d: loopback data / close of the peer never arrived", m->id);
      }
      int re = su::pollNow(m->fd, POLLIN | POLLRDHUP | POLLHUP);
      cnt("independent_poll_checks");
      if (re) {
        if (tcp && mask != 0xffffffffu && (mask & EPOLLIN)) return inflight("client", m->id, m->fd, re, mask);
        if (mask != 0xffffffffu && (mask & EPOLLIN)) harnessBug("client %d: fd %d readable (0x%x) and registered with mask 0x%x, yet epoll_wait(0) returned nothing", m->id, m->fd, re, mask);
        fail("Server.Client.onRead/readable-not-dispatched", "client %d is not suspended and poll() reports 0x%x on its socket, but read readiness is not requested (epoll mask %s0x%x) and the loop is about to block", m->id, re, mask == 0xffffffffu ? "absent " : "", mask);
      }
    }
  }
  return 0;
}

static int freshPending();

static int hIdle(int epfd, int timeout, long elapsed, long* adv) {
  (void)epfd; (void)timeout; (void)elapsed; (void)adv;
  cnt("idle_points");
  if (g_intrReq) fail("Server.interrupt/no-wakeup", "interrupt() has returned but the loop's poll set reports nothing ready");
  if (idleChecks()) return ns::IDLE_AGAIN;
  if (freshPending()) return ns::IDLE_AGAIN;
  {
    // bytes in flight keep a unix socket unwritable: the peer reads (kernel mode: slowly, in random chunks) before the loop may be judged idle
    bool any = false;
    for (size_t i = 0; i < g_cl.n; ++i) {
      Cm* m = g_cl[i];
      if (m->S > m->peerGot && !m->peerEof) {
        if (m->origin != 0 && m->pfd >= 0 && !su::pollNow(m->pfd, POLLIN | POLLHUP)) { cnt("tcp_inflight_waits"); if (!su::waitReady(m->pfd, POLLIN | POLLHUP)) harnessBug("client %d: bytes handed to the kernel never arrived at the loopback peer", m->id); }
        if (g_kernel) { long chunk = g_rng->chance(1, 4) ? 1 + (long)g_rng->below(300) : 1 + (long)g_rng->below(40000); drainPeer(m, chunk); cnt("slow_reader_chunks"); }
        else drainPeer(m);
        any = true;
      }
    }
    if (any) return ns::IDLE_AGAIN;
  }
  setctx("Server.interrupt/at-idle");
  g_srv->interrupt(); g_intrReq = true;
  setctx("Server.run");
  return ns::IDLE_AGAIN;
}

// ---------------------------------------------------------------- operations
static void doWrite(Cm* m, long size, bool usePost) {
  if (m->removed) return;
  u8* p = (u8*)malloc((size_t)size);   // exactly-sized block: an over-read is an ASan report
  su::fill(m->out.salt, m->out.offered, p, (size_t)size);
  bool hadBacklog = m->backlog() > 0; u64 backlogBefore = m->backlog();
  m->out.pend.start = m->out.offered; m->out.pend.len = (u64)size; m->out.hasPend = true; m->out.offered += (u64)size;
  u64 Sbefore = m->S; long sendsBefore = ns::nSend();
  usize post = (usize)0xdeadbeefUL;
  m->inWrite = true; m->errInThisWrite = false;
  const char* cls = hadBacklog ? "append" : "direct";
  setctxf("Server.Client.write/%s/size=%ld/%s", cls, size, VNAME[g_venue]);
  hist.addf("  [%s] client%d.write(%ld bytes%s) backlog-before=%llu\n", VNAME[g_venue], m->id, size, usePost ? ", &postponed" : "", (unsigned long long)backlogBefore);
  bool ok = m->c->write((const byte*)p, (usize)size, usePost ? &post : 0);
  m->inWrite = false; m->out.hasPend = false;
  free(p);
  setctx(g_inRun ? "Server.run" : "driver");
  cnt("writes"); cnt(hadBacklog ? "writes_append_path" : "writes_direct_path");
  { char it[64]; snprintf(it, sizeof it, "%s/%s", VNAME[g_venue], cls); setItem("write_venues", it); }
  g_fp = mix(g_fp, (u64)size * 4 + (ok ? 1 : 0) + (u64)g_venue * 2);
  if (hadBacklog && ns::nSend() != sendsBefore) cnt("sends_during_append_write");
  if (ok) {
    m->out.acc.push(m->out.pend); m->out.accepted += (u64)size;
    cnt("writes_true"); cnt("bytes_accepted", size);
    if (hadBacklog) { bufAppend(m, (u64)size); if (g_inRun && m->partialDrainsOfBacklog > 0) { ++m->midWritesOfBacklog; cnt("writes_between_partial_drains"); } }
    else if (m->backlog() > 0) { bufFree(m); bufAppend(m, m->backlog()); }
    if (m->errInThisWrite) fail("Server.Client.write/hard-error/returned-true", "client %d: send failed with a hard error inside write() but write() returned true", m->id);
    u64 want = m->backlog();
    char key[128];
    if (usePost) {
      cnt("postponed_checks");
      if ((u64)post != want) { snprintf(key, sizeof key, "Server.Client.write/%s-%s/postponed", cls, m->lastOutcome < 0 ? "none" : ONAME[m->lastOutcome]); fail(key, "client %d: write(%ld) reported postponed=%llu but accepted(%llu) - handed to the OS(%llu) = %llu", m->id, size, (unsigned long long)post, (unsigned long long)m->out.accepted, (unsigned long long)m->S, (unsigned long long)want); }
    }
    checkBacklogValue(m, "after-write");
    hist.addf("    -> true, postponed=%llu\n", (unsigned long long)want);
    statMax("max_backlog", (long)want);
  } else {
    cnt("writes_false");
    hist.addf("    -> false\n");
    if (!m->errInThisWrite) fail("Server.Client.write/returned-false-without-send-failure", "client %d: write(%ld) returned false although no send failed during the call", m->id, size);
    if (m->S != Sbefore) fail("Server.Client.write/returned-false-after-sending", "client %d: write(%ld) returned false but %llu byte(s) of it were handed to the OS", m->id, size, (unsigned long long)(m->S - Sbefore));
    m->expectClosed = true;
  }
}

static void readFrom(Cm* m, long maxTotal) {
  // maxTotal < 0: until the library says there is nothing more
  long total = 0;
  for (;;) {
    size_t want = 1 + (size_t)g_rng->below(8192); if (maxTotal >= 0) { if (total >= maxTotal) return; if ((size_t)(maxTotal - total) < want) want = (size_t)(maxTotal - total); }
    u8* b = (u8*)malloc(want); usize got = 12345;
    setctxf("Server.Client.read/max=%zu", want);
    m->lastRecvRet = -99;
    bool ok = m->c->read((byte*)b, want, got);
    setctx("Server.run");
    cnt("reads");
    if (ok) {
      if (got == 0 || got > want) fail("Server.Client.read/size", "client %d: read(max=%zu) returned true with size %llu", m->id, want, (unsigned long long)got);
      long d = su::firstDiff(m->inSalt, m->inRead, b, (size_t)got);
      if (d >= 0 || m->inRead + got > m->inSent) fail("Server.Client.read/content", "client %d: inbound bytes differ at stream offset %llu", m->id, (unsigned long long)(m->inRead + (u64)(d < 0 ? 0 : d)));
      m->inRead += got; total += (long)got; cnt("inbound_bytes_verified", (long)got);
      free(b);
      continue;
    }
    free(b);
    if (got != 0) fail("Server.Client.read/size", "client %d: read returned false with size %llu", m->id, (unsigned long long)got);
    if (m->lastRecvRet == -99) harnessBug("read() did not call recv");
    if (m->lastRecvRet < 0 && (m->lastRecvErr == EAGAIN || m->lastRecvErr == EWOULDBLOCK)) return;   // would block
    m->expectClosed = true; hist.addf("    client%d.read -> closed (recv=%ld)\n", m->id, m->lastRecvRet);
    return;
  }
}

static void settlePeer(Cm* m);
static void execOp(Cm* self, const Op& op) {
  Cm* t = op.tgt >= 0 && (size_t)op.tgt < g_cl.n ? g_cl[(size_t)op.tgt] : self;
  if (!t || t->removed) return;
  switch (op.kind) {
  case K_WRITE: doWrite(t, op.n, op.post != 0); break;
  case K_SUSPEND:
    if (t->inBatch && t != self) cnt("suspend_while_event_selected");
    setctx("Server.Client.suspend"); hist.addf("  [%s] client%d.suspend()%s\n", VNAME[g_venue], t->id, t->inBatch && t != self ? " (event selected, undelivered)" : "");
    t->c->suspend(); t->suspended = true; cnt("suspends");
    if (!t->c->isSuspended()) fail("Server.Client.isSuspended/after-suspend", "client %d: isSuspended() false after suspend()", t->id);
    setctx(g_inRun ? "Server.run" : "driver");
    break;
  case K_RESUME:
    setctx("Server.Client.resume"); hist.addf("  [%s] client%d.resume()\n", VNAME[g_venue], t->id);
    if (t->suspended && t->inRead < t->inSent) cnt("resume_with_pending_data");
    t->c->resume(); t->suspended = false; cnt("resumes");
    if (t->c->isSuspended()) fail("Server.Client.isSuspended/after-resume", "client %d: isSuspended() true after resume()", t->id);
    setctx(g_inRun ? "Server.run" : "driver");
    break;
  case K_REMOVE:
    if (t->inBatch && t != self) cnt("remove_while_event_selected");
    setctxf("Server.remove(Client)/%s%s", VNAME[g_venue], t->inBatch && t != self ? "/event-selected" : "");
    hist.addf("  [%s] remove(client%d)%s\n", VNAME[g_venue], t->id, t->inBatch && t != self ? " (event selected, undelivered)" : "");
    if (t->origin != 0) { drainPeer(t); settlePeer(t); }
    g_srv->remove(*t->c); t->removed = true; ns::unregisterFd(t->fd); cnt("removes_in_callback");
    setctx(g_inRun ? "Server.run" : "driver");
    break;
  case K_READALL: if (g_inRun && t == self) readFrom(t, -1); break;
  case K_READSOME: if (g_inRun && t == self) readFrom(t, op.n); break;
  default: break;
  }
  g_fp = mix(g_fp, (u64)op.kind * 7 + (u64)(op.tgt + 1));
}

static void callbackPrologue(Cm* m, const char* name) {
  if (!g_inRun) fail("Server.Client/callback-outside-run", "%s for client %d while run() is not executing", name, m->id);
  ++g_progress;
  if (m->removed) { char key[96]; snprintf(key, sizeof key, "Server.remove(Client)/%s-after-remove", name); fail(key, "%s delivered to client %d after remove() returned", name, m->id); }
  for (size_t i = 0; i < g_cl.n; ++i) {
    Cm* o = g_cl[i];
    if (o->pendingOnWrite && !o->removed && !(o == m && !strcmp(name, "onWrite")))
      fail("Server.Client.onWrite/missing-after-drain", "client %d: the backlog drained but the next callback is %s(client %d), not onWrite", o->id, name, m->id);
  }
  m->inBatch = false;
}

static void settlePeer(Cm* m);

void CB::onRead() {
  callbackPrologue(m, "onRead");
  cnt("onRead"); ++m->onReadCount;
  hist.addf("  onRead(client%d)%s\n", m->id, m->suspended ? " SUSPENDED" : "");
  if (m->suspended && m->peerClosed) fail("Server.Client.onRead/while-suspended/after-peer-hang-up", "onRead delivered to client %d between suspend() and resume(): its peer has %s (%llu inbound byte(s) pending, epoll registration mask 0x%x)", m->id, m->peerGone ? "closed / reset / shut down the connection" : "shut down its sending side", (unsigned long long)(m->inSent - m->inRead), ns::epollMask(m->fd));
  if (m->suspended) fail("Server.Client.onRead/while-suspended", "onRead delivered to client %d between suspend() and resume() (%llu inbound byte(s) pending)", m->id, (unsigned long long)(m->inSent - m->inRead));
  int saved = g_venue; g_venue = V_ONREAD;
  bool handled = false; int nops = 0;
  while (m->qRead.n && nops < 3 && !m->removed) {
    Op op = m->qRead[0]; m->qRead.removeAt(0); ++nops;
    if (op.kind == K_READALL || op.kind == K_READSOME || op.kind == K_SKIPREAD) handled = true;
    if (op.kind == K_SKIPREAD) cnt("onRead_left_data_unread");
    execOp(m, op);
  }
  if (!handled && !m->suspended && !m->removed) readFrom(m, -1);
  g_venue = saved;
}

void CB::onWrite() {
  callbackPrologue(m, "onWrite");
  cnt("onWrite"); ++m->onWriteCount;
  hist.addf("  onWrite(client%d)\n", m->id);
  if (!m->pendingOnWrite) fail(m->backlog() > 0 ? "Server.Client.onWrite/before-drained" : "Server.Client.onWrite/spurious", "onWrite delivered to client %d without a backlog non-empty -> empty transition (model backlog %llu, transitions %ld, onWrite calls %ld)", m->id, (unsigned long long)m->backlog(), m->transitions, m->onWriteCount);
  if (m->backlog() != 0) fail("Server.Client.onWrite/before-drained", "onWrite delivered to client %d while %llu byte(s) are still queued", m->id, (unsigned long long)m->backlog());
  m->pendingOnWrite = false;
  checkBacklogValue(m, "onWrite");
  int saved = g_venue; g_venue = V_ONWRITE;
  if (m->wActArmed) {
    // scripted reaction to the drain (flow control: stop reading after the response went out, answer at once, drop another connection)
    m->wActArmed = false; ++g_onWriteActs;
    const int act = m->wAct; const u64 unread = m->inSent - m->inRead;
    Op w = { K_WRITE, m->id, m->wSize, m->wPost }, sus = { K_SUSPEND, m->id, 0, 0 }, rm = { K_REMOVE, m->pendOther, 0, 0 };
    hist.addf("  the onWrite handler does: %s (%llu inbound byte(s) unread)\n", WNAME[act], (unsigned long long)unread);
    bool wrote = false;
    switch (act) {
    case W_WRITE: execOp(m, w); wrote = true; break;
    case W_SUSPEND: execOp(m, sus); break;
    case W_SUSPEND_WRITE: execOp(m, sus); execOp(m, w); wrote = true; break;
    case W_WRITE_SUSPEND: execOp(m, w); execOp(m, sus); wrote = true; break;
    case W_REMOVE_OTHER: if (m->pendOther >= 0 && m->pendOther != m->id) execOp(m, rm); break;
    default: break;
    }
    cnt("onWrite_acts");
    if (act == W_SUSPEND || act == W_SUSPEND_WRITE || act == W_WRITE_SUSPEND) cnt("suspends_in_onWrite");
    if (wrote) { cnt("writes_in_onWrite_act"); if (m->backlog() > 0) cnt("writes_in_onWrite_act_leaving_backlog"); }
    char nm[96]; snprintf(nm, sizeof nm, "%s/%s/%s", WNAME[act], m->pendScripted ? "peer-data-before-drain" : "quiet-peer", !wrote ? "-" : m->expectClosed ? "hard-error" : m->backlog() > 0 ? "backlog" : "sent-completely");
    setItem("onWrite_acts", nm);
    g_fp = mix(g_fp, 9000 + (u64)act * 2 + (m->pendScripted ? 1 : 0));
  }
  int nops = 0;
  while (m->qWrite.n && nops < 2 && !m->removed) { Op op = m->qWrite[0]; m->qWrite.removeAt(0); ++nops; execOp(m, op); }
  g_venue = saved;
}

void CB::onClosed() {
  callbackPrologue(m, "onClosed");
  cnt("onClosed");
  hist.addf("  onClosed(client%d)\n", m->id);
  if (!m->expectClosed) fail("Server.Client.onClosed/unexpected", "onClosed delivered to client %d although no send or recv on it failed", m->id);
  if (m->closedSeen) fail("Server.Client.onClosed/twice", "onClosed delivered twice to client %d", m->id);
  m->closedSeen = true;
  // TCP: closing a socket that still holds unread inbound bytes is an abortive close (RST) - the kernel then discards what it has accepted from send() but not yet
  // delivered. The application (harness) therefore lets the peer receive what is in flight before it closes the client.
  if (m->origin != 0) { drainPeer(m); settlePeer(m); }
  setctx("Server.remove(Client)/in-onClosed");
  g_srv->remove(*m->c);
  m->removed = true; ns::unregisterFd(m->fd);
  setctx("Server.run");
}

// loopback TCP: bytes the kernel has taken from the client may still be on their way to the peer (bounded real-time wait, verdicts do not depend on it
// beyond "inconclusive": what never arrives within 10 s is reported by the callers' completeness checks with the numbers at hand)
static void settlePeer(Cm* m) {
  if (m->origin == 0) return;
  for (int w = 0; w < 40000 && m->peerGot < m->S && !m->peerEof && m->pfd >= 0; ++w) { drainPeer(m); if (m->peerGot < m->S) su::sleepUs(250); }
}

static void pump() {
  g_intrReq = false; g_inRun = true; g_lastBatchN = 0;
  setctx("Server.run"); hist.add("run()\n");
  g_srv->run();
  g_inRun = false; setctx("driver");
  if (!g_intrReq) fail("Server.run/returned-without-interrupt", "run() returned although interrupt() was not requested");
  g_intrReq = false; cnt("pumps");
  for (size_t i = 0; i < g_cl.n; ++i) {
    Cm* m = g_cl[i];
    if (!g_kernel || m->removed) { drainPeer(m); settlePeer(m); }
    if (!g_kernel && !m->peerGone && m->peerGot != m->S) fail("Server.Client/peer-stream/incomplete", "client %d: %llu byte(s) were handed to the OS but the peer has received %llu", m->id, (unsigned long long)m->S, (unsigned long long)m->peerGot);
  }
}

static Cm* newCm(int id, int origin) {
  Cm* m = new Cm;
  m->id = id; m->cb.m = m; m->origin = origin; m->c = 0; m->fd = m->pfd = -1; m->S = m->peerGot = 0; m->inWrite = m->errInThisWrite = m->backlogDropped = m->suspended = m->closedSeen = m->expectClosed = m->removed = m->pendingOnWrite = m->peerClosed = m->peerEof = m->inBatch = false;
  m->lastOutcome = -1; m->onWriteCount = m->transitions = m->onReadCount = 0; m->inSent = m->inRead = 0; m->lastRecvRet = 0; m->lastRecvErr = 0;
  m->out.salt = (u32)(id * 2 + 11); m->inSalt = (u32)(id * 2 + 12);
  m->midLeft = 0; m->wAct = W_NONE; m->wActArmed = m->pendAtDrain = m->pendScripted = m->otherInjected = false; m->pendOther = -1; m->wSize = 1; m->wPost = 0; m->partialDrainsOfBacklog = m->midWritesOfBacklog = 0;
  m->bufC = m->bufOff = m->bufN = 0;
  m->peerGone = false; m->sendCalls = 0;
  return m;
}

static Cm* addClient(int id) {
  Cm* m = newCm(id, 0);
  Socket peer;
  setctx("Server.pair");
  m->c = g_srv->pair(m->cb, peer);
  if (!m->c) harnessBug("Server::pair failed: %s", strerror(errno));
  SOCK_TAKE_FD(peer, m->pfd);
  m->fd = (int)m->c->getSocket().getFileDescriptor();
  su::setNonBlock(m->pfd);
  if (g_kernel) { int v = 1; setsockopt(m->pfd, SOL_SOCKET, SO_RCVBUF, &v, sizeof v); }
  g_cl.push(m);
  ns::registerFd(m->fd, id);
  return m;
}

static void beginWorld(int nclients) {
  ns::reset(); ns::mode = ns::VIRTUAL;
  g_planPos = 0; g_rounds = 0; g_intrReq = false; g_inRun = false; g_venue = V_OUT; g_fp = 0; g_nonfull = 0; g_drains = 0; g_frontOffsetAppends = 0; g_onWriteActs = 0;
  g_hangupWorld = false; g_progress = g_progressAtLeave = 0; g_lastBatchN = 0;
  g_srv = new Server;
  if (g_kernel) g_srv->setSendBufferSize(1);   // the kernel rounds up to its minimum (4608 on this kernel): genuine partial sends and EAGAIN
  for (int i = 0; i < nclients; ++i) addClient(i);
}

// ---------------------------------------------------------------- clients that come out of a listener / an establisher; the accept / connect callback acts on them
struct LCB : public Server::Listener::ICallback { Server::Client::ICallback* onAccepted(Server::Client& client, uint32 ip, uint16 port); };
struct ECB : public Server::Establisher::ICallback { Server::Client::ICallback* onConnected(Server::Client& client); void onAbolished(); };
struct Fresh {
  bool armed, called; int origin, act; long size[2]; int post[2];
  Server::Listener* l; Server::Establisher* e; int sfd;   // sfd: the listener's / establisher's socket (observation only)
  int rawFd; uint16_t rawPort;                            // accepted: the harness' end of the connection, made before run(); connected: local port of the establisher
  Cm* made;
};
static Fresh g_fresh; static LCB g_lcb; static ECB g_ecb;
static int g_rawListen = -1; static uint16_t g_rawPort = 0;

// the loop is about to block although the connection that must produce the fresh client is (or is about to be) visible on the listener / establisher socket
static int freshPending() {
  Fresh& f = g_fresh; if (!f.armed || f.called) return 0;
  const bool acc = f.origin == 1; short ev = acc ? (short)POLLIN : (short)(POLLOUT | POLLERR | POLLHUP); unsigned need = acc ? (unsigned)EPOLLIN : (unsigned)EPOLLOUT;
  if (!su::pollNow(f.sfd, ev)) { cnt("tcp_inflight_waits"); if (!su::waitReady(f.sfd, ev)) harnessBug("the loopback connection never showed up on the %s socket", acc ? "listener" : "establisher"); }
  unsigned mask = ns::epollMask(f.sfd);
  if (mask == 0xffffffffu || !(mask & need)) {
    if (acc) fail("Server.Listener.onAccepted/acceptable-not-dispatched", "the listener has a connection to accept but accept readiness is not requested from the poll set (epoll mask %s0x%x) and the loop is about to block", mask == 0xffffffffu ? "absent " : "", mask);
    fail("Server.Establisher/connect-result-not-dispatched", "the establisher's connect has finished but its result is not requested from the poll set (epoll mask %s0x%x) and the loop is about to block", mask == 0xffffffffu ? "absent " : "", mask);
  }
  return inflight(acc ? "listener" : "establisher", 0, f.sfd, su::pollNow(f.sfd, ev), mask);
}

// the body of onAccepted / onConnected: model the client, run the scripted action on it, hand out its callback object
static Server::Client::ICallback* freshClient(Server::Client& client, int pfd) {
  Fresh& f = g_fresh;
  const char* cbn = f.origin == 1 ? "onAccepted" : "onConnected";
  if (!g_inRun) { char key[96]; snprintf(key, sizeof key, "Server/%s-outside-run", cbn); fail(key, "%s while run() is not executing", cbn); }
  for (size_t i = 0; i < g_cl.n; ++i) { Cm* o = g_cl[i]; if (o->pendingOnWrite && !o->removed) fail("Server.Client.onWrite/missing-after-drain", "client %d: the backlog drained but the next callback is %s, not onWrite", o->id, cbn); }
  f.called = true; ++g_progress;
  int id = (int)g_cl.n;
  Cm* m = newCm(id, f.origin);
  m->c = &client; m->pfd = pfd; m->fd = (int)client.getSocket().getFileDescriptor();
  g_cl.push(m); ns::registerFd(m->fd, id); f.made = m;
  cnt(f.origin == 1 ? "onAccepted" : "onConnected");
  hist.addf("  %s -> client%d, the callback does: %s\n", cbn, id, FNAME[f.act]);
  int saved = g_venue; g_venue = f.origin == 1 ? V_ONACCEPTED : V_ONCONNECTED;
  Op w0 = { K_WRITE, id, f.size[0], f.post[0] }, w1 = { K_WRITE, id, f.size[1], f.post[1] }, sus = { K_SUSPEND, id, 0, 0 };
  int nw = 0; bool susp = false;
  switch (f.act) {
  case F_WRITE: execOp(m, w0); nw = 1; break;
  case F_SUSPEND: execOp(m, sus); susp = true; break;
  case F_SUSPEND_WRITE: execOp(m, sus); execOp(m, w0); nw = 1; susp = true; break;
  case F_WRITE_SUSPEND: execOp(m, w0); execOp(m, sus); nw = 1; susp = true; break;
  case F_WRITE_WRITE: execOp(m, w0); execOp(m, w1); nw = 2; break;
  default: break;
  }
  g_venue = saved;
  char nm[64];
  if (nw) { snprintf(nm, sizeof nm, "writes_in_%s", cbn); cnt(nm, nw); if (m->backlog() > 0) { snprintf(nm, sizeof nm, "writes_in_%s_leaving_backlog", cbn); cnt(nm); } }
  if (susp) { snprintf(nm, sizeof nm, "suspends_in_%s", cbn); cnt(nm); }
  if (!nw && !susp) { snprintf(nm, sizeof nm, "nothing_in_%s", cbn); cnt(nm); }
  snprintf(nm, sizeof nm, "%s/%s/%s", cbn, FNAME[f.act], !nw ? "-" : m->expectClosed ? "hard-error" : m->backlog() > 0 ? "backlog" : "sent-completely"); setItem("fresh_client_acts", nm);
  g_fp = mix(g_fp, 7000 + (u64)f.act * 16 + (u64)f.origin);
  return &m->cb;
}

Server::Client::ICallback* LCB::onAccepted(Server::Client& client, uint32 ip, uint16 port) {
  Fresh& f = g_fresh;
  if (!f.armed || f.origin != 1 || f.called) fail("Server.Listener.onAccepted/unexpected", "onAccepted (peer %08x:%u) although no unaccepted connection was made to the listener", (unsigned)ip, (unsigned)port);
  if (ip != 0x7f000001u || port != f.rawPort) fail("Server.Listener.onAccepted/peer-address", "accepted a connection reported as %08x:%u, the raw peer connected from 127.0.0.1:%u", (unsigned)ip, (unsigned)port, (unsigned)f.rawPort);
  return freshClient(client, f.rawFd);
}
Server::Client::ICallback* ECB::onConnected(Server::Client& client) {
  Fresh& f = g_fresh;
  if (!f.armed || f.origin != 2 || f.called) fail("Server.Establisher/second-callback", "onConnected although no connect is pending");
  int pfd = -1;
  for (int tries = 0; tries < 64 && pfd < 0; ++tries) {   // the raw end of exactly this connection (stale connections of earlier cases are reset)
    int fd = accept4(g_rawListen, 0, 0, SOCK_CLOEXEC);
    if (fd < 0) { if (errno == EINTR) continue; if (!su::waitReady(g_rawListen, POLLIN)) break; continue; }
    su::lingerReset(fd, true);
    if (su::peerPort(fd) == f.rawPort) { su::setNonBlock(fd); su::tcpFast(fd); pfd = fd; } else close(fd);
  }
  if (pfd < 0) harnessBug("the raw listener has no connection from port %u", (unsigned)f.rawPort);
  return freshClient(client, pfd);
}
void ECB::onAbolished() { fail("Server.Establisher.onAbolished/open-port", "connect to a listening loopback port was abolished (%s)", strerror(errno)); }

// creates the listener + raw connection (origin 1) or the establisher (origin 2), runs the loop until the callback has acted, returns the model of the fresh client
static Cm* freshPhase(Rng& r, int origin, int act, long s0, long s1) {
  Fresh& f = g_fresh; memset(&f, 0, sizeof f);
  f.origin = origin; f.act = act; f.size[0] = s0; f.size[1] = s1; f.post[0] = r.chance(2, 3) ? 1 : 0; f.post[1] = r.chance(2, 3) ? 1 : 0; f.rawFd = -1;
  if (origin == 1) {
    uint16_t lport = 0;
    for (int attempt = 0; ; ++attempt) {
      setctx("Server.listen"); f.l = g_srv->listen(Socket::loopbackAddress, 0, g_lcb); setctx("driver");
      if (f.l) { f.sfd = SOCK_FD(*(Socket*)(void*)f.l); lport = su::localPort(f.sfd); }
      if (f.l && (f.rawFd = su::rawConnect(lport)) >= 0) break;
      if (f.l) { g_srv->remove(*f.l); f.l = 0; }
      if (attempt >= 200) harnessBug("cannot set up a loopback listener with a raw connection: %s", strerror(errno));
      su::sleepUs(2000);
    }
    f.rawPort = su::localPort(f.rawFd);
    hist.addf("listen(127.0.0.1:%u), raw connection from port %u\n", (unsigned)lport, (unsigned)f.rawPort);
  } else {
    if (g_rawListen < 0 && (g_rawListen = su::rawListener(&g_rawPort)) < 0) harnessBug("cannot create the raw loopback listener: %s", strerror(errno));
    setctx("Server.connect"); f.e = g_srv->connect(Socket::loopbackAddress, g_rawPort, g_ecb); setctx("driver");
    if (!f.e) harnessBug("Server::connect to the raw loopback listener failed: %s", strerror(errno));
    f.sfd = SOCK_FD(*(Socket*)(void*)f.e); f.rawPort = su::localPort(f.sfd);
    hist.addf("connect(127.0.0.1:%u) from port %u\n", (unsigned)g_rawPort, (unsigned)f.rawPort);
  }
  f.armed = true;
  pump();
  if (!f.called) harnessBug("the loop went idle without the %s callback", origin == 1 ? "onAccepted" : "onConnected");
  f.armed = false;
  if (r.chance(1, 2)) {
    setctx(origin == 1 ? "Server.remove(Listener)" : "Server.remove(Establisher)"); hist.addf("remove(%s)\n", origin == 1 ? "listener" : "establisher");
    if (origin == 1) g_srv->remove(*f.l); else g_srv->remove(*f.e);
    setctx("driver"); cnt("fresh_source_removed");
  }
  return f.made;
}

// what follows the accept / connect callback for a client the callback left suspended: the peer talks (nothing may be delivered), a backlog still has to drain,
// then resume() - the pending inbound bytes must produce onRead
static void freshFollowUp(Rng& r, Cm* m, int cls) {
  if (m->removed) return;
  peerSend(m, 1 + (long)r.below(64));
  pump();
  if (m->removed || !m->suspended) return;
  if (r.chance(1, 2)) { Op w = { K_WRITE, m->id, cls < 0 ? 1 + (long)r.below(70000) : 1 + (long)r.below(cls == 0 ? 7 : cls == 1 ? 4096 : 70000), 1 }; execOp(m, w); cnt("writes_while_suspended_since_callback"); pump(); }
  if (m->removed) return;
  long readsBefore = m->onReadCount; u64 pending = m->inSent - m->inRead;
  Op res = { K_RESUME, m->id, 0, 0 }; execOp(m, res);
  pump();
  if (!m->removed && pending > 0 && m->onReadCount == readsBefore) fail("Server.Client.resume/pending-data/no-onRead", "client %d was resumed with %llu inbound byte(s) pending, the loop went idle, but onRead was not delivered", m->id, (unsigned long long)pending);
  if (pending > 0) cnt("resume_after_callback_suspend_delivered_pending");
}

static void finalChecks() {
  for (size_t i = 0; i < g_cl.n; ++i) {
    Cm* m = g_cl[i];
    drainPeer(m); settlePeer(m);
    if (!m->peerGone && m->peerGot != m->S) fail("Server.Client/peer-stream/incomplete", "client %d: %llu byte(s) were handed to the OS but the peer has received %llu", m->id, (unsigned long long)m->S, (unsigned long long)m->peerGot);
    if (!m->backlogDropped && !m->removed && !m->peerGone && m->S != m->out.accepted) fail("Server.Client/peer-stream/backlog-never-sent", "client %d: accepted %llu byte(s), only %llu handed to the OS after the loop went idle", m->id, (unsigned long long)m->out.accepted, (unsigned long long)m->S);
    if (m->transitions != m->onWriteCount) fail("Server.Client.onWrite/count", "client %d: %ld backlog drain(s) but %ld onWrite call(s)", m->id, m->transitions, m->onWriteCount);
    cnt("streams_verified_end_to_end");
  }
}

static void endWorld(Rng& r) {
  // flush operations that never found their callback: resume everybody, run what is left from outside
  for (size_t i = 0; i < g_cl.n; ++i) {   // no further suspends: a suspended client whose peer closes is outside the generated space (see SPEC assumptions)
    Cm* m = g_cl[i];
    for (size_t k = m->qRead.n; k-- > 0;) if (m->qRead[k].kind == K_SUSPEND) m->qRead.removeAt(k);
    for (size_t k = m->qWrite.n; k-- > 0;) if (m->qWrite[k].kind == K_SUSPEND) m->qWrite.removeAt(k);
    m->wActArmed = false; m->pendAtDrain = false;
  }
  for (size_t i = 0; i < g_cl.n; ++i) { Cm* m = g_cl[i]; if (!m->removed && m->suspended) { Op op = { K_RESUME, (int)i, 0, 0 }; execOp(m, op); } }
  pump();
  for (size_t i = 0; i < g_cl.n; ++i) {
    Cm* m = g_cl[i];
    while (m->qWrite.n && !m->removed) { Op op = m->qWrite[0]; m->qWrite.removeAt(0); if (op.kind == K_WRITE) { cnt("queued_ops_run_outside"); execOp(m, op); } }
    m->qRead.clear();
  }
  pump();
  finalChecks();
  // closing variants
  for (size_t i = 0; i < g_cl.n; ++i) {
    Cm* m = g_cl[i]; if (m->removed) continue;
    int v = (int)r.below(3);
    if (v == 0) {
      if (m->suspended) harnessBug("client still suspended at the end of the case");
      hist.addf("peer%d closes\n", m->id); cnt("end_peer_close");
      if (m->origin != 0 && r.chance(1, 8)) { su::lingerReset(m->pfd, false); cnt("end_peer_close_tcp_graceful"); }   // TCP peers mostly reset (SO_LINGER 0)
      close(m->pfd); m->pfd = -1; m->peerClosed = true;
      pump();
      if (!m->removed) fail("Server.Client.onClosed/missing-after-peer-close", "client %d: the peer closed, the loop went idle, but the client was never told", m->id);
    } else if (v == 1) {
      hist.addf("remove(client%d) from outside\n", m->id); cnt("end_remove_outside");
      setctx("Server.remove(Client)/outside"); g_srv->remove(*m->c); m->removed = true; ns::unregisterFd(m->fd); setctx("driver");
      if (m->origin != 0 && !su::waitReady(m->pfd, POLLIN | POLLHUP | POLLRDHUP | POLLERR)) harnessBug("client %d: the close of the removed TCP client never arrived at the loopback peer", m->id);
      drainPeer(m);
      if (!m->peerEof) fail("Server.remove(Client)/peer-sees-no-eof", "client %d removed but its peer does not see end of stream", m->id);
    } else cnt("end_left_to_destructor");
  }
  setctx("Server.~Server");
  delete g_srv; g_srv = 0; setctx("driver");
  for (size_t i = 0; i < g_cl.n; ++i) { Cm* m = g_cl[i]; if (m->pfd >= 0) close(m->pfd); ns::unregisterFd(m->fd); delete m; }
  g_cl.clear();
}

static long pickSize(Rng& r, int cls) {
  static const long S0[] = { 1, 2, 3, 7 }, S1[] = { 512, 1000, 4096 }, S2[] = { 65536, 300000 };
  switch (cls) { case 0: return S0[r.below(4)]; case 1: return S1[r.below(3)]; default: return S2[r.below(2)]; }
}

// ---------------------------------------------------------------- enumerated plans
static long pow5sum(int from, int to) { long s = 0, p = 1; for (int l = 0; l <= to; ++l) { if (l >= from) s += p; p *= 5; } return s; }

static void decodePlan(long pidx, int minLen, Vec<int>& out) {
  // pidx counts sequences over 5 outcomes ordered by length (minLen first)
  long p = 1; int len = 0; for (int l = 0; l < minLen; ++l) p *= 5; len = minLen;
  while (pidx >= p) { pidx -= p; p *= 5; ++len; }
  out.clear(); for (int i = 0; i < len; ++i) { out.push((int)(pidx % 5)); pidx /= 5; }
}

static void planCase(long idx, bool withErr) {
  Rng r(opts.seed, withErr ? 1302 : 1301, (u64)idx);
  g_rng = &r; g_kernel = false;
  int cls = (int)(idx % 3);
  decodePlan(idx / 3, withErr ? 0 : 1, g_plan);
  if (withErr) g_plan.push(O_ERR);
  hist.addf("plan:"); for (size_t i = 0; i < g_plan.n; ++i) hist.addf(" %s", ONAME[g_plan[i]]); hist.addf("  size-class %d\n", cls);
  g_roundCap = 2000 + 200 * (long)g_plan.n;
  beginWorld(1);
  Cm* m = g_cl[0];
  int writes = 0, maxWrites = (int)g_plan.n + 3;
  while ((g_planPos < g_plan.n || writes < 2) && writes < maxWrites && !m->removed) {
    long size = pickSize(r, cls);
    int venue = writes == 0 ? V_OUT : (int)r.below(4); if (venue > V_ONWRITE) venue = V_OUT;
    if (venue == V_ONWRITE && m->backlog() == 0) venue = V_OUT;
    Op op = { K_WRITE, 0, size, r.chance(2, 3) ? 1 : 0 };
    if (venue == V_OUT) execOp(m, op);
    else if (venue == V_ONREAD) { m->qRead.push(op); peerSend(m, 1 + (long)r.below(16)); }
    else m->qWrite.push(op);
    ++writes;
    if (!m->removed && r.chance(3, 20) && !m->suspended) { Op s = { K_SUSPEND, 0, 0, 0 }; execOp(m, s); }
    else if (!m->removed && m->suspended && r.chance(1, 2)) { Op s = { K_RESUME, 0, 0, 0 }; execOp(m, s); }
    if (venue != V_OUT || r.chance(7, 10)) pump();
  }
  // every enumerated plan is consumed completely: plain writes from outside followed by a pump take at least one entry each
  for (int extra = 0; g_planPos < g_plan.n && !m->removed && extra < 2 * (int)g_plan.n + 6; ++extra) {
    Op op = { K_WRITE, 0, pickSize(r, cls), 1 }; execOp(m, op); pump(); cnt("plan_tail_writes");
  }
  bool consumed = g_planPos >= g_plan.n;
  if (consumed) cnt("plans_fully_consumed");
  u64 fp = mix(g_fp, (u64)idx);
  bool nontrivial = g_nonfull > 0 || withErr;
  endWorld(r);
  if (idx % 97 == 0) sample("%s", hist.c());
  endCase(fp, nontrivial);
}

// enumerated: origin (accepted / connected) x action of the accept / connect callback x size class x every outcome sequence (the callback's writes take the first outcomes)
static void acceptExhCase(long idx) {
  Rng r(opts.seed, 1305, (u64)idx);
  g_rng = &r; g_kernel = false;
  long v = idx;
  int origin = 1 + (int)(v % 2); v /= 2;
  int act = (int)(v % NFRESH); v /= NFRESH;
  int cls = (int)(v % 3); v /= 3;
  decodePlan(v, 1, g_plan);
  hist.addf("%s client, the callback does: %s, size-class %d, plan:", origin == 1 ? "accepted" : "connected", FNAME[act], cls); for (size_t i = 0; i < g_plan.n; ++i) hist.addf(" %s", ONAME[g_plan[i]]); hist.add("\n");
  g_roundCap = 4000 + 200 * (long)g_plan.n;
  beginWorld(0);
  Cm* m = freshPhase(r, origin, act, pickSize(r, cls), pickSize(r, cls));
  freshFollowUp(r, m, cls);
  int writes = 0, maxWrites = (int)g_plan.n + 3;
  while (g_planPos < g_plan.n && writes < maxWrites && !m->removed) {
    long size = pickSize(r, cls);
    int venue = (int)r.below(4); if (venue > V_ONWRITE) venue = V_OUT;
    if (venue == V_ONWRITE && m->backlog() == 0) venue = V_OUT;
    if (venue == V_ONREAD && m->suspended) venue = V_OUT;
    Op op = { K_WRITE, m->id, size, r.chance(2, 3) ? 1 : 0 };
    if (venue == V_OUT) execOp(m, op);
    else if (venue == V_ONREAD) { m->qRead.push(op); peerSend(m, 1 + (long)r.below(16)); }
    else m->qWrite.push(op);
    ++writes;
    if (!m->removed && r.chance(3, 20) && !m->suspended) { Op sp = { K_SUSPEND, m->id, 0, 0 }; execOp(m, sp); }
    else if (!m->removed && m->suspended && r.chance(1, 2)) { Op sp = { K_RESUME, m->id, 0, 0 }; execOp(m, sp); }
    if (venue != V_OUT || r.chance(7, 10)) pump();
  }
  for (int extra = 0; g_planPos < g_plan.n && !m->removed && extra < 2 * (int)g_plan.n + 6; ++extra) {
    Op op = { K_WRITE, m->id, pickSize(r, cls), 1 }; execOp(m, op); pump(); cnt("plan_tail_writes");
  }
  if (g_planPos >= g_plan.n) cnt("accept_plans_fully_consumed");
  u64 fp = mix(g_fp, (u64)idx);
  bool nontrivial = g_nonfull > 0 || act != F_NONE;
  endWorld(r);
  if (idx % 397 == 0) sample("%s", hist.c());
  endCase(fp, nontrivial);
}

// enumerated: what onWrite does x peer data pending before the draining poll round x size class x every outcome sequence; after EVERY partial send of the backlog a small
// write arrives (mid-drain script), so one backlog sees (partial drain, small write) two or more times whenever the plan holds two or more partial outcomes in a row
static void drainCase(long idx) {
  Rng r(opts.seed, 1310, (u64)idx);
  g_rng = &r; g_kernel = false;
  long v = idx;
  int act = (int)(v % NWACT); v /= NWACT;
  int pend = (int)(v % 2); v /= 2;
  int cls = 1 + (int)(v % 2); v /= 2;
  decodePlan(v, 1, g_plan);
  hist.addf("onWrite does: %s, peer data before the draining poll: %s, size-class %d, a small write after every partial send, plan:", WNAME[act], pend ? "yes" : "no", cls);
  for (size_t i = 0; i < g_plan.n; ++i) hist.addf(" %s", ONAME[g_plan[i]]); hist.add("\n");
  g_roundCap = 4000 + 400 * (long)g_plan.n;
  beginWorld(2);
  Cm* m = g_cl[0];
  m->midLeft = 2 + (long)g_plan.n;
  m->wAct = act; m->wActArmed = true; m->wSize = pickSize(r, (int)r.below(2)); m->wPost = r.chance(2, 3) ? 1 : 0; m->pendOther = 1; m->pendAtDrain = m->pendScripted = pend != 0;
  int writes = 0, maxWrites = (int)g_plan.n + 3; bool followed = false;
  while ((g_planPos < g_plan.n || writes < 1) && writes < maxWrites && !m->removed) {
    Op op = { K_WRITE, 0, pickSize(r, cls), r.chance(2, 3) ? 1 : 0 };
    if (m->suspended) { Op res = { K_RESUME, 0, 0, 0 }; execOp(m, res); }
    execOp(m, op); ++writes;
    pump();
    if (!followed && !m->removed && m->suspended) { followed = true; cnt("followups_after_onWrite_suspend"); freshFollowUp(r, m, cls); }
  }
  if (g_planPos >= g_plan.n) cnt("drain_plans_fully_consumed");
  if (g_frontOffsetAppends >= 1) cnt("cases_with_append_behind_front_offset");
  u64 fp = mix(g_fp, (u64)idx);
  bool nontrivial = g_nonfull > 0;
  endWorld(r);
  if (idx % 997 == 0) sample("%s", hist.c());
  endCase(fp, nontrivial);
}

// ---------------------------------------------------------------- peer-side events while the client is suspended
// bounded real-time wait until the kernel shows the state the peer's action must produce on the client's socket (loopback TCP delivers asynchronously); never a verdict
static void awaitAtClient(Cm* m, short ev, const char* what) {
  if (su::pollNow(m->fd, ev)) return;
  if (m->origin != 0) cnt("tcp_inflight_waits");
  if (!su::waitReady(m->fd, ev)) harnessBug("client %d: the peer's %s never became visible on the client's socket (poll 0x%x)", m->id, what, su::pollNow(m->fd, POLLIN | POLLRDHUP));
}

static void hangupCase(long idx) {
  Rng r(opts.seed, 1311, (u64)idx);
  g_rng = &r; g_kernel = false;
  long v = idx;
  const int origin = (int)(v % 3); v /= 3;
  const int ev = (int)(v % NPEEREV); v /= NPEEREV;
  const int back = (int)(v % NBACK); v /= NBACK;
  const int pend = (int)(v % 2); v /= 2;
  const int order = (int)(v % 2); v /= 2;      // 0: suspend, then write   1: write, then suspend
  const int follow = (int)(v % NFOLLOW); v /= NFOLLOW;
  static const char* const ORIGIN[] = { "pair", "accepted", "connected" };
  static const long HS[] = { 3, 7, 512, 1000, 4096 };   // small: what is sent towards a peer that has gone must fit into the socket buffer (the scripted send completes or fails, it never waits)
  g_plan.clear();
  if (back != B_NONE) {
    static const int FIRST[] = { O_P1, O_PK, O_PN1, O_AGAIN };
    g_plan.push(FIRST[r.below(4)]);
    if (back == B_PENDING_EAGAIN) for (int k = 1 + (int)r.below(3); k > 0; --k) g_plan.push(O_AGAIN);
    for (int k = (int)r.below(3); k > 0; --k) g_plan.push((int)r.below(5));
  }
  hist.addf("%s client, while it is suspended its peer does: %s; %s, %s, %s; afterwards: %s; plan:", ORIGIN[origin], ENAME[ev], BNAME[back], pend ? "inbound bytes pending" : "nothing inbound",
            order ? "write then suspend" : "suspend then write", UNAME[follow]);
  for (size_t i = 0; i < g_plan.n; ++i) hist.addf(" %s", ONAME[g_plan[i]]); hist.add("\n");
  g_roundCap = 4000;
  beginWorld(origin == 0 ? 1 : 0);
  g_hangupWorld = true;
  Cm* m = origin == 0 ? g_cl[0] : freshPhase(r, origin, F_NONE, 1, 1);
  const bool tcp = origin != 0;
  Cm* by = 0;
  if (r.chance(1, 3)) by = addClient((int)g_cl.n);   // a bystander whose read event shares a poll round with whatever the kernel reports for the suspended client
  Op sus = { K_SUSPEND, m->id, 0, 0 }, res = { K_RESUME, m->id, 0, 0 };
  // inbound bytes that are there before the client is suspended
  const bool pendBefore = pend && r.chance(1, 2);
  bool suspendedInOnRead = false;
  if (pendBefore) {
    peerSend(m, 1 + (long)r.below(64));
    if (back == B_NONE && r.chance(1, 3)) {   // the client's own onRead suspends it and leaves the bytes unread
      m->qRead.push(sus); pump(); suspendedInOnRead = true; cnt("hangup_suspended_in_onRead");
      if (!m->suspended) harnessBug("the scripted suspend in onRead did not run");
    }
  }
  const bool writes = back != B_NONE || ev == E_CLOSE_UNREAD || r.chance(1, 2);
  Op w = { K_WRITE, m->id, HS[r.below(5)], r.chance(2, 3) ? 1 : 0 };
  if (!suspendedInOnRead && order == 0) execOp(m, sus);
  if (writes && !m->removed) execOp(m, w);
  if (!m->removed && !m->suspended) execOp(m, sus);
  if (m->removed) harnessBug("client lost before the peer event");
  if (pend && !pendBefore) peerSend(m, 1 + (long)r.below(64));
  const bool backlogAtEvent = m->backlog() > 0;
  if (back != B_NONE && !backlogAtEvent) cnt("hangup_backlog_degenerate");
  // the peer has read everything that is on its way - except in the "unread data" variant
  if (ev != E_CLOSE_UNREAD) {
    drainPeer(m); settlePeer(m);
    if (m->peerGot != m->S) fail("Server.Client/peer-stream/incomplete", "client %d: %llu byte(s) were handed to the OS but the peer has received %llu", m->id, (unsigned long long)m->S, (unsigned long long)m->peerGot);
  } else if (tcp && m->S > m->peerGot && !su::pollNow(m->pfd, POLLIN)) { cnt("tcp_inflight_waits"); su::waitReady(m->pfd, POLLIN); }
  const bool unreadAtPeer = m->S > m->peerGot;
  const long readsBefore = m->onReadCount; const long sendsAtEvent = m->sendCalls;
  setctxf("peer/%s", ENAME[ev]);
  hist.addf("peer%d: %s%s (client suspended, backlog %llu, %llu inbound byte(s) unread)\n", m->id, ENAME[ev], unreadAtPeer ? " [unread bytes at the peer]" : "", (unsigned long long)m->backlog(), (unsigned long long)(m->inSent - m->inRead));
  bool expectHup = false;
  switch (ev) {
  case E_DATA: peerSend(m, 1 + (long)r.below(64)); break;
  case E_SHUT_WR: shutdown(m->pfd, SHUT_WR); m->peerClosed = true; break;
  case E_SHUT_RDWR: shutdown(m->pfd, SHUT_RDWR); m->peerClosed = m->peerGone = m->peerEof = true; expectHup = !tcp; break;
  case E_CLOSE: case E_CLOSE_UNREAD: case E_RESET:
    if (tcp) su::lingerReset(m->pfd, ev != E_CLOSE);          // close: FIN (nothing unread at the peer); reset / unread data: RST
    else if (ev == E_RESET) su::lingerReset(m->pfd, true);    // AF_UNIX ignores it: same as close
    close(m->pfd); m->pfd = -1; m->peerClosed = m->peerGone = m->peerEof = true;
    expectHup = !tcp || ev != E_CLOSE;
    break;
  default: break;
  }
  setctx("driver");
  if (expectHup) awaitAtClient(m, POLLHUP | POLLERR, "hang-up");
  else if (ev != E_DATA) awaitAtClient(m, POLLIN | POLLRDHUP, "end of stream");
  else if (m->inSent > m->inRead) awaitAtClient(m, POLLIN, "data");
  // what the kernel says about the suspended client's socket now, and what the library has asked the poll set for (epoll_ctl boundary)
  {
    const int st = su::pollNow(m->fd, POLLIN | POLLRDHUP); const unsigned mask = ns::epollMask(m->fd);
    const bool hup = (st & (POLLHUP | POLLERR)) != 0;
    cnt("peer_events_on_suspended_client");
    if (hup) cnt("hangups_visible_on_suspended_client");
    if (hup && noInterest(mask)) cnt("hangups_on_suspended_client_registered_without_events");
    if (hup && !noInterest(mask)) cnt("hangups_on_suspended_client_with_backlog");
    if (ev == E_CLOSE_UNREAD && unreadAtPeer) cnt("peer_closed_with_unread_bytes");
    if (!hup && (st & POLLRDHUP)) cnt("end_of_stream_pending_on_suspended_client");
    char nm[96]; snprintf(nm, sizeof nm, "%s/%s/%s/%s%s", ORIGIN[origin], ENAME[ev], backlogAtEvent ? "backlog" : "no-backlog", hup ? ((st & POLLERR) ? "err+hup" : "hup") : (st & POLLRDHUP) ? "rdhup" : (st & POLLIN) ? "readable" : "quiet", m->inSent > m->inRead ? "/inbound-pending" : "");
    setItem("suspended_peer_events", nm);
    hist.addf("  kernel: poll() on the client's socket 0x%x, epoll registration mask 0x%x\n", st, mask);
  }
  if (by) peerSend(by, 1 + (long)r.below(16));
  pump();   // the online monitors judge: no onRead for the suspended client; a backlog goes out or fails (onClosed is then legitimate: a send failed)
  if (!m->removed && m->onReadCount != readsBefore) harnessBug("onRead counted on a suspended client without the monitor firing");
  if (!m->removed && m->suspended) {
    cnt("suspended_clients_kept_quiet_through_peer_event");
    if (follow == U_RUN_RESUME) { if (by && !by->removed) peerSend(by, 1 + (long)r.below(16)); pump(); cnt("hangup_second_runs"); }
    else if (follow == U_WRITE_RESUME) { Op w2 = { K_WRITE, m->id, HS[r.below(5)], 1 }; execOp(m, w2); cnt("writes_while_suspended_after_peer_event"); pump(); }
  }
  if (!m->removed && m->suspended && follow != U_LEAVE) {
    const long rb = m->onReadCount; const u64 pending = m->inSent - m->inRead; const bool closed = m->peerClosed;
    // every inbound byte arrives when the stream ended in order: the peer shut down / closed without anything unread and the client has not tried to send since
    // (a send towards a closed TCP peer is answered by a reset, which may discard what has not been read yet)
    const bool inOrder = ev == E_SHUT_WR || ((ev == E_SHUT_RDWR || ev == E_CLOSE) && m->sendCalls == sendsAtEvent);
    execOp(m, res); cnt("resumes_after_peer_event");
    pump();
    char key[128];
    if ((pending > 0 || closed) && m->onReadCount == rb) {
      snprintf(key, sizeof key, "Server.Client.resume/after-peer-%s/no-onRead", ENAME[ev]);
      fail(key, "client %d was resumed with %llu inbound byte(s) pending%s, the loop went idle, but onRead was not delivered", m->id, (unsigned long long)pending, closed ? " and the end of the stream / a hang-up to report" : "");
    }
    if (pending > 0 || closed) cnt("resume_after_peer_event_delivered_onRead");
    if (closed && !m->removed) fail("Server.Client.onClosed/missing-after-peer-close/resumed", "client %d: the peer went away while the client was suspended, the client was resumed and the loop went idle, but the client was never told", m->id);
    if (closed && inOrder) {
      if (m->inRead != m->inSent) {
        snprintf(key, sizeof key, "Server.Client.read/after-resume/peer-%s/inbound-bytes-lost", ENAME[ev]);
        fail(key, "client %d: the peer sent %llu byte(s) and then ended the stream in order; after resume the client could read only %llu before it was told that the connection is closed", m->id, (unsigned long long)m->inSent, (unsigned long long)m->inRead);
      }
      cnt("resume_after_orderly_close_read_everything");
    }
  }
  if (g_planPos >= g_plan.n) cnt("hangup_plans_fully_consumed");
  cnt("hangup_cases");
  u64 fp = mix(g_fp, (u64)idx);
  endWorld(r);
  if (idx % 173 == 0) sample("%s", hist.c());
  endCase(fp, true);
}

// ---------------------------------------------------------------- random long plans, several clients
// fresh: client 0 comes out of a listener / an establisher and its accept / connect callback acts on it (accept-rand, accept-kernel); the others are pair clients
static void randCase(long idx, bool kernel, bool fresh = false) {
  Rng r(opts.seed, fresh ? (kernel ? 1307 : 1306) : (kernel ? 1304 : 1303), (u64)idx);
  g_rng = &r; g_kernel = kernel;
  // real kernel + loopback TCP: how the kernel splits the sends (and so the number of idle points and read calls) varies with the timing of ACKs; the hooks draw
  // from a stream of their own there, so that the script of the case (operations, sizes, venues) is the same in every execution
  Rng hookRng(opts.seed, 1308, (u64)idx);
  if (fresh && kernel) g_rng = &hookRng;
  g_plan.clear();
  if (!kernel) {
    int len = 6 + (int)r.below(35);
    u32 w[6]; for (int i = 0; i < 5; ++i) w[i] = r.chance(1, 4) ? 0 : 1 + (u32)r.below(8); w[5] = r.chance(3, 5) ? 0 : 1;
    u32 tot = 0; for (int i = 0; i < 6; ++i) tot += w[i]; if (tot == w[5]) { w[0] = 1; ++tot; }
    for (int i = 0; i < len; ++i) { u32 x = (u32)r.below(tot); int o = 0; while (x >= w[o]) { x -= w[o]; ++o; } g_plan.push(o); }
  }
  hist.addf(kernel ? "kernel mode (SO_SNDBUF minimal, slow reader)\n" : "plan:"); for (size_t i = 0; i < g_plan.n; ++i) hist.addf(" %s", ONAME[g_plan[i]]); hist.add("\n");
  int ncl = r.chance(1, 2) ? 1 : r.chance(7, 10) ? 2 : 3;
  g_roundCap = kernel ? 400000 : 20000;
  beginWorld(fresh ? 0 : ncl);
  if (fresh) {
    static const long FS[] = { 1, 7, 512, 4096, 65536, 300000 }, FK[] = { 20000, 65536, 150000, 300000 };   // kernel mode: larger than the (minimal) socket buffer
    int origin = 1 + (int)(idx % 2), act = r.chance(1, 8) ? F_NONE : 1 + (int)r.below(NFRESH - 1);
    long s0 = kernel ? FK[r.below(4)] : FS[r.below(6)], s1 = kernel ? FK[r.below(4)] : FS[r.below(6)];
    if (r.chance(1, 3)) s0 = 1 + (long)r.below((u64)s0);
    hist.addf("client0 is %s, the callback does: %s\n", origin == 1 ? "accepted" : "connected", FNAME[act]);
    Cm* m = freshPhase(r, origin, act, s0, s1);
    for (int i = 1; i < ncl; ++i) addClient(i);
    if (r.chance(1, 2)) freshFollowUp(r, m, -1);
  }
  // half of the scripted-fault cases additionally carry the drain scripts (own stream: the script below is the same with and without them)
  Rng xr(opts.seed, 1309, (u64)idx);
  if (!kernel && xr.chance(1, 2)) {
    cnt("rand_cases_with_drain_scripts");
    for (size_t i = 0; i < g_cl.n; ++i) {
      Cm* m = g_cl[i]; if (m->removed) continue;
      if (xr.chance(2, 3)) m->midLeft = 1 + (long)xr.below(6);
      if (xr.chance(1, 2)) {
        static const long WS[] = { 1, 7, 512, 4096, 65536 };
        m->wAct = (int)xr.below(NWACT); m->wActArmed = true; m->wSize = WS[xr.below(5)]; m->wPost = xr.chance(2, 3) ? 1 : 0;
        m->pendAtDrain = m->pendScripted = xr.chance(2, 3);
        m->pendOther = g_cl.n >= 2 ? (int)((i + 1 + xr.below(g_cl.n - 1)) % g_cl.n) : -1;
        if (m->wAct == W_REMOVE_OTHER && (m->pendOther < 0 || g_cl[(size_t)m->pendOther]->origin != 0)) m->wAct = W_NONE;   // the fresh TCP client is not the one that is dropped
      }
    }
  }
  int steps = 8 + (int)r.below(33);
  static const long SZ[] = { 1, 7, 512, 4096, 65536, 300000 };
  u32 wWrite = 4 + (u32)r.below(6), wSusp = (u32)r.below(4), wPeer = (u32)r.below(4), wSkip = (u32)r.below(2);
  long budget = kernel ? 2500000 : 1500000;   // offered bytes per case
  for (int s = 0; s < steps; ++s) {
    Vec<int> live; for (size_t i = 0; i < g_cl.n; ++i) if (!g_cl[i]->removed) live.push((int)i);
    if (!live.n) break;
    Cm* m = g_cl[(size_t)live[r.below(live.n)]];
    u32 x = (u32)r.below(wWrite + wSusp + wPeer + wSkip);
    if (x < wWrite) {
      long size = SZ[r.below(6)]; if (r.chance(1, 3)) size = 1 + (long)r.below((u64)size);
      if (size > budget) size = budget > 0 ? 1 + (long)r.below((u64)(budget < 4096 ? budget : 4096)) : 1;
      budget -= size;
      int venue = (int)r.below(3);
      Op op = { K_WRITE, m->id, size, r.chance(2, 3) ? 1 : 0 };
      if (venue == V_OUT) execOp(m, op);
      else if (venue == V_ONREAD) {
        // the write is issued by a client's onRead (possibly another client's): op.tgt names the client written to
        Cm* host = g_cl[(size_t)live[r.below(live.n)]];
        host->qRead.push(op); peerSend(host, 1 + (long)r.below(64));
      } else m->qWrite.push(op);
    } else if (x < wWrite + wSusp) {
      Cm* t = g_cl[(size_t)live[r.below(live.n)]];
      Op op = { t->suspended ? K_RESUME : K_SUSPEND, t->id, 0, 0 };
      int venue = (int)r.below(2);
      if (venue == V_OUT || t == m || m->suspended) execOp(m, op);
      else {
        // cross suspend from inside onRead while the target has a pending (possibly already selected) read event
        m->qRead.push(op); peerSend(m, 1 + (long)r.below(8)); if (op.kind == K_SUSPEND) { peerSend(t, 1 + (long)r.below(8)); cnt("cross_suspend_scripted"); }
      }
    } else if (x < wWrite + wSusp + wPeer) {
      peerSend(m, 1 + (long)r.below(3000));
      if (r.chance(1, 3)) { Op op = { K_READSOME, m->id, 1 + (long)r.below(100), 0 }; m->qRead.push(op); }
    } else { Op op = { K_SKIPREAD, m->id, 0, 0 }; m->qRead.push(op); peerSend(m, 1 + (long)r.below(32)); }
    if (r.chance(3, 5)) pump();
  }
  u64 fp = mix(g_fp, (u64)ncl);
  bool nontrivial = g_nonfull > 0 && g_drains > 0;
  if (fresh) fp = mix(fp, 77);
  if (fresh && kernel) fp = mix(mix(1308, (u64)idx), (u64)ncl * 64 + (u64)steps);   // identity of the script: the observed interleaving depends on the kernel's TCP timing
  endWorld(r);
  if (idx % 211 == 0) sample("%s", hist.n > 1800 ? "(long history omitted)" : hist.c());
  endCase(fp, nontrivial);
}

static int probe(const char* key) {
  harnessBug("unknown probe %s", key);
  return 2;
}

int main(int argc, char** argv) {
  init(argc, argv, "h_server_write");
  signal(SIGPIPE, SIG_IGN);
  g_tmp = (u8*)malloc(TMPSZ);
  ns::hooks.sendPlan = hSendPlan; ns::hooks.sendDone = hSendDone; ns::hooks.drain = hDrain; ns::hooks.recvPlan = 0; ns::hooks.recvDone = hRecvDone;
  ns::hooks.waitEnter = hWaitEnter; ns::hooks.waitLeave = hWaitLeave; ns::hooks.idle = hIdle;
  if (opts.probe) { int rc = probe(opts.probe); finish(); return rc; }
  const char* md = opts.mode;
  int L = opts.scale > 0 ? (int)opts.scale : 3;
  if (!strcmp(md, "plan-exh") || !strcmp(md, "plan-err")) {
    bool withErr = !strcmp(md, "plan-err");
    long total = 3 * (withErr ? pow5sum(0, L - 1) : pow5sum(1, L));
    long lo = opts.cases < 0 ? 0 : opts.start, hi = opts.cases < 0 ? total : opts.start + opts.cases;   // an explicit range (replay) is not clamped: the decoding is total-independent
    for (long idx = lo; idx < hi; ++idx) { if (!mine(idx)) continue; beginCase(idx); planCase(idx, withErr); }
  } else if (!strcmp(md, "rand") || !strcmp(md, "kernel")) {
    bool kernel = !strcmp(md, "kernel");
    for (long idx = opts.start; idx < opts.start + opts.cases; ++idx) { if (!mine(idx)) continue; beginCase(idx); randCase(idx, kernel); }
  } else if (!strcmp(md, "drain-exh")) {
    long total = (long)NWACT * 2 * 2 * pow5sum(1, L);
    long lo = opts.cases < 0 ? 0 : opts.start, hi = opts.cases < 0 ? total : opts.start + opts.cases;
    for (long idx = lo; idx < hi; ++idx) { if (!mine(idx)) continue; beginCase(idx); drainCase(idx); }
  } else if (!strcmp(md, "hangup-exh")) {
    long total = 3L * NPEEREV * NBACK * 2 * 2 * NFOLLOW * L;
    long lo = opts.cases < 0 ? 0 : opts.start, hi = opts.cases < 0 ? total : opts.start + opts.cases;
    for (long idx = lo; idx < hi; ++idx) { if (!mine(idx)) continue; beginCase(idx); hangupCase(idx); }
  } else if (!strcmp(md, "accept-exh")) {
    long total = 2L * NFRESH * 3 * pow5sum(1, L);
    long lo = opts.cases < 0 ? 0 : opts.start, hi = opts.cases < 0 ? total : opts.start + opts.cases;
    for (long idx = lo; idx < hi; ++idx) { if (!mine(idx)) continue; beginCase(idx); acceptExhCase(idx); }
  } else if (!strcmp(md, "accept-rand") || !strcmp(md, "accept-kernel")) {
    bool kernel = !strcmp(md, "accept-kernel");
    for (long idx = opts.start; idx < opts.start + opts.cases; ++idx) { if (!mine(idx)) continue; beginCase(idx); randCase(idx, kernel, true); }
  } else harnessBug("unknown mode %s", md);
  if (g_rawListen >= 0) { close(g_rawListen); g_rawListen = -1; }
  free(g_tmp);
  leakCheck("Server/leak");
  finish();
  return 0;
}
