// h_seq.cpp - C03: List / Array / PoolList against a plain reference sequence; List::sort
// modes: list, array, plist (swarm random histories), array-grow (directed sweep over capacity/size boundaries),
//        sort-exh (all permutations of n<=N distinct keys + all sequences over 3 keys of length<=8), sort-rand (random lists up to 2000 elements),
//        big (few long cases: List / Array / PoolList grown to 1k..scale elements around powers of two and round decimal numbers, then clear / assignment /
//        copy / swap / bulk removal / re-insertion phases with one full comparison per phase)
// Monitors: reference model = array of (key, unique id); after every operation size/isEmpty/front/back, forward and backward iteration, find for every
// universe key (first match), capacity() >= size(), the returned iterator / reference (insert -> new element, remove -> successor, append -> the new
// element by address), ==/!= against a second live list; elements carry a tracked Elem (exactly-once construction/destruction per address); ASan/UBSan/LSan.
// Normal flavour only (-fno-access-control; everything inside #ifndef VERIF_NO_PRIVATE): structural walker (order links, acyclic free list disjoint from
// the live items, every live and free item inside a block of this container, no two items overlapping, live + free == slots of the blocks where the slot
// count of a block is derived from vh::allocSize(block) - no slot count is assumed; Array begin/end/capacity coherent). With -DVERIF_NO_PRIVATE the
// harness uses the public API only: all oracles above stay, the walker and the counter structure_walks are absent.
#include "vh.hpp"
#include <nstd/List.hpp>
#include <nstd/Array.hpp>
#include <nstd/PoolList.hpp>

using namespace vh;

static const size_t npos = (size_t)-1;

struct SEnt { long key; long uid; };
typedef Vec<SEnt> Model;
static size_t firstKey(const Model& m, long k) { for (size_t i = 0; i < m.n; ++i) if (m[i].key == k) return i; return npos; }
static bool keysEq(const Model& a, const Model& b) { if (a.n != b.n) return false; for (size_t i = 0; i < a.n; ++i) if (a[i].key != b[i].key) return false; return true; }

static long g_lt = 0;
struct Val {
  long key; long uid; Elem guard;
  Val() : key(0), uid(-1), guard(-1) {}
  Val(long k, long u) : key(k), uid(u), guard(u) {}
  bool operator==(const Val& o) const { return key == o.key; }
  bool operator!=(const Val& o) const { return key != o.key; }
  bool operator<(const Val& o) const { ++g_lt; return key < o.key; }
};

// PoolList element: not copyable, 0..7 constructor arguments
struct PT {
  long uid; int nargs; long a[7]; Elem guard;
  PT() : uid(-1), nargs(0), guard(-2) { z(); }
  PT(long a0) : uid(a0), nargs(1), guard(a0) { z(); a[0] = a0; }
  PT(long a0, long a1) : uid(a0), nargs(2), guard(a0) { z(); a[0] = a0; a[1] = a1; }
  PT(long a0, long a1, long a2) : uid(a0), nargs(3), guard(a0) { z(); a[0] = a0; a[1] = a1; a[2] = a2; }
  PT(long a0, long a1, long a2, long a3) : uid(a0), nargs(4), guard(a0) { z(); a[0] = a0; a[1] = a1; a[2] = a2; a[3] = a3; }
  PT(long a0, long a1, long a2, long a3, long a4) : uid(a0), nargs(5), guard(a0) { z(); a[0] = a0; a[1] = a1; a[2] = a2; a[3] = a3; a[4] = a4; }
  PT(long a0, long a1, long a2, long a3, long a4, long a5) : uid(a0), nargs(6), guard(a0) { z(); a[0] = a0; a[1] = a1; a[2] = a2; a[3] = a3; a[4] = a4; a[5] = a5; }
  PT(long a0, long a1, long a2, long a3, long a4, long a5, long a6) : uid(a0), nargs(7), guard(a0) { z(); a[0] = a0; a[1] = a1; a[2] = a2; a[3] = a3; a[4] = a4; a[5] = a5; a[6] = a6; }
  void z() { for (int i = 0; i < 7; ++i) a[i] = 0; }
private:
  PT(const PT&); PT& operator=(const PT&);
};

#ifndef VERIF_NO_PRIVATE
struct PtrSet {
  const void** tab; size_t cap, n;
  PtrSet() : tab(0), cap(0), n(0) {}
  ~PtrSet() { free(tab); }
  void reset(size_t expect) { size_t want = 64; while (want < expect * 3) want *= 2; if (want > cap) { free(tab); tab = (const void**)malloc(want * sizeof(void*)); cap = want; } memset(tab, 0, cap * sizeof(void*)); n = 0; }
  size_t slot(const void* p) const { return (size_t)(((u64)(uintptr_t)p >> 3) * 0x9e3779b97f4a7c15ULL >> 20) & (cap - 1); }
  void grow() { const void** ot = tab; size_t oc = cap; cap *= 2; tab = (const void**)calloc(cap, sizeof(void*)); n = 0; for (size_t i = 0; i < oc; ++i) if (ot[i]) add(ot[i]); free(ot); }
  bool add(const void* p) { if ((n + 1) * 2 > cap) grow(); size_t s = slot(p); while (tab[s]) { if (tab[s] == p) return false; s = (s + 1) & (cap - 1); } tab[s] = p; ++n; return true; }
  bool has(const void* p) const { size_t s = slot(p); while (tab[s]) { if (tab[s] == p) return true; s = (s + 1) & (cap - 1); } return false; }
};

// Pool accounting of the walker. Nothing about the number of slots per block is assumed: a block is one heap allocation, its exact size comes from
// vh::allocSize (sanitizer builds; 0 = unknown, e.g. the plain -O2 build: every size-dependent sub-check is skipped then). From the library's own
// declarations only sizeof(ItemBlock) (the header in front of the slots) and the slot width are used.
struct BlkInfo { const char* start; size_t size, refOff, items; };
struct PoolAcct {
  Vec<BlkInfo> blk; bool sized;
  PoolAcct() : sized(false) {}
  static int cmp(const void* a, const void* b) { const char* x = ((const BlkInfo*)a)->start; const char* y = ((const BlkInfo*)b)->start; return x < y ? -1 : x > y ? 1 : 0; }
  void begin() { blk.clear(); sized = true; }
  void addBlock(const void* p) { BlkInfo b = { (const char*)p, allocSize(p), 0, 0 }; if (!b.size) sized = false; blk.push(b); }
  void seal() { if (blk.n > 1) qsort(blk.d, blk.n, sizeof(BlkInfo), cmp); }
  // the block whose allocation holds the bytes [p, p + bytes) behind its header, or 0
  BlkInfo* locate(const void* p, size_t hdr, size_t bytes) {
    const char* c = (const char*)p; size_t lo = 0, hi = blk.n;
    while (lo < hi) { size_t mid = (lo + hi) / 2; if (blk[mid].start <= c) lo = mid + 1; else hi = mid; }
    if (!lo) return 0;
    BlkInfo& b = blk[lo - 1]; size_t off = (size_t)(c - b.start);
    return off >= hdr && off + bytes <= b.size ? &b : 0;
  }
  // two distinct items of one block must be a whole number of slot widths apart (else they overlap)
  bool place(BlkInfo* b, const void* p, size_t bytes) { size_t off = (size_t)((const char*)p - b->start); if (!b->items++) { b->refOff = off; return true; } size_t d = off > b->refOff ? off - b->refOff : b->refOff - off; return d % bytes == 0; }
  size_t slots(size_t hdr, size_t bytes) const { size_t t = 0; for (size_t i = 0; i < blk.n; ++i) if (blk[i].size >= hdr) t += (blk[i].size - hdr) / bytes; return t; }
};
static long g_sizedWalks = 0; static bool g_slotsPerBlockSeen[65];
static size_t g_lastFree = 0;   // free items met by the last walk (state class for the counters of the "big" mode, never part of a verdict)
#endif

static char g_keybuf[220];
static const char* key(const char* what) { snprintf(g_keybuf, sizeof g_keybuf, "%s/%s", (const char*)ctx, what); return g_keybuf; }
#ifndef VERIF_NO_PRIVATE
static long g_walks = 0;
#endif

#ifndef VERIF_NO_PRIVATE
// linked containers (List, PoolList) share the node bookkeeping: walk order list, free list, blocks
template <class C, class Item, class Block> static void walkLinked(C& c, size_t modelN, size_t slotBytes, PtrSet& live, PtrSet& freeSet, PoolAcct& acct) {
  if (c._end.item != &c.endItem) fail(key("structure"), "_end does not designate the sentinel");
  live.reset(modelN + 4);
  Item* prev = 0; size_t n = 0;
  for (Item* i = c._begin.item; i != &c.endItem; i = i->next) {
    if (!i) fail(key("structure"), "list reaches a null next pointer after %lu items", (unsigned long)n);
    if (n >= modelN) fail(key("structure"), "list holds more than %lu items", (unsigned long)modelN);
    if (i->prev != prev) fail(key("structure"), "prev link wrong at position %lu", (unsigned long)n);
    if (!live.add(i)) fail(key("structure"), "list visits an item twice (cycle)");
    prev = i; ++n;
  }
  if (c.endItem.prev != prev) fail(key("structure"), "sentinel prev is not the last item");
  if (n != modelN || c._size != n) fail(key("structure"), "list holds %lu items, _size %lu, model %lu", (unsigned long)n, (unsigned long)c._size, (unsigned long)modelN);
  // blocks and free list: free and live items are disjoint, the free list ends, every item lies in a block of this list and no two items overlap;
  // with known block sizes: every slot of every block is either live or free
  size_t nb = 0;
  for (Block* bl = c.blocks; bl; bl = bl->next) if (++nb > 10000000) fail(key("structure"), "block list does not end");
  acct.begin();
  for (Block* bl = c.blocks; bl; bl = bl->next) acct.addBlock(bl);
  acct.seal();
  freeSet.reset(16);
  size_t nf = 0;
  for (Item* f = c.freeItem; f; f = f->prev) {
    if (live.has(f)) fail(key("structure"), "free list contains a live item");
    if (acct.sized) {
      BlkInfo* b = acct.locate(f, sizeof(Block), slotBytes);
      if (!b) fail(key("structure"), "free list contains a pointer that is not a slot of this list's blocks");
      if (!acct.place(b, f, slotBytes)) fail(key("structure"), "a free item overlaps another item of its block");
    }
    if (!freeSet.add(f)) fail(key("structure"), "free list visits an item twice (cycle)");
    ++nf;
  }
  if (acct.sized) {
    for (Item* i = c._begin.item; i != &c.endItem; i = i->next) {
      BlkInfo* b = acct.locate(i, sizeof(Block), slotBytes);
      if (!b) fail(key("structure"), "live item is not a slot of this list's blocks");
      if (!acct.place(b, i, slotBytes)) fail(key("structure"), "a live item overlaps another item of its block");
    }
    size_t total = acct.slots(sizeof(Block), slotBytes);
    if (nf + n != total) fail(key("structure"), "%lu live + %lu free items != %lu slots in %lu blocks (slot counts derived from the block sizes)", (unsigned long)n, (unsigned long)nf, (unsigned long)total, (unsigned long)nb);
    for (size_t i = 0; i < acct.blk.n; ++i) { size_t per = (acct.blk[i].size - sizeof(Block)) / slotBytes; g_slotsPerBlockSeen[per > 64 ? 64 : per] = true; }
    ++g_sizedWalks;
  }
  g_lastFree = nf; ++g_walks;
}
#endif

// ================================================================ List
struct ListCk {
  typedef List<Val> C; typedef C::Iterator It;
  struct Box { C* c; Model ref; size_t nfree; Box() : c(0), nfree(0) {} };
#ifndef VERIF_NO_PRIVATE
  typedef C::Item Item; typedef C::ItemBlock Block;
  PtrSet live, freeSet; PoolAcct acct;
#endif

  It iterAt(C& c, size_t idx) { It it = c.begin(); for (size_t i = 0; i < idx; ++i) { if (it == c.end()) fail(key("iteration"), "iteration ends after %lu elements, model has more", (unsigned long)i); ++it; } return it; }
  size_t indexOf(C& c, const It& x, size_t limit) { size_t i = 0; for (It it = c.begin();; ++it, ++i) { if (it == x) return i; if (it == c.end() || i > limit) return npos; } }

  void contents(C& c, const Model& ref) {
    const C& cc = c;
    if (c.size() != ref.n) fail(key("size"), "size() %lu != model %lu", (unsigned long)c.size(), (unsigned long)ref.n);
    if (c.isEmpty() != (ref.n == 0)) fail(key("isEmpty"), "isEmpty() %d with model size %lu", (int)c.isEmpty(), (unsigned long)ref.n);
    size_t i = 0;
    for (It it = cc.begin(), e = cc.end(); it != e; ++it, ++i) {
      if (i >= ref.n) fail(key("iteration"), "forward iteration yields more than %lu elements", (unsigned long)ref.n);
      if ((*it).key != ref[i].key || (*it).uid != ref[i].uid || (*it).guard.id != ref[i].uid) fail(key("iteration"), "forward position %lu holds (%ld,#%ld), model (%ld,#%ld)", (unsigned long)i, (*it).key, (*it).uid, ref[i].key, ref[i].uid);
      { const It cit = it; It nx = ++cit; It same = it; ++same; if (nx != same || cit != it) fail(key("iterator"), "const prefix ++ at position %lu does not yield the successor", (unsigned long)i); if (i && (--cit) == it) fail(key("iterator"), "const prefix -- at position %lu yields the same position", (unsigned long)i); }
      if (it.operator->() != &*it) fail(key("iterator"), "operator-> and operator* designate different objects at position %lu", (unsigned long)i);
    }
    if (i != ref.n) fail(key("iteration"), "forward iteration yields %lu elements, model %lu", (unsigned long)i, (unsigned long)ref.n);
    if (ref.n) {
      It it = cc.end();
      for (size_t j = ref.n; j-- > 0;) { --it; if ((*it).key != ref[j].key || (*it).uid != ref[j].uid) fail(key("iteration"), "backward position %lu holds (%ld,#%ld), model (%ld,#%ld)", (unsigned long)j, (*it).key, (*it).uid, ref[j].key, ref[j].uid); }
      if (it != cc.begin()) fail(key("iteration"), "backward iteration does not end at begin()");
      if (c.front().uid != ref[0].uid || cc.front().uid != ref[0].uid) fail(key("front"), "front() is #%ld, model #%ld", c.front().uid, ref[0].uid);
      if (c.back().uid != ref[ref.n - 1].uid || cc.back().uid != ref[ref.n - 1].uid) fail(key("back"), "back() is #%ld, model #%ld", c.back().uid, ref[ref.n - 1].uid);
      if (&c.front() != &*c.begin()) fail(key("front"), "front() is not the element begin() designates");
    } else if (cc.begin() != cc.end()) fail(key("iteration"), "begin() != end() on an empty list");
    cnt("elements_compared", (long)ref.n * 2);
  }
  void finds(C& c, const Model& ref, int universe) {
    const C& cc = c;
    for (long k = -1; k <= universe; ++k) {
      size_t at = firstKey(ref, k); Val probe(k, -100);
      It it = cc.find(probe);
      if (at == npos) { if (it != cc.end()) fail(key("find"), "find(%ld) returned an element although none has that value", k); }
      else if (it == cc.end() || indexOf(c, it, ref.n) != at) fail(key("find"), "find(%ld) did not return the first match at position %lu", k, (unsigned long)at);
      cnt("finds");
    }
  }
  // large containers: find for the first, the middle and the last key and for an absent one (each O(size)) instead of for every universe key
  void findsFew(C& c, const Model& ref) {
    const C& cc = c; long probes[4]; int np = 0; probes[np++] = -1;
    if (ref.n) { probes[np++] = ref[0].key; probes[np++] = ref[ref.n / 2].key; probes[np++] = ref[ref.n - 1].key; }
    for (int j = 0; j < np; ++j) {
      long k = probes[j]; size_t at = firstKey(ref, k); Val probe(k, -100); It it = cc.find(probe);
      if (at == npos) { if (it != cc.end()) fail(key("find"), "find(%ld) returned an element although none has that value", k); }
      else if (it == cc.end() || indexOf(c, it, ref.n) != at) fail(key("find"), "find(%ld) did not return the first match at position %lu", k, (unsigned long)at);
      cnt("finds");
    }
  }
#ifndef VERIF_NO_PRIVATE
  void structure(Box& b) { walkLinked<C, Item, Block>(*b.c, b.ref.n, sizeof(Item), live, freeSet, acct); b.nfree = g_lastFree; }
#else
  void structure(Box&) {}   // public API only: no structural walk
#endif
  void all(Box& b, int universe) { contents(*b.c, b.ref); structure(b); finds(*b.c, b.ref, universe); }
  static const char* relation(const Model& a, const Model& b) { if (a.n != b.n) return "sizes-differ"; if (keysEq(a, b)) return a.n ? "equal" : "both-empty"; return "same-size-different-values"; }
  void equality(Box& a, Box& b) {
    bool want = keysEq(a.ref, b.ref); const C& x = *a.c; const C& y = *b.c; const char* rel = relation(a.ref, b.ref);
    char saved[256]; snprintf(saved, sizeof saved, "%s", (const char*)ctx);
    setctxf("List.operator==/%s", rel); setItem("equality_relations", rel);
    if ((x == y) != want || (y == x) != want) fail(key("result"), "a == b is %d / b == a is %d, model equality is %d (sizes %lu/%lu, after %s)", (int)(x == y), (int)(y == x), (int)want, (unsigned long)a.ref.n, (unsigned long)b.ref.n, saved);
    setctxf("List.operator!=/%s", rel);
    if ((x != y) == want) fail(key("result"), "a != b is %d although model equality is %d (after %s)", (int)(x != y), (int)want, saved);
    if (want) { cnt("eq_true"); if (a.ref.n) cnt("eq_true_nonempty"); } else { cnt("eq_false"); if (a.ref.n == b.ref.n) cnt("eq_false_same_size"); }
    setctxf("%s", saved);
  }

  void opAppend(Box& b, long k, long uid) { setctx("List.append"); hist.addf("append(%ld #%ld)\n", k, uid); Val v(k, uid); Val& r = b.c->append(v); SEnt e = { k, uid }; b.ref.push(e); if (b.c->size() != b.ref.n) fail(key("size"), "size() %lu, model %lu", (unsigned long)b.c->size(), (unsigned long)b.ref.n); It last = b.c->end(); --last; if (&r != &*last || r.uid != uid) fail(key("returned-reference"), "append did not return the new last element"); cnt("op_append"); }
  void opPrepend(Box& b, long k, long uid) { setctx("List.prepend"); hist.addf("prepend(%ld #%ld)\n", k, uid); Val v(k, uid); Val& r = b.c->prepend(v); SEnt e = { k, uid }; b.ref.insert(0, e); if (&r != &*b.c->begin() || r.uid != uid) fail(key("returned-reference"), "prepend did not return the new first element"); cnt("op_prepend"); }
  void opInsert(Box& b, size_t pi, const char* pn, long k, long uid) { setctxf("List.insert/pos=%s", pn); hist.addf("insert(before #%lu [%s], %ld #%ld)\n", (unsigned long)pi, pn, k, uid); It pos = iterAt(*b.c, pi); Val v(k, uid); It r = b.c->insert(pos, v); SEnt e = { k, uid }; b.ref.insert(pi, e); if (b.c->size() != b.ref.n) fail(key("size"), "size() %lu, model %lu", (unsigned long)b.c->size(), (unsigned long)b.ref.n); size_t ri = indexOf(*b.c, r, b.ref.n); if (ri != pi || (*r).uid != uid) fail(key("returned-iterator"), "insert returned the iterator at position %ld, expected the new element at %lu", (long)ri, (unsigned long)pi); cnt("op_insert"); }
  void opInsertList(Box& b, Box& o, int how, size_t pi, const char* pn, long& nextUid) {
    // the inserted copies get the same (key, uid) as the source elements: uid duplicates are legal in the model (positions identify them)
    setctxf("List.%s(list)/%s%s%s", how == 0 ? "append" : how == 1 ? "prepend" : "insert", o.ref.n ? "non-empty" : "empty", how == 2 ? "/pos=" : "", how == 2 ? pn : "");
    hist.addf("%s(other list of %lu) at #%lu\n", how == 0 ? "append" : how == 1 ? "prepend" : "insert", (unsigned long)o.ref.n, (unsigned long)pi);
    Vec<SEnt> src(o.ref);   // snapshot: the argument may be the list itself
    if (&o == &b) { setctxf("List.%s(list)/arg=self%s%s", how == 0 ? "append" : how == 1 ? "prepend" : "insert", how == 2 ? "/pos=" : "", how == 2 ? pn : ""); cnt("op_insert_list_self"); }
    if (how == 0) b.c->append(*o.c); else if (how == 1) b.c->prepend(*o.c);
    else { It pos = iterAt(*b.c, pi); It r = b.c->insert(pos, *o.c); size_t ri = indexOf(*b.c, r, b.ref.n + src.n); if (ri != pi) fail(key("returned-iterator"), "insert(list) returned the iterator at position %ld, expected %lu (first inserted element, or the position itself for an empty list)", (long)ri, (unsigned long)pi); }
    for (size_t i = 0; i < src.n; ++i) b.ref.insert(pi + i, src[i]);
    (void)nextUid; cnt("op_insert_list");
  }
  void opRemoveIt(Box& b, size_t idx) { setctxf("List.remove(iterator)/%s", idx == 0 ? "first" : idx + 1 == b.ref.n ? "last" : "middle"); hist.addf("remove(iterator #%lu)\n", (unsigned long)idx); It it = iterAt(*b.c, idx); It r = b.c->remove(it); b.ref.removeAt(idx); if (b.c->size() != b.ref.n) fail(key("size"), "size() %lu, model %lu", (unsigned long)b.c->size(), (unsigned long)b.ref.n); size_t ri = indexOf(*b.c, r, b.ref.n); if (ri != idx) fail(key("returned-iterator"), "remove returned the iterator at position %ld, expected the successor at %lu", (long)ri, (unsigned long)idx); cnt("op_remove_it"); }
  void opRemoveValue(Box& b, long k) { size_t at = firstKey(b.ref, k); setctxf("List.remove(value)/%s", at == npos ? "absent" : "present"); hist.addf("remove(value %ld)\n", k); Val v(k, -100); b.c->remove(v); if (at != npos) b.ref.removeAt(at); cnt("op_remove_value"); }
  void opRemoveEnd(Box& b, bool front) { setctx(front ? "List.removeFront" : "List.removeBack"); hist.add(front ? "removeFront\n" : "removeBack\n"); It r = front ? b.c->removeFront() : b.c->removeBack(); if (front) b.ref.removeAt(0); else b.ref.pop(); if (front ? r != b.c->begin() : r != b.c->end()) fail(key("returned-iterator"), front ? "removeFront did not return begin()" : "removeBack did not return end()"); cnt("op_remove_end"); }
  void opClear(Box& b) { setctxf("List.clear/%s", b.ref.n ? "non-empty" : "empty"); hist.add("clear\n"); b.c->clear(); b.ref.clear(); cnt("op_clear"); }

  // sort oracle: ascending, and exactly the previous elements (uids identify them; uid -> key must be preserved)
  void opSort(Box& b, const char* cls) {
    setctxf("List.sort/%s", cls); hist.addf("sort   [%lu elements]\n", (unsigned long)b.ref.n);
    C& c = *b.c; Model before(b.ref);
    cpuBudget(60, "List.sort/nonterminating");
    long lt0 = g_lt; c.sort(); cnt("sort_comparisons", g_lt - lt0);
    cpuBudget(0, 0);
    if (c.size() != before.n) fail(key("size"), "size() %lu after sort, was %lu", (unsigned long)c.size(), (unsigned long)before.n);
    Model after; size_t i = 0;
    for (It it = c.begin(), e = c.end(); it != e; ++it, ++i) { if (i >= before.n) fail(key("iteration"), "iteration after sort yields more than %lu elements", (unsigned long)before.n); SEnt en = { (*it).key, (*it).uid }; if ((*it).guard.id != en.uid) fail(key("element"), "element #%ld carries guard #%ld after sort (half-copied value)", en.uid, (*it).guard.id); after.push(en); }
    if (after.n != before.n) fail(key("iteration"), "iteration after sort yields %lu elements, before %lu", (unsigned long)after.n, (unsigned long)before.n);
    for (size_t j = 1; j < after.n; ++j) if (after[j].key < after[j - 1].key) fail(key("order"), "not ascending after sort: position %lu holds %ld, position %lu holds %ld", (unsigned long)(j - 1), after[j - 1].key, (unsigned long)j, after[j].key);
    // multiset equality on (key, uid): sort both by (uid, key) with a dumb insertion-free method: count matches using a used[] mask per key group
    Vec<char> used; used.resize(before.n, 0);
    for (size_t j = 0; j < after.n; ++j) {
      bool ok = false;
      for (size_t q = 0; q < before.n; ++q) if (!used[q] && before[q].uid == after[j].uid && before[q].key == after[j].key) { used[q] = 1; ok = true; break; }
      if (!ok) fail(key("permutation"), "element (%ld,#%ld) at position %lu after sort was not in the list before (or appears more often than before): an element was lost or duplicated", after[j].key, after[j].uid, (unsigned long)j);
    }
    b.ref = after; cnt("op_sort"); cnt("sorted_elements", (long)after.n);
  }
};

static void listHistory(ListCk& ck, Rng& r, long idx) {
  typedef ListCk::Box Box; typedef ListCk::C C;
  int universe = (int)(r.chance(1, 3) ? r.range(1, 4) : r.range(4, 40));
  int nops = (int)r.range(20, r.chance(1, 10) ? 600 : 250);
  hist.addf("# List universe=%d nops=%d\n", universe, nops);
  enum { NK = 15 }; int w[NK]; int tot = 0;
  for (int i = 0; i < NK; ++i) w[i] = r.chance(1, 4) ? 0 : (int)r.range(1, 10);
  w[0] += 3; if (r.chance(1, 2)) w[7] = r.chance(1, 2) ? 0 : 1; w[8] = (w[8] + 1) / 2; w[9] = (w[9] + 2) / 3; w[10] = (w[10] + 2) / 3; w[11] = (w[11] + 2) / 3; w[12] = (w[12] + 2) / 3; w[13] = w[13] ? 1 : 0; w[14] = (w[14] + 1) / 2;
  for (int i = 0; i < NK; ++i) tot += w[i];
  Box A, B; Box* mp = &A; Box* op = &B; setctx("List.constructor"); A.c = new C; B.c = new C;
  ck.all(A, universe); ck.all(B, universe);
  long uid = 1; u64 fp = 11; bool removed = false; size_t maxn = 0;
  for (int o = 0; o < nops; ++o) {
    Box& m = *mp; Box& other = *op;
    int pick = (int)r.below((u64)tot), kind = 0; while (pick >= w[kind]) pick -= w[kind++];
    long k = (long)r.below((u64)universe); fp = mix(fp, (u64)kind * 131 + (u64)k);
    bool otherTouched = false; size_t n = m.ref.n;
    switch (kind) {
    case 0: ck.opAppend(m, k, uid++); break;
    case 1: ck.opPrepend(m, k, uid++); break;
    case 2: { size_t pi; const char* pn; switch (r.below(5)) { case 0: pi = 0; pn = "begin"; break; case 1: pi = n; pn = "end"; break; case 2: pi = n ? n - 1 : 0; pn = "last"; break; case 3: pi = n > 1 ? 1 : n; pn = "second"; break; default: pi = r.below(n + 1); pn = "middle"; break; } if (pi == n) pn = "end"; else if (pi == 0) pn = "begin"; setItem("insert_positions", pn); ck.opInsert(m, pi, pn, k, uid++); break; }
    case 3: ck.opRemoveValue(m, k); removed = true; break;
    case 4: if (n) { size_t i = r.chance(1, 4) ? 0 : r.chance(1, 3) ? n - 1 : r.below(n); ck.opRemoveIt(m, i); removed = true; } break;
    case 5: if (n) { ck.opRemoveEnd(m, true); removed = true; } break;
    case 6: if (n) { ck.opRemoveEnd(m, false); removed = true; } break;
    case 7: ck.opClear(m); break;
    case 8: { setctxf("List.swap/%s-%s", m.ref.n ? "nonempty" : "empty", other.ref.n ? "nonempty" : "empty"); hist.addf("swap(other)  [sizes %lu/%lu]\n", (unsigned long)m.ref.n, (unsigned long)other.ref.n); setItem("swap_classes", (const char*)ctx + 10); m.c->swap(*other.c); m.ref.swap(other.ref); otherTouched = true; cnt("op_swap"); break; }
    case 9: { setctxf("List.copy-construct/%s", n ? "non-empty" : "empty"); hist.add("copy-construct; mutate the copy; destroy it\n"); Box cp; cp.c = new C(*m.c); cp.ref = m.ref; ck.all(cp, universe); ck.equality(cp, m);
        setctx("List.copy-construct/independence"); if (r.chance(1, 2)) { cp.c->clear(); cp.ref.clear(); } else if (cp.ref.n) { cp.c->removeFront(); cp.ref.removeAt(0); } { Val v(77, -9); cp.c->append(v); SEnt e = { 77, -9 }; cp.ref.push(e); }
        ck.all(cp, universe); ck.all(m, universe); delete cp.c; ck.all(m, universe); cnt("op_copy_construct"); break; }
    case 10: { setctxf("List.operator=/onto-%s", other.ref.n ? "non-empty" : "empty"); hist.add("other = m\n"); *other.c = *m.c; other.ref = m.ref; otherTouched = true; cnt("op_assign"); break; }
    case 11: if (r.chance(1, 5) && 2 * n <= 300) { int how = (int)r.below(3); size_t pi = how == 0 ? n : how == 1 ? 0 : r.below(n + 1); const char* pn = pi == n ? "end" : pi == 0 ? "begin" : "middle"; ck.opInsertList(m, m, how, pi, pn, uid); break; }   // the list itself as argument
             if (n + other.ref.n <= 300) { int how = (int)r.below(3); size_t pi = how == 0 ? n : how == 1 ? 0 : r.below(n + 1); const char* pn = pi == n ? "end" : pi == 0 ? "begin" : "middle"; ck.opInsertList(m, other, how, pi, pn, uid); break; }
    case 12: { // other := perturbed rebuild of m (near-equal lists for the equality oracle)
        Model want(m.ref); int pert = (int)r.below(5); static const char* pn[] = { "identical", "two-swapped", "one-key-changed", "last-dropped", "identical" };
        if (pert == 1 && want.n >= 2) { size_t i = r.below(want.n - 1); SEnt t = want[i]; want[i] = want[i + 1]; want[i + 1] = t; }
        else if (pert == 2 && want.n) want[r.below(want.n)].key = universe + 1;
        else if (pert == 3 && want.n) want.pop();
        hist.addf("other := rebuild of m (%s)\n", pn[pert]); setItem("equality_perturbations", pn[pert]);
        ck.opClear(other); for (size_t i = 0; i < want.n; ++i) ck.opAppend(other, want[i].key, uid++);
        otherTouched = true; break; }
    case 13: { hist.add("swap roles of m and other\n"); Box* t = mp; mp = op; op = t; otherTouched = true; break; }
    default: ck.opSort(m, n < 2 ? "trivial" : "history"); break;
    }
    Box& cur = *mp; if (cur.ref.n > maxn) maxn = cur.ref.n;
    ck.all(cur, universe); if (otherTouched) ck.all(*op, universe); ck.equality(cur, *op);
    cnt("ops");
  }
  setctx("List.destructor"); delete A.c; delete B.c;
  setctx("List/case-end"); ElemReg::checkBalanced("List");
  statMax("max_size", (long)maxn);
  if (idx % 401 == 0) sample("%.1200s", hist.c());
  endCase(fp, maxn >= 2 && removed);
}

// ================================================================ Array
struct ArrayCk {
  typedef Array<Val> C; typedef C::Iterator It;
  struct Box { C* c; Model ref; usize minCap; Box() : c(0), minCap(0) {} };

  It iterAt(C& c, size_t idx) { It it = c.begin(); for (size_t i = 0; i < idx; ++i) { if (it == c.end()) fail(key("iteration"), "iteration ends after %lu elements, model has more", (unsigned long)i); ++it; } return it; }
  // state class "storage allocated" through the public pointer conversion (null while nothing was allocated)
  static bool allocated(C& c) { Val* p = c; return p != 0; }

  void contents(Box& b) {
    C& c = *b.c; const C& cc = c; const Model& ref = b.ref;
    if (c.size() != ref.n) fail(key("size"), "size() %lu != model %lu", (unsigned long)c.size(), (unsigned long)ref.n);
    if (c.isEmpty() != (ref.n == 0)) fail(key("isEmpty"), "isEmpty() %d with model size %lu", (int)c.isEmpty(), (unsigned long)ref.n);
    if (c.capacity() < c.size()) fail(key("capacity"), "capacity() %lu < size() %lu", (unsigned long)c.capacity(), (unsigned long)c.size());
#ifndef VERIF_NO_PRIVATE
    // private state: begin/end/capacity coherent
    if ((c._begin.item == 0) != (c._end.item == 0)) fail(key("structure"), "only one of begin/end is null");
    if (c._begin.item && (usize)(c._end.item - c._begin.item) > c._capacity) fail(key("structure"), "end - begin exceeds _capacity");
#endif
    size_t i = 0;
    for (It it = cc.begin(), e = cc.end(); it != e; ++it, ++i) {
      if (i >= ref.n) fail(key("iteration"), "forward iteration yields more than %lu elements", (unsigned long)ref.n);
      if ((*it).key != ref[i].key || (*it).uid != ref[i].uid || (*it).guard.id != ref[i].uid) fail(key("iteration"), "forward position %lu holds (%ld,#%ld guard #%ld), model (%ld,#%ld)", (unsigned long)i, (*it).key, (*it).uid, (*it).guard.id, ref[i].key, ref[i].uid);
      { const It cit = it; It nx = ++cit; It same = it; ++same; if (nx != same || cit != it) fail(key("iterator"), "const prefix ++ at position %lu does not yield the successor", (unsigned long)i); if (i && (--cit) == it) fail(key("iterator"), "const prefix -- at position %lu yields the same position", (unsigned long)i); }
      if (it.operator->() != &*it) fail(key("iterator"), "operator-> and operator* designate different objects at position %lu", (unsigned long)i);
    }
    if (i != ref.n) fail(key("iteration"), "forward iteration yields %lu elements, model %lu", (unsigned long)i, (unsigned long)ref.n);
    if (ref.n) {
      It it = cc.end();
      for (size_t j = ref.n; j-- > 0;) { --it; if ((*it).uid != ref[j].uid) fail(key("iteration"), "backward position %lu holds #%ld, model #%ld", (unsigned long)j, (*it).uid, ref[j].uid); }
      if (it != cc.begin()) fail(key("iteration"), "backward iteration does not end at begin()");
      if (c.front().uid != ref[0].uid || cc.front().uid != ref[0].uid) fail(key("front"), "front() is #%ld, model #%ld", c.front().uid, ref[0].uid);
      if (c.back().uid != ref[ref.n - 1].uid || cc.back().uid != ref[ref.n - 1].uid) fail(key("back"), "back() is #%ld, model #%ld", c.back().uid, ref[ref.n - 1].uid);
      const Val* p = cc; Val* q = c;
      if (p != q || p != &*cc.begin()) fail(key("operator T*"), "pointer conversion does not designate the first element");
      for (size_t j = 0; j < ref.n; ++j) if (p[j].uid != ref[j].uid) fail(key("operator T*"), "element [%lu] is #%ld, model #%ld", (unsigned long)j, p[j].uid, ref[j].uid);
    }
    cnt("elements_compared", (long)ref.n * 3);
  }
  void finds(Box& b, int universe) {
    const C& cc = *b.c;
    for (long k = -1; k <= universe; ++k) {
      size_t at = firstKey(b.ref, k); Val probe(k, -100);
      It it = cc.find(probe);
      if (at == npos) { if (it != cc.end()) fail(key("find"), "find(%ld) returned an element although none has that value", k); }
      else if (it != iterAt(*b.c, at)) fail(key("find"), "find(%ld) did not return the first match at position %lu", k, (unsigned long)at);
      cnt("finds");
    }
  }
  void findsFew(Box& b) {   // large arrays: first / middle / last key and an absent one
    const C& cc = *b.c; const Model& ref = b.ref; long probes[4]; int np = 0; probes[np++] = -1;
    if (ref.n) { probes[np++] = ref[0].key; probes[np++] = ref[ref.n / 2].key; probes[np++] = ref[ref.n - 1].key; }
    for (int j = 0; j < np; ++j) {
      long k = probes[j]; size_t at = firstKey(ref, k); Val probe(k, -100); It it = cc.find(probe);
      if (at == npos) { if (it != cc.end()) fail(key("find"), "find(%ld) returned an element although none has that value", k); }
      else if (it != iterAt(*b.c, at)) fail(key("find"), "find(%ld) did not return the first match at position %lu", k, (unsigned long)at);
      cnt("finds");
    }
  }
  #ifndef VERIF_NO_PRIVATE
  void all(Box& b, int universe) { contents(b); finds(b, universe); ++g_walks; }
#else
  void all(Box& b, int universe) { contents(b); finds(b, universe); }
#endif

  void opAppend(Box& b, long k, long uid) {
    C& c = *b.c; bool grow = c.size() + 1 > c.capacity() || !allocated(c);
    setctxf("Array.append/%s", grow ? "growing" : "in-place"); hist.addf("append(%ld #%ld)   [size %lu capacity %lu]\n", k, uid, (unsigned long)c.size(), (unsigned long)c.capacity());
    if (grow) cnt("growths"); Val v(k, uid); Val& r = c.append(v); SEnt e = { k, uid }; b.ref.push(e);
    if (c.size() != b.ref.n) fail(key("size"), "size() %lu, model %lu", (unsigned long)c.size(), (unsigned long)b.ref.n);
    if (&r != &c.back() || r.uid != uid) fail(key("returned-reference"), "append did not return the new last element");
    cnt("op_append");
  }
  void opAppendBlock(Box& b, Rng& r, size_t cnt_, long k, long& uid) {
    C& c = *b.c; bool grow = c.size() + cnt_ > c.capacity() || (!allocated(c) && cnt_);
    setctxf("Array.append(T*,n)/%s%s", cnt_ ? "" : "n=0/", grow ? "growing" : "in-place"); hist.addf("append(block of %lu)   [size %lu capacity %lu]\n", (unsigned long)cnt_, (unsigned long)c.size(), (unsigned long)c.capacity());
    if (grow) cnt("growths");
    Val* blk = (Val*)malloc(cnt_ * sizeof(Val) + (cnt_ ? 0 : 1));   // exactly-sized: any over-read is an ASan report
    for (size_t i = 0; i < cnt_; ++i) { long kk = r.chance(1, 2) ? k : (long)r.below(4); new ((void*)&blk[i]) Val(kk, uid); SEnt e = { kk, uid++ }; b.ref.push(e); }
    c.append(blk, cnt_);
    for (size_t i = 0; i < cnt_; ++i) blk[i].~Val();
    free(blk); cnt("op_append_block");
  }
  void opAppendArray(Box& b, Box& o) {
    C& c = *b.c; bool grow = c.size() + o.ref.n > c.capacity() || (!allocated(c) && o.ref.n);
    setctxf("Array.append(Array)/%s%s", o.ref.n ? "" : "empty-arg/", grow ? "growing" : "in-place"); hist.addf("append(other array of %lu)   [size %lu capacity %lu]\n", (unsigned long)o.ref.n, (unsigned long)c.size(), (unsigned long)c.capacity());
    if (grow) cnt("growths");
    if (&o == &b) { setctxf("Array.append(Array)/arg=self/%s", grow ? "growing" : "in-place"); cnt("op_append_array_self"); }
    size_t n0 = o.ref.n; c.append(*o.c); for (size_t i = 0; i < n0; ++i) { SEnt e = o.ref[i]; b.ref.push(e); } cnt("op_append_array");
  }
  void opRemoveIndex(Box& b, size_t idx) {
    size_t n = b.ref.n; setctxf("Array.remove(index)/%s", idx >= n ? "out-of-range" : idx == 0 ? "first" : idx + 1 == n ? "last" : "middle"); hist.addf("remove(index %lu)   [size %lu]\n", (unsigned long)idx, (unsigned long)n);
    setItem("remove_index_classes", (const char*)ctx + 20);
    b.c->remove(idx); if (idx < n) b.ref.removeAt(idx); cnt("op_remove_index");
  }
  void opRemoveIt(Box& b, size_t idx) {
    size_t n = b.ref.n; setctxf("Array.remove(iterator)/%s", idx == 0 ? "first" : idx + 1 == n ? "last" : "middle"); hist.addf("remove(iterator #%lu)\n", (unsigned long)idx);
    It it = iterAt(*b.c, idx); It r = b.c->remove(it); b.ref.removeAt(idx);
    if (b.c->size() != b.ref.n) fail(key("size"), "size() %lu, model %lu", (unsigned long)b.c->size(), (unsigned long)b.ref.n);
    if (r != iterAt(*b.c, idx)) fail(key("returned-iterator"), "remove did not return the iterator of the successor (position %lu)", (unsigned long)idx);
    cnt("op_remove_it");
  }
  void opRemoveEnd(Box& b, bool front) { setctx(front ? "Array.removeFront" : "Array.removeBack"); hist.add(front ? "removeFront\n" : "removeBack\n"); It r = front ? b.c->removeFront() : b.c->removeBack(); if (front) b.ref.removeAt(0); else b.ref.pop(); if (front ? r != b.c->begin() : r != b.c->end()) fail(key("returned-iterator"), front ? "removeFront did not return begin()" : "removeBack did not return end()"); cnt("op_remove_end"); }
  void opReserve(Box& b, usize want) {
    C& c = *b.c; usize cap = c.capacity(); const char* cls = want < cap ? "below-capacity" : want == cap ? "equal-capacity" : "above-capacity";
    setctxf("Array.reserve/%s%s", cls, allocated(c) ? "" : "/unallocated"); hist.addf("reserve(%lu)   [size %lu capacity %lu]\n", (unsigned long)want, (unsigned long)c.size(), (unsigned long)cap); setItem("reserve_classes", (const char*)ctx + 14);
    c.reserve(want); if (c.capacity() < want) fail(key("capacity"), "capacity() %lu after reserve(%lu)", (unsigned long)c.capacity(), (unsigned long)want);
    if (want > b.minCap) b.minCap = want; cnt("op_reserve");
  }
  void opResize(Box& b, size_t want, bool dflt, long k, long uid) {
    C& c = *b.c; size_t n = b.ref.n; const char* cls = want < n ? "shrink" : want == n ? "same" : want > c.capacity() || !allocated(c) ? "grow-reallocating" : "grow-in-place";
    setctxf("Array.resize/%s%s", cls, dflt ? "/default-value" : ""); hist.addf("resize(%lu%s)   [size %lu capacity %lu]\n", (unsigned long)want, dflt ? "" : ", value", (unsigned long)n, (unsigned long)c.capacity()); setItem("resize_classes", cls);
    if (dflt) { c.resize(want); k = 0; uid = -1; } else { Val v(k, uid); c.resize(want, v); }
    while (b.ref.n > want) b.ref.pop(); SEnt e = { k, uid }; while (b.ref.n < want) b.ref.push(e);
    cnt("op_resize");
  }
  void opClear(Box& b) { setctxf("Array.clear/%s", b.ref.n ? "non-empty" : allocated(*b.c) ? "empty" : "unallocated"); hist.add("clear\n"); b.c->clear(); b.ref.clear(); cnt("op_clear"); }
};

static Array<Val>* newArray(Rng& r, usize& minCap, Text& h) { if (r.chance(1, 2)) { minCap = 0; h.add("new Array()\n"); return new Array<Val>; } minCap = (usize)r.below(21); h.addf("new Array(%lu)\n", (unsigned long)minCap); Array<Val>* a = new Array<Val>(minCap); if (a->capacity() < minCap) fail("Array.constructor/capacity", "Array(%lu) reports capacity() %lu", (unsigned long)minCap, (unsigned long)a->capacity()); return a; }

static void arrayHistory(ArrayCk& ck, Rng& r, long idx) {
  typedef ArrayCk::Box Box; typedef ArrayCk::C C;
  int universe = (int)(r.chance(1, 3) ? r.range(1, 4) : r.range(4, 30));
  int nops = (int)r.range(20, r.chance(1, 10) ? 500 : 200);
  hist.addf("# Array universe=%d nops=%d\n", universe, nops);
  enum { NK = 15 }; int w[NK]; int tot = 0;
  for (int i = 0; i < NK; ++i) w[i] = r.chance(1, 4) ? 0 : (int)r.range(1, 10);
  w[0] += 4; if (r.chance(1, 2)) w[7] = r.chance(1, 2) ? 0 : 1; w[10] = (w[10] + 1) / 2; w[11] = (w[11] + 2) / 3; w[12] = (w[12] + 2) / 3; w[13] = w[13] ? 1 : 0; w[14] = (w[14] + 2) / 3;
  for (int i = 0; i < NK; ++i) tot += w[i];
  Box A, B; Box* mp = &A; Box* op = &B; setctx("Array.constructor"); A.c = newArray(r, A.minCap, hist); B.c = newArray(r, B.minCap, hist);
  ck.all(A, universe); ck.all(B, universe);
  long uid = 1; u64 fp = 12; bool removed = false; size_t maxn = 0;
  for (int o = 0; o < nops; ++o) {
    Box& m = *mp; Box& other = *op;
    int pick = (int)r.below((u64)tot), kind = 0; while (pick >= w[kind]) pick -= w[kind++];
    long k = (long)r.below((u64)universe); fp = mix(fp, (u64)kind * 131 + (u64)k);
    bool otherTouched = false; size_t n = m.ref.n;
    switch (kind) {
    case 0: ck.opAppend(m, k, uid++); break;
    case 1: { size_t room = m.c->capacity() - n; size_t c2; switch (r.below(5)) { case 0: c2 = 0; break; case 1: c2 = room; break; case 2: c2 = room + 1; break; case 3: c2 = room ? room - 1 : 1; break; default: c2 = r.below(9); break; } if (c2 > 40) c2 = 40; if (n > 300 && c2 > 2) c2 = 2; ck.opAppendBlock(m, r, c2, k, uid); break; }
    case 2: if (r.chance(1, 5)) { if (2 * n <= 300) ck.opAppendArray(m, m); }   // the array itself as argument (also part of C04)
            else if (n + other.ref.n <= 300) ck.opAppendArray(m, other); break;
    case 3: { static const size_t huge[] = { (size_t)-1, (size_t)-2, (size_t)-1 / 2, (size_t)-1 / 2 + 1, (size_t)-1 / sizeof(Val), (size_t)-1 / sizeof(Val) + 1, (size_t)1 << 60, (size_t)1 << 61 };   // byte offsets that wrap around
              size_t i = r.chance(1, 12) ? huge[r.below(8)] : r.chance(1, 5) ? n + r.below(3) : n ? (r.chance(1, 4) ? 0 : r.chance(1, 3) ? n - 1 : r.below(n)) : 0; ck.opRemoveIndex(m, i); removed = removed || i < n; break; }
    case 4: if (n) { size_t i = r.chance(1, 4) ? 0 : r.chance(1, 3) ? n - 1 : r.below(n); ck.opRemoveIt(m, i); removed = true; } break;
    case 5: if (n) { ck.opRemoveEnd(m, true); removed = true; } break;
    case 6: if (n) { ck.opRemoveEnd(m, false); removed = true; } break;
    case 7: ck.opClear(m); break;
    case 8: { usize cap = m.c->capacity(); usize want; switch (r.below(5)) { case 0: want = cap; break; case 1: want = cap + 1; break; case 2: want = cap ? cap - 1 : 0; break; case 3: want = 0; break; default: want = (usize)r.below(cap + 12); break; } ck.opReserve(m, want); break; }
    case 9: { usize cap = m.c->capacity(); size_t want; switch (r.below(7)) { case 0: want = n; break; case 1: want = 0; break; case 2: want = cap; break; case 3: want = cap + 1; break; case 4: want = n ? n - 1 : 0; break; case 5: want = n + 1; break; default: want = r.below(n + 10); break; } if (want > n + 64) want = n + 64; if (want > 300 && want > n) want = n; ck.opResize(m, want, r.chance(1, 3), k, uid++); removed = removed || want < n; break; }
    case 10: { setctxf("Array.swap/%s-%s", ArrayCk::allocated(*m.c) ? (n ? "nonempty" : "empty") : "unallocated", ArrayCk::allocated(*other.c) ? (other.ref.n ? "nonempty" : "empty") : "unallocated"); hist.addf("swap(other)  [sizes %lu/%lu]\n", (unsigned long)n, (unsigned long)other.ref.n); setItem("swap_classes", (const char*)ctx + 11); m.c->swap(*other.c); m.ref.swap(other.ref); usize t = m.minCap; m.minCap = other.minCap; other.minCap = t; otherTouched = true; cnt("op_swap"); break; }
    case 11: { setctxf("Array.copy-construct/%s", ArrayCk::allocated(*m.c) ? (n ? "non-empty" : "empty") : m.c->capacity() ? "unallocated-with-capacity" : "unallocated"); setItem("copy_classes", (const char*)ctx + 21); hist.add("copy-construct; mutate the copy; destroy it\n"); Box cp; cp.c = new C(*m.c); cp.ref = m.ref; cp.minCap = 0; ck.all(cp, universe);
        setctx("Array.copy-construct/independence"); if (r.chance(1, 2)) { cp.c->clear(); cp.ref.clear(); } else if (cp.ref.n) { cp.c->removeFront(); cp.ref.removeAt(0); } { Val v(77, -9); cp.c->append(v); SEnt e = { 77, -9 }; cp.ref.push(e); }
        ck.all(cp, universe); ck.all(m, universe); delete cp.c; ck.all(m, universe); cnt("op_copy_construct"); break; }
    case 12: { setctxf("Array.operator=/onto-%s/from-%s", ArrayCk::allocated(*other.c) ? (other.ref.n ? "non-empty" : "empty") : "unallocated", ArrayCk::allocated(*m.c) ? (n ? "non-empty" : "empty") : "unallocated"); hist.addf("other = m   [other size %lu capacity %lu; m size %lu capacity %lu]\n", (unsigned long)other.ref.n, (unsigned long)other.c->capacity(), (unsigned long)n, (unsigned long)m.c->capacity()); *other.c = *m.c; other.ref = m.ref; otherTouched = true; cnt("op_assign"); break; }
    case 13: { if (r.chance(1, 2)) { hist.add("swap roles of m and other\n"); Box* t = mp; mp = op; op = t; } else { setctx("Array.destructor"); hist.add("destroy other; "); delete other.c; setctx("Array.constructor"); other.c = newArray(r, other.minCap, hist); other.ref.clear(); } otherTouched = true; break; }
    default: if (n <= 300) for (int j = 0; j < 5; ++j) ck.opAppend(m, (long)r.below((u64)universe), uid++); break;
    }
    Box& cur = *mp; if (cur.ref.n > maxn) maxn = cur.ref.n;
    ck.all(cur, universe); if (otherTouched) ck.all(*op, universe);
    cnt("ops");
  }
  setctx("Array.destructor"); delete A.c; delete B.c;
  setctx("Array/case-end"); ElemReg::checkBalanced("Array");
  statMax("max_size", (long)maxn);
  if (idx % 401 == 0) sample("%.1200s", hist.c());
  endCase(fp, maxn >= 2 && removed);
}

// directed sweep: start capacity c0 (lazy Array(c0) or reserve), fill n, then one operation out of an enumerated set; every combination
static void arrayGrow() {
  ArrayCk ck; long idx = 0; long uid;
  for (int ctorKind = 0; ctorKind < 3; ++ctorKind) for (usize c0 = 0; c0 <= 17; ++c0) for (size_t n = 0; n <= c0 + 5; ++n, ++idx) {
    if (!(mine(idx) && idx >= opts.start && (opts.cases < 0 || idx < opts.start + opts.cases))) continue;
    beginCase(idx); ElemReg::reset(); uid = 1; Rng r(opts.seed, 3100, (u64)idx);
    hist.addf("# array-grow: %s c0=%lu fill=%lu, then each single operation on a fresh array\n", ctorKind == 0 ? "Array(c0)" : ctorKind == 1 ? "Array()+reserve(c0)" : "Array()", (unsigned long)c0, (unsigned long)n);
    // operation codes: 0..8 append block of m; 9..17 append array of m; 18..(18+n+7) resize to t; then remove(index) 0..n+1; then reserve r 0..c0+9; copy; assign
    int nOps = 9 + 9 + (int)n + 8 + (int)n + 2 + (int)c0 + 10 + 2;
    for (int opc = -1; opc < nOps; ++opc) {
      ArrayCk::Box b; setctx("Array.constructor");
      if (ctorKind == 0) { b.c = new Array<Val>(c0); b.minCap = c0; } else { b.c = new Array<Val>; b.minCap = 0; }
      hist.addf("## fresh array, op code %d\n", opc);
      if (ctorKind == 1) ck.opReserve(b, c0);
      for (size_t i = 0; i < n; ++i) { ck.opAppend(b, (long)(i % 3), uid++); if (opc == -1) ck.all(b, 3); }
      int o = opc;
      if (o < 0) {}
      else if (o < 9) ck.opAppendBlock(b, r, (size_t)o, 1, uid);
      else if ((o -= 9) < 9) { ArrayCk::Box src; src.c = new Array<Val>; for (int i = 0; i < o; ++i) ck.opAppend(src, 2, uid++); ck.opAppendArray(b, src); ck.all(src, 3); setctx("Array.destructor"); delete src.c; }
      else if ((o -= 9) < (int)n + 8) ck.opResize(b, (size_t)o, o % 2 == 0, 1, uid++);
      else if ((o -= (int)n + 8) < (int)n + 2) ck.opRemoveIndex(b, (size_t)o);
      else if ((o -= (int)n + 2) < (int)c0 + 10) ck.opReserve(b, (usize)o);
      else if ((o -= (int)c0 + 10) == 0) { setctx("Array.copy-construct/sweep"); hist.add("copy-construct\n"); ArrayCk::Box cp; cp.c = new Array<Val>(*b.c); cp.ref = b.ref; ck.all(cp, 3); ck.opAppend(cp, 1, uid++); ck.all(cp, 3); setctx("Array.destructor"); delete cp.c; }
      else { ArrayCk::Box dst; setctx("Array.constructor"); dst.c = new Array<Val>((usize)(n / 2)); dst.minCap = n / 2; for (size_t i = 0; i < n / 2 + (n & 1); ++i) ck.opAppend(dst, 0, uid++); setctx("Array.operator=/sweep"); hist.add("dst = b\n"); *dst.c = *b.c; dst.ref = b.ref; ck.all(dst, 3); ck.opAppend(dst, 1, uid++); ck.all(dst, 3); setctx("Array.destructor"); delete dst.c; }
      ck.all(b, 3);
      // and keep going a little: one more append and a removal, so that a wrong capacity/end shows
      ck.opAppend(b, 1, uid++); ck.all(b, 3); if (b.ref.n) { ck.opRemoveIt(b, b.ref.n / 2); ck.all(b, 3); }
      setctx("Array.destructor"); delete b.c; cnt("ops", (long)n + 3); cnt("sweep_configurations");
    }
    setctx("Array/case-end"); ElemReg::checkBalanced("Array");
    if (idx % 97 == 0) sample("%.900s", hist.c());
    endCase(mix(mix((u64)ctorKind, c0), n), true);
  }
  if (opts.shard == 0) cnt("exhaustive_space", idx);
}

// ================================================================ PoolList
struct PEnt { long uid; int nargs; };
struct PoolCk {
  typedef PoolList<PT> C; typedef C::Iterator It;
  struct Box { C* c; Vec<PEnt> ref; size_t nfree; Box() : c(0), nfree(0) {} };
#ifndef VERIF_NO_PRIVATE
  typedef C::Item Item; typedef C::ItemBlock Block;
  PtrSet live, freeSet; PoolAcct acct;
#endif
  It iterAt(C& c, size_t idx) { It it = c.begin(); for (size_t i = 0; i < idx; ++i) { if (it == c.end()) fail(key("iteration"), "iteration ends after %lu elements, model has more", (unsigned long)i); ++it; } return it; }
  size_t indexOf(C& c, const It& x, size_t limit) { size_t i = 0; for (It it = c.begin();; ++it, ++i) { if (it == x) return i; if (it == c.end() || i > limit) return npos; } }
  static void checkElem(const PT& e, const PEnt& m, size_t pos, const char* dir) {
    if (e.uid != m.uid || e.nargs != m.nargs) fail(key("iteration"), "%s position %lu holds #%ld (%d args), model #%ld (%d args)", dir, (unsigned long)pos, e.uid, e.nargs, m.uid, m.nargs);
    for (int i = 1; i < 7; ++i) if (e.a[i] != (i < m.nargs ? m.uid * 10 + i : 0)) fail(key("constructor-arguments"), "element #%ld built from %d arguments holds %ld as argument %d", m.uid, m.nargs, e.a[i], i);
    if (e.guard.id != (m.nargs ? m.uid : -2)) fail(key("iteration"), "element #%ld carries guard #%ld", m.uid, e.guard.id);
  }
  void all(Box& b) {
    C& c = *b.c; const C& cc = c; const Vec<PEnt>& ref = b.ref;
    if (c.size() != ref.n) fail(key("size"), "size() %lu != model %lu", (unsigned long)c.size(), (unsigned long)ref.n);
    if (c.isEmpty() != (ref.n == 0)) fail(key("isEmpty"), "isEmpty() %d with model size %lu", (int)c.isEmpty(), (unsigned long)ref.n);
    size_t i = 0;
    for (It it = cc.begin(), e = cc.end(); it != e; ++it, ++i) { if (i >= ref.n) fail(key("iteration"), "forward iteration yields more than %lu elements", (unsigned long)ref.n); checkElem(*it, ref[i], i, "forward"); const It cit = it; It nx = ++cit; It same = it; ++same; if (nx != same || cit != it) fail(key("iterator"), "const prefix ++ at position %lu does not yield the successor", (unsigned long)i); if (it.operator->() != &*it) fail(key("iterator"), "operator-> and operator* designate different objects at position %lu", (unsigned long)i); }
    if (i != ref.n) fail(key("iteration"), "forward iteration yields %lu elements, model %lu", (unsigned long)i, (unsigned long)ref.n);
    if (ref.n) { It it = cc.end(); for (size_t j = ref.n; j-- > 0;) { --it; checkElem(*it, ref[j], j, "backward"); } if (it != cc.begin()) fail(key("iteration"), "backward iteration does not end at begin()"); }
    else if (cc.begin() != cc.end()) fail(key("iteration"), "begin() != end() on an empty list");
#ifndef VERIF_NO_PRIVATE
    walkLinked<C, Item, Block>(c, ref.n, sizeof(Item) + sizeof(PT), live, freeSet, acct);   // a slot = the link header followed by the element
    b.nfree = g_lastFree;
#endif
    cnt("elements_compared", (long)ref.n * 2);
  }
  void opAppend(Box& b, int nargs, long uid) {
    setctxf("PoolList.append/%d-args", nargs); hist.addf("append(#%ld with %d args)\n", uid, nargs); { char t[8]; snprintf(t, sizeof t, "%d", nargs); setItem("append_arities", t); }
    C& c = *b.c; PT* r = construct(c, nargs, uid);
    if (nargs == 0) { if (r->uid != -1 || r->nargs != 0) fail(key("returned-reference"), "append() did not return a default constructed element"); r->uid = uid; }
    PEnt e = { uid, nargs }; b.ref.push(e);
    if (c.size() != b.ref.n) fail(key("size"), "size() %lu, model %lu", (unsigned long)c.size(), (unsigned long)b.ref.n);
    It last = c.end(); --last; if (&*last != r || r->uid != uid) fail(key("returned-reference"), "append did not return the new last element");
    cnt("op_append");
  }
  static PT* construct(C& c, int nargs, long uid) {
    PT* r; long u = uid, x = uid * 10;
    switch (nargs) { case 0: r = &c.append(); break; case 1: r = &c.append(u); break; case 2: r = &c.append(u, x + 1); break; case 3: r = &c.append(u, x + 1, x + 2); break; case 4: r = &c.append(u, x + 1, x + 2, x + 3); break;
      case 5: r = &c.append(u, x + 1, x + 2, x + 3, x + 4); break; case 6: r = &c.append(u, x + 1, x + 2, x + 3, x + 4, x + 5); break; default: r = &c.append(u, x + 1, x + 2, x + 3, x + 4, x + 5, x + 6); break; }
    return r;
  }
  void opRemoveIt(Box& b, size_t idx) { setctxf("PoolList.remove(iterator)/%s", idx == 0 ? "first" : idx + 1 == b.ref.n ? "last" : "middle"); hist.addf("remove(iterator #%lu)\n", (unsigned long)idx); It it = iterAt(*b.c, idx); It r = b.c->remove(it); b.ref.removeAt(idx); if (b.c->size() != b.ref.n) fail(key("size"), "size() %lu, model %lu", (unsigned long)b.c->size(), (unsigned long)b.ref.n); size_t ri = indexOf(*b.c, r, b.ref.n); if (ri != idx) fail(key("returned-iterator"), "remove returned the iterator at position %ld, expected the successor at %lu", (long)ri, (unsigned long)idx); cnt("op_remove_it"); }
  void opRemoveRef(Box& b, size_t idx) { setctxf("PoolList.remove(element)/%s", idx == 0 ? "first" : idx + 1 == b.ref.n ? "last" : "middle"); hist.addf("remove(element reference #%lu)\n", (unsigned long)idx); It it = iterAt(*b.c, idx); PT& e = *it; b.c->remove(e); b.ref.removeAt(idx); cnt("op_remove_ref"); }
  void opRemoveEnd(Box& b, bool front) { setctx(front ? "PoolList.removeFront" : "PoolList.removeBack"); hist.add(front ? "removeFront\n" : "removeBack\n"); It r = front ? b.c->removeFront() : b.c->removeBack(); if (front) b.ref.removeAt(0); else b.ref.pop(); if (front ? r != b.c->begin() : r != b.c->end()) fail(key("returned-iterator"), front ? "removeFront did not return begin()" : "removeBack did not return end()"); cnt("op_remove_end"); }
};

static void poolHistory(PoolCk& ck, Rng& r, long idx) {
  typedef PoolCk::Box Box; typedef PoolCk::C C;
  int nops = (int)r.range(20, r.chance(1, 10) ? 600 : 250);
  hist.addf("# PoolList nops=%d\n", nops);
  enum { NK = 8 }; int w[NK]; int tot = 0;
  for (int i = 0; i < NK; ++i) w[i] = r.chance(1, 4) ? 0 : (int)r.range(1, 10);
  w[0] += 4; if (r.chance(1, 2)) w[5] = r.chance(1, 2) ? 0 : 1; w[6] = (w[6] + 1) / 2; w[7] = w[7] ? 1 : 0;
  for (int i = 0; i < NK; ++i) tot += w[i];
  Box A, B; Box* mp = &A; Box* op = &B; setctx("PoolList.constructor"); A.c = new C; B.c = new C; ck.all(A); ck.all(B);
  long uid = 1; u64 fp = 13; bool removed = false; size_t maxn = 0;
  for (int o = 0; o < nops; ++o) {
    Box& m = *mp; Box& other = *op;
    int pick = (int)r.below((u64)tot), kind = 0; while (pick >= w[kind]) pick -= w[kind++];
    int na = (int)r.below(8); fp = mix(fp, (u64)kind * 131 + (u64)na);
    bool otherTouched = false; size_t n = m.ref.n;
    switch (kind) {
    case 0: ck.opAppend(m, na, uid++); break;
    case 1: if (n) { size_t i = r.chance(1, 4) ? 0 : r.chance(1, 3) ? n - 1 : r.below(n); ck.opRemoveIt(m, i); removed = true; } break;
    case 2: if (n) { size_t i = r.chance(1, 4) ? 0 : r.chance(1, 3) ? n - 1 : r.below(n); ck.opRemoveRef(m, i); removed = true; } break;
    case 3: if (n) { ck.opRemoveEnd(m, true); removed = true; } break;
    case 4: if (n) { ck.opRemoveEnd(m, false); removed = true; } break;
    case 5: setctxf("PoolList.clear/%s", n ? "non-empty" : "empty"); hist.add("clear\n"); m.c->clear(); m.ref.clear(); cnt("op_clear"); break;
    case 6: { setctxf("PoolList.swap/%s-%s", n ? "nonempty" : "empty", other.ref.n ? "nonempty" : "empty"); hist.addf("swap(other)  [sizes %lu/%lu]\n", (unsigned long)n, (unsigned long)other.ref.n); setItem("swap_classes", (const char*)ctx + 14); m.c->swap(*other.c); m.ref.swap(other.ref); otherTouched = true; cnt("op_swap"); break; }
    default: { hist.add("swap roles of m and other\n"); Box* t = mp; mp = op; op = t; otherTouched = true; break; }
    }
    Box& cur = *mp; if (cur.ref.n > maxn) maxn = cur.ref.n;
    ck.all(cur); if (otherTouched) ck.all(*op);
    cnt("ops");
  }
  setctx("PoolList.destructor"); delete A.c; delete B.c;
  setctx("PoolList/case-end"); ElemReg::checkBalanced("PoolList");
  statMax("max_size", (long)maxn);
  if (idx % 401 == 0) sample("%.1200s", hist.c());
  endCase(fp, maxn >= 2 && removed);
}

// ================================================================ large containers (mode "big")
// Few, long cases. One container of the case's type is grown to a size n in about 1k..opts.scale that is chosen around powers of two and round decimal
// numbers (+- a few) or log-uniformly, and is then taken through phases: clear + refill, assignment onto / from it, copy construction, swap, bulk removal
// (every k-th element through one iterator walk, many from an end, by value / index), re-insertion, insertion of a whole container, resize / reserve, sort.
// Bulk operations write one history line and are followed by one full comparison (contents forward and backward, structural walk, a few finds), so an
// element costs a constant number of visits per phase. Nothing here knows a threshold of the library: "large" (>= 1000) only names counters and contexts.
static const size_t LARGE = 1000;
static int cmpEnt(const void* a, const void* b) { const SEnt* x = (const SEnt*)a; const SEnt* y = (const SEnt*)b; return x->key != y->key ? (x->key < y->key ? -1 : 1) : x->uid != y->uid ? (x->uid < y->uid ? -1 : 1) : 0; }
template <class E> static void spliceInto(Vec<E>& m, size_t at, const Vec<E>& ins, bool reversed) {
  Vec<E> out; for (size_t i = 0; i < at; ++i) out.push(m[i]);
  if (reversed) for (size_t i = ins.n; i-- > 0;) out.push(ins[i]); else for (size_t i = 0; i < ins.n; ++i) out.push(ins[i]);
  for (size_t i = at; i < m.n; ++i) out.push(m[i]);
  m.swap(out);
}
template <class E> static void dropFront(Vec<E>& m, size_t count) { Vec<E> out; for (size_t i = count; i < m.n; ++i) out.push(m[i]); m.swap(out); }

struct BigGen {
  Rng& r; long maxN; long U; u64 salt; long uid; u64 fp; size_t maxn; bool removed; const char* sizeCls;
  BigGen(Rng& rr, long mx) : r(rr), maxN(mx < 2048 ? 2048 : mx), uid(1), fp(17), maxn(0), removed(false), sizeCls("") { U = r.chance(1, 3) ? r.range(2, 40) : (1L << 40); salt = r.next(); }
  long keyOf(long u) const { return (long)(mix(salt, (u64)u) % (u64)U); }
  bool distinctKeys() const { return U > 1000; }
  int octaves() const { int top = 0; while ((2048L << top) <= maxN) ++top; return top; }   // 1024 << e <= maxN for e in [0, top]
  size_t pickSize() {
    int top = octaves();
    switch (r.below(8)) {
    case 0: case 1: case 2: case 3: { int e = (int)r.below((u64)top + 1), e2 = (int)r.below((u64)top + 1); if (e2 < e) e = e2;   // smaller sizes more often (cost)
        static const int d[] = { -3, -2, -1, 0, 1, 2, 3, 5, 6, 7 }; sizeCls = "power-of-two+-"; return (size_t)((1024L << e) + d[r.below(10)]); }
    case 4: case 5: { static const long dec[] = { 1000, 1500, 2000, 2500, 3000, 4000, 5000, 8000, 10000, 16000, 20000, 30000, 50000, 100000 }; int k = 0; while (k + 1 < 14 && dec[k + 1] <= maxN) ++k;
        int e = (int)r.below((u64)k + 1), e2 = (int)r.below((u64)k + 1); if (e2 < e) e = e2; sizeCls = "round-decimal+-"; return (size_t)(dec[e] + r.range(-1, 3)); }
    default: { long lo = 1024L << r.below((u64)top + 1), hi = lo * 2 > maxN ? maxN : lo * 2; if (hi <= lo) hi = lo + 1; sizeCls = "random"; return (size_t)r.range(lo + 1, hi); }
    }
  }
  // how many elements a follow-up insertion / removal touches: mostly 1..9 (block and capacity remainders), sometimes a fraction, all, or one more than n
  size_t fewOrMany(size_t n) { switch (r.below(7)) { case 0: return n / 2 + 1; case 1: return n ? n : 1; case 2: return n + 1; case 3: return n / 3 + 1; default: return (size_t)r.range(1, 9); } }
  void note(u64 kind, size_t n) { fp = mix(fp, kind * 1000003ULL + (u64)n); }
  void seen(size_t n) { if (n > maxn) maxn = n; }
};

// ---------------------------------------------------------------- big List
struct BigList {
  typedef ListCk::Box Box; typedef ListCk::C C; typedef ListCk::It It;
  ListCk& ck; BigGen& g; bool sorted;
  BigList(ListCk& c, BigGen& gg) : ck(c), g(gg), sorted(false) {}
  void check(Box& b) { ck.contents(*b.c, b.ref); ck.structure(b); ck.findsFew(*b.c, b.ref); g.seen(b.ref.n); cnt("big_checks"); cnt("big_elements_checked", (long)b.ref.n); if (b.ref.n >= LARGE) cnt("big_checks_large"); }
  // where: 0 append, 1 prepend, 2 insert before one fixed (random) position
  void add(Box& b, size_t count, int where, const char* why) {
    static const char* wn[] = { "append", "prepend", "insert/pos=middle" };
    C& c = *b.c; size_t n0 = b.ref.n; size_t lim = 2 * (size_t)g.maxN + 16; if (n0 >= lim) count %= 10; else if (n0 + count > lim) count = lim - n0;
    setctxf("List.%s/large/%s", wn[where], why);
    hist.addf("%s x %lu  (#%ld.., key = mix(salt, uid) %% %ld; %s)   [size %lu]\n", wn[where], (unsigned long)count, g.uid, g.U, why, (unsigned long)n0);
    Model ins;
    if (where == 0) for (size_t i = 0; i < count; ++i) { long u = g.uid++, k = g.keyOf(u); Val v(k, u); Val& rr = c.append(v); if (&rr != &c.back() || rr.uid != u) fail(key("returned-reference"), "append did not return the new last element (element %lu of the run)", (unsigned long)i); SEnt e = { k, u }; b.ref.push(e); }
    else if (where == 1) { for (size_t i = 0; i < count; ++i) { long u = g.uid++, k = g.keyOf(u); Val v(k, u); Val& rr = c.prepend(v); if (&rr != &c.front() || rr.uid != u) fail(key("returned-reference"), "prepend did not return the new first element (element %lu of the run)", (unsigned long)i); SEnt e = { k, u }; ins.push(e); } spliceInto(b.ref, 0, ins, true); }
    else { size_t at = (size_t)g.r.below((u64)n0 + 1); hist.addf("  position #%lu\n", (unsigned long)at); It pos = ck.iterAt(c, at);
      for (size_t i = 0; i < count; ++i) { long u = g.uid++, k = g.keyOf(u); Val v(k, u); It it = c.insert(pos, v); if (it == c.end() || (*it).uid != u) fail(key("returned-iterator"), "insert did not return the new element (element %lu of the run)", (unsigned long)i); It nx = it; ++nx; if (nx != pos) fail(key("returned-iterator"), "the element insert returned is not the one in front of the position (element %lu of the run)", (unsigned long)i); SEnt e = { k, u }; ins.push(e); }
      spliceInto(b.ref, at, ins, false); }
    if (c.size() != b.ref.n) fail(key("size"), "size() %lu, model %lu", (unsigned long)c.size(), (unsigned long)b.ref.n);
    g.note(1 + (u64)where, count); cnt("big_inserted", (long)count); if (n0 + count >= LARGE) cnt("big_inserted_large", (long)count);
  }
  void removeEvery(Box& b, size_t step, size_t offset, size_t cap) {
    C& c = *b.c; size_t n0 = b.ref.n, done = 0; if (step < 1) step = 1; offset %= step; setctx("List.remove(iterator)/large/bulk");
    hist.addf("remove every %lu-th element from #%lu on, at most %lu, through one iterator walk   [size %lu]\n", (unsigned long)step, (unsigned long)offset, (unsigned long)cap, (unsigned long)n0);
    Model out; It it = c.begin();
    for (size_t i = 0; i < n0; ++i) {
      if (it == c.end()) fail(key("iteration"), "iteration ends after %lu of %lu elements", (unsigned long)i, (unsigned long)n0);
      if (i % step == offset && done < cap) {
        if ((*it).uid != b.ref[i].uid) fail(key("iteration"), "position %lu holds #%ld, model #%ld", (unsigned long)i, (*it).uid, b.ref[i].uid);
        It nx = c.remove(it);
        if (i + 1 < n0 ? (nx == c.end() || (*nx).uid != b.ref[i + 1].uid) : nx != c.end()) fail(key("returned-iterator"), "remove did not return the successor of the removed element (original position %lu of %lu)", (unsigned long)i, (unsigned long)n0);
        it = nx; ++done;
      } else { out.push(b.ref[i]); ++it; }
    }
    b.ref.swap(out); if (c.size() != b.ref.n) fail(key("size"), "size() %lu, model %lu", (unsigned long)c.size(), (unsigned long)b.ref.n);
    if (done) g.removed = true; g.note(5, done); cnt("big_removed", (long)done); if (n0 >= LARGE) cnt("big_bulk_removals_large");
  }
  void removeEnds(Box& b, size_t count, bool front) {
    C& c = *b.c; size_t n0 = b.ref.n; if (count > n0) count = n0; setctx(front ? "List.removeFront/large/bulk" : "List.removeBack/large/bulk");
    hist.addf("%s x %lu   [size %lu]\n", front ? "removeFront" : "removeBack", (unsigned long)count, (unsigned long)n0);
    for (size_t i = 0; i < count; ++i) { It rr = front ? c.removeFront() : c.removeBack(); if (front ? rr != c.begin() : rr != c.end()) fail(key("returned-iterator"), front ? "removeFront did not return begin()" : "removeBack did not return end()"); }
    if (front) dropFront(b.ref, count); else for (size_t i = 0; i < count; ++i) b.ref.pop();
    if (c.size() != b.ref.n) fail(key("size"), "size() %lu, model %lu", (unsigned long)c.size(), (unsigned long)b.ref.n);
    if (count) g.removed = true; g.note(6, count); cnt("big_removed", (long)count); if (n0 >= LARGE) cnt("big_bulk_removals_large");
  }
  void removeValues(Box& b, int count) {
    for (int j = 0; j < count && b.ref.n; ++j) { long k = j == 1 ? -1 : b.ref[g.r.below(b.ref.n)].key; size_t at = firstKey(b.ref, k); setctxf("List.remove(value)/large/%s", at == npos ? "absent" : "present"); hist.addf("remove(value %ld)   [size %lu]\n", k, (unsigned long)b.ref.n); Val v(k, -100); b.c->remove(v); if (at != npos) { b.ref.removeAt(at); g.removed = true; cnt("big_removed"); } }
    g.note(7, (size_t)count);
  }
  void clear(Box& b) { size_t n0 = b.ref.n; setctxf("List.clear/%s", n0 >= LARGE ? "large" : n0 ? "non-empty" : "empty"); hist.addf("clear   [size %lu]\n", (unsigned long)n0); b.c->clear(); b.ref.clear(); g.note(8, n0); if (n0 >= LARGE) { cnt("big_clear_large"); if (b.nfree) cnt("big_clear_large_with_free_items"); } }
  void assign(Box& dst, Box& src) {
    size_t nd = dst.ref.n, ns = src.ref.n; setctxf("List.operator=/%s/onto-%s/from-%s", nd >= LARGE || ns >= LARGE ? "large" : "small", nd >= LARGE ? "large" : nd ? "non-empty" : "empty", ns >= LARGE ? "large" : ns ? "non-empty" : "empty");
    setItem("big_assign_classes", (const char*)ctx + 15); hist.addf("assignment: list of %lu := list of %lu\n", (unsigned long)nd, (unsigned long)ns);
    *dst.c = *src.c; dst.ref = src.ref; g.note(9, nd * 31 + ns); if (nd >= LARGE) { cnt("big_assign_onto_large"); if (dst.nfree) cnt("big_assign_onto_large_with_free_items"); } if (ns >= LARGE) cnt("big_assign_from_large");
  }
  // bring the second list into a random size class
  void prepOther(Box& o) {
    switch (g.r.below(4)) {
    case 0: hist.add("other: as it is\n"); break;
    case 1: hist.add("other: destroyed and constructed afresh\n"); setctx("List.destructor"); delete o.c; setctx("List.constructor"); o.c = new C; o.ref.clear(); o.nfree = 0; break;
    case 2: hist.add("other: cleared, a few elements\n"); clear(o); add(o, (size_t)g.r.range(0, 9), (int)g.r.below(2), "other"); break;
    default: { size_t want = g.pickSize(); hist.addf("other: brought to %lu elements\n", (unsigned long)want); if (o.ref.n > want) removeEnds(o, o.ref.n - want, g.r.chance(1, 2)); else if (o.ref.n < want) add(o, want - o.ref.n, (int)g.r.below(3), "other"); break; }
    }
    check(o);
  }
  void build(Box& b, size_t N) {
    switch (g.r.below(6)) {
    case 0: hist.add("build: appends only\n"); add(b, N, 0, "build"); break;
    case 1: hist.add("build: runs of append / prepend / insert before a position\n"); while (b.ref.n < N) { size_t left = N - b.ref.n, ch = (size_t)g.r.range(1, (long)(N / 3 + 1)); add(b, ch < left ? ch : left, (int)g.r.below(3), "build"); } break;
    case 2: { size_t extra = (size_t)g.r.range(1, 9); hist.addf("build: %lu more than the target, then the surplus removed\n", (unsigned long)extra); add(b, N + extra, 0, "build"); if (g.r.chance(1, 2)) removeEnds(b, extra, g.r.chance(1, 2)); else removeEvery(b, (N + extra) / extra, g.r.below(7), extra); if (b.ref.n > N) removeEnds(b, b.ref.n - N, false); break; }
    case 3: hist.add("build: grown and thinned out alternately\n"); for (int round = 0; round < 6 && b.ref.n < N; ++round) { size_t left = N - b.ref.n, ch = (size_t)g.r.range(1, (long)(N / 2 + 1)); add(b, ch < left ? ch : left, (int)g.r.below(3), "build"); if (b.ref.n < N && b.ref.n > 8) removeEvery(b, (size_t)g.r.range(2, 9), g.r.below(9), b.ref.n / 4); } if (b.ref.n < N) add(b, N - b.ref.n, (int)g.r.below(3), "build"); break;
    case 4: { hist.add("build: copy of a temporary list\n"); Box t; setctx("List.constructor"); t.c = new C; add(t, N, 0, "build"); check(t); setctx("List.destructor"); delete b.c; setctx("List.copy-construct/large"); hist.add("copy-construct\n"); b.c = new C(*t.c); b.ref = t.ref; check(b); setctx("List.destructor"); delete t.c; cnt("big_copy_large"); break; }
    default: { hist.add("build: assignment of a temporary list onto a small one\n"); Box t; setctx("List.constructor"); t.c = new C; add(t, N, (int)g.r.below(2), "build"); add(b, (size_t)g.r.range(0, 9), 0, "build"); check(b); assign(b, t); check(b); check(t); setctx("List.destructor"); delete t.c; break; }
    }
    if (b.ref.n != N) harnessBug("big List build reached %lu instead of %lu", (unsigned long)b.ref.n, (unsigned long)N);
  }
  void insertList(Box& b, Box& o) {
    int how = (int)g.r.below(3); size_t n0 = b.ref.n, at = how == 0 ? n0 : how == 1 ? 0 : (size_t)g.r.below((u64)n0 + 1); C& c = *b.c;
    setctxf("List.%s(list)/large/%s", how == 0 ? "append" : how == 1 ? "prepend" : "insert", o.ref.n ? "non-empty" : "empty");
    hist.addf("%s(other list of %lu) at #%lu   [size %lu]\n", how == 0 ? "append" : how == 1 ? "prepend" : "insert", (unsigned long)o.ref.n, (unsigned long)at, (unsigned long)n0);
    if (how == 0) c.append(*o.c); else if (how == 1) c.prepend(*o.c);
    else { It pos = ck.iterAt(c, at); It rr = c.insert(pos, *o.c); size_t ri = ck.indexOf(c, rr, n0 + o.ref.n); if (ri != at) fail(key("returned-iterator"), "insert(list) returned the iterator at position %ld, expected %lu (first inserted element, or the position itself for an empty list)", (long)ri, (unsigned long)at); }
    spliceInto(b.ref, at, o.ref, false); g.note(10 + (u64)how, o.ref.n); cnt("big_insert_list"); cnt("op_insert_list");
  }
  void sortLarge(Box& b) {
    C& c = *b.c; setctx("List.sort/large"); hist.addf("sort   [%lu elements]\n", (unsigned long)b.ref.n);
    Model before(b.ref); cpuBudget(120, "List.sort/nonterminating"); long lt0 = g_lt; c.sort(); cnt("sort_comparisons", g_lt - lt0); cpuBudget(0, 0);
    if (c.size() != before.n) fail(key("size"), "size() %lu after sort, was %lu", (unsigned long)c.size(), (unsigned long)before.n);
    Model after; size_t i = 0;
    for (It it = c.begin(), e = c.end(); it != e; ++it, ++i) { if (i >= before.n) fail(key("iteration"), "iteration after sort yields more than %lu elements", (unsigned long)before.n); SEnt en = { (*it).key, (*it).uid }; if ((*it).guard.id != en.uid) fail(key("element"), "element #%ld carries guard #%ld after sort (half-copied value)", en.uid, (*it).guard.id); after.push(en); }
    if (after.n != before.n) fail(key("iteration"), "iteration after sort yields %lu elements, before %lu", (unsigned long)after.n, (unsigned long)before.n);
    for (size_t j = 1; j < after.n; ++j) if (after[j].key < after[j - 1].key) fail(key("order"), "not ascending after sort: position %lu holds %ld, position %lu holds %ld", (unsigned long)(j - 1), after[j - 1].key, (unsigned long)j, after[j].key);
    Model s(after); if (before.n > 1) { qsort(before.d, before.n, sizeof(SEnt), cmpEnt); qsort(s.d, s.n, sizeof(SEnt), cmpEnt); }
    for (size_t j = 0; j < s.n; ++j) if (s[j].key != before[j].key || s[j].uid != before[j].uid) fail(key("permutation"), "the elements after sort are not the elements before: (%ld,#%ld) vs (%ld,#%ld) at rank %lu of the (key, id) order: an element was lost or duplicated", s[j].key, s[j].uid, before[j].key, before[j].uid, (unsigned long)j);
    b.ref.swap(after); sorted = true; g.note(13, before.n); cnt("op_sort"); cnt("sorted_elements", (long)before.n); cnt("big_sort");
  }
};

static void bigListCase(ListCk& ck, Rng& r, long maxN) {
  typedef BigList::Box Box; typedef BigList::C C;
  BigGen g(r, maxN); BigList L(ck, g);
  Box A, B; setctx("List.constructor"); A.c = new C; B.c = new C;
  size_t N = g.pickSize(); setItem("big_size_classes", g.sizeCls);
  hist.addf("# big List: target size %lu (%s), keys below %ld\n", (unsigned long)N, g.sizeCls, g.U);
  L.check(A); L.check(B); L.build(A, N); L.check(A);
  int nph = (int)r.range(5, 9);
  for (int ph = 0; ph < nph; ++ph) {
    Box& m = A; Box& o = B;
    if (m.ref.n < LARGE) { size_t want = g.pickSize(); hist.addf("regrow to %lu\n", (unsigned long)want); L.add(m, want - m.ref.n, (int)r.below(3), "regrow"); L.check(m); }
    size_t n = m.ref.n; int kind = (int)r.below(11); setItem("big_phase_kinds_list", kind == 0 ? "clear+refill" : kind == 1 ? "assign-onto" : kind == 2 ? "assign-from" : kind == 3 ? "copy-construct" : kind == 4 ? "swap" : kind == 5 ? "remove-every-kth" : kind == 6 ? "remove-ends" : kind == 7 ? "insert" : kind == 8 ? "insert-list" : kind == 9 ? "sort" : "remove-value");
    switch (kind) {
    case 0: L.clear(m); L.check(m); L.add(m, g.fewOrMany(n), (int)r.below(3), "after-clear"); cnt("big_refill_after_clear"); break;
    case 1: L.prepOther(o); L.assign(m, o); L.check(m); L.check(o); L.add(m, g.fewOrMany(m.ref.n), (int)r.below(3), "after-assign"); if (r.chance(1, 2)) { L.check(m); L.removeEnds(o, (size_t)r.range(0, 3), true); L.add(o, (size_t)r.range(1, 5), 0, "after-assign"); } break;
    case 2: L.prepOther(o); L.assign(o, m); L.check(o); L.check(m); L.add(o, g.fewOrMany(o.ref.n), (int)r.below(3), "after-assign"); if (r.chance(1, 2)) L.removeEvery(o, (size_t)r.range(2, 7), 0, o.ref.n); break;
    case 3: { setctx("List.copy-construct/large"); hist.addf("copy-construct from a list of %lu; mutate the copy; destroy it\n", (unsigned long)n); Box cp; cp.c = new C(*m.c); cp.ref = m.ref; L.check(cp); ck.equality(cp, m); cnt("big_copy_large");
        if (r.chance(1, 2)) { L.clear(cp); L.check(cp); } else L.removeEvery(cp, (size_t)r.range(2, 5), 0, cp.ref.n);
        L.add(cp, g.fewOrMany(cp.ref.n), (int)r.below(3), "after-copy"); L.check(cp); L.check(m); setctx("List.destructor"); delete cp.c; break; }
    case 4: { L.prepOther(o); setctxf("List.swap/large/%s", o.ref.n >= LARGE ? "with-large" : o.ref.n ? "with-nonempty" : "with-empty"); setItem("big_swap_classes", (const char*)ctx + 16); hist.addf("swap(other)  [sizes %lu/%lu]\n", (unsigned long)n, (unsigned long)o.ref.n);
        m.c->swap(*o.c); m.ref.swap(o.ref); { size_t t = m.nfree; m.nfree = o.nfree; o.nfree = t; } cnt("big_swap_large"); cnt("op_swap"); L.check(m); L.check(o);
        L.add(m, (size_t)r.range(1, 9), (int)r.below(3), "after-swap"); L.add(o, (size_t)r.range(1, 9), (int)r.below(3), "after-swap"); L.removeEnds(m, (size_t)r.range(0, 3), r.chance(1, 2)); L.removeEnds(o, (size_t)r.range(0, 3), r.chance(1, 2));
        if (m.ref.n < o.ref.n && r.chance(2, 3)) { L.check(m); L.check(o); hist.add("swap back\n"); setctx("List.swap/large/back"); m.c->swap(*o.c); m.ref.swap(o.ref); { size_t t = m.nfree; m.nfree = o.nfree; o.nfree = t; } cnt("op_swap"); } break; }
    case 5: { size_t step = r.chance(1, 4) ? n / 7 + 1 : (size_t)r.range(1, 7); size_t cap = r.chance(1, 3) ? (size_t)r.range(1, 12) : r.chance(1, 2) ? n / 2 : n; L.removeEvery(m, step, (size_t)r.below(step), cap); L.check(m); L.add(m, g.fewOrMany(n - m.ref.n), (int)r.below(3), "after-removal"); break; }
    case 6: { size_t c2; switch (r.below(5)) { case 0: c2 = n; break; case 1: c2 = n - 1; break; case 2: c2 = n / 2; break; default: c2 = (size_t)r.range(1, 9); break; } L.removeEnds(m, c2, r.chance(1, 2)); L.check(m); L.add(m, g.fewOrMany(c2), (int)r.below(3), "after-removal"); break; }
    case 7: if (n <= (size_t)maxN) L.add(m, g.fewOrMany(n), (int)r.below(3), "growth"); break;
    case 8: L.prepOther(o); if (n + o.ref.n <= 2 * (size_t)maxN + 16) L.insertList(m, o); break;
    case 9: if (g.distinctKeys() && !L.sorted) L.sortLarge(m); else L.removeValues(m, 2); break;
    default: L.removeValues(m, (int)r.range(1, 4)); break;
    }
    L.check(A); L.check(B); ck.equality(A, B); cnt("ops"); cnt("big_phases");
  }
  setctx("List.destructor"); hist.add("destroy both\n"); delete A.c; delete B.c;
  setctx("List/case-end"); ElemReg::checkBalanced("List");
  statMax("max_size", (long)g.maxn); statMax("big_max_size_list", (long)g.maxn);
  endCase(g.fp, g.maxn >= LARGE && g.removed);
}

// ---------------------------------------------------------------- big Array
// Array::reserve may reallocate on every few single appends (no growth factor is promised), so long runs of single appends are only made inside the
// reserved capacity; beyond it elements arrive as one block, one resize or one append(Array): a bounded number of whole-array relocations per phase.
struct BigArray {
  typedef ArrayCk::Box Box; typedef ArrayCk::C C; typedef ArrayCk::It It;
  ArrayCk& ck; BigGen& g;
  BigArray(ArrayCk& c, BigGen& gg) : ck(c), g(gg) {}
  void check(Box& b) {
    ck.contents(b); ck.findsFew(b);
    g.seen(b.ref.n); cnt("big_checks"); cnt("big_elements_checked", (long)b.ref.n); if (b.ref.n >= LARGE) cnt("big_checks_large");
#ifndef VERIF_NO_PRIVATE
    ++g_walks;
#endif
  }
  void addSingles(Box& b, size_t count, const char* why) {
    C& c = *b.c; size_t n0 = b.ref.n; setctxf("Array.append/large/%s", why);
    hist.addf("append x %lu  (#%ld.., key = mix(salt, uid) %% %ld; %s)   [size %lu capacity %lu]\n", (unsigned long)count, g.uid, g.U, why, (unsigned long)n0, (unsigned long)c.capacity());
    for (size_t i = 0; i < count; ++i) { long u = g.uid++, k = g.keyOf(u); Val v(k, u); Val& rr = c.append(v); if (&rr != &c.back() || rr.uid != u) fail(key("returned-reference"), "append did not return the new last element (element %lu of the run)", (unsigned long)i); SEnt e = { k, u }; b.ref.push(e); }
    if (c.size() != b.ref.n) fail(key("size"), "size() %lu, model %lu", (unsigned long)c.size(), (unsigned long)b.ref.n);
    g.note(21, count); cnt("big_inserted", (long)count); if (n0 + count >= LARGE) cnt("big_inserted_large", (long)count);
  }
  void addBlock(Box& b, size_t count, const char* why) {
    C& c = *b.c; size_t n0 = b.ref.n; bool grow = n0 + count > c.capacity() || (!ArrayCk::allocated(c) && count); setctxf("Array.append(T*,n)/large/%s/%s", grow ? "growing" : "in-place", why);
    hist.addf("append(block of %lu)  (#%ld.., %s)   [size %lu capacity %lu]\n", (unsigned long)count, g.uid, why, (unsigned long)n0, (unsigned long)c.capacity()); if (grow) cnt("growths");
    Val* blk = (Val*)malloc(count * sizeof(Val) + (count ? 0 : 1));   // exactly-sized: any over-read is an ASan report
    for (size_t i = 0; i < count; ++i) { long u = g.uid++, k = g.keyOf(u); new ((void*)&blk[i]) Val(k, u); SEnt e = { k, u }; b.ref.push(e); }
    c.append(blk, count);
    for (size_t i = 0; i < count; ++i) blk[i].~Val();
    free(blk); g.note(22, count); cnt("op_append_block"); cnt("big_inserted", (long)count); if (n0 + count >= LARGE) cnt("big_inserted_large", (long)count);
  }
  void add(Box& b, size_t count, const char* why) {
    size_t lim = 2 * (size_t)g.maxN + 16; if (b.ref.n >= lim) count %= 10; else if (b.ref.n + count > lim) count = lim - b.ref.n;
    if (count <= 10) { for (size_t i = 0; i < count; ++i) { long u = g.uid++; ck.opAppend(b, g.keyOf(u), u); } g.note(20, count); }   // at most a few relocations
    else if (b.ref.n + count <= b.c->capacity() && ArrayCk::allocated(*b.c) && g.r.chance(1, 2)) addSingles(b, count, why);
    else addBlock(b, count, why);
  }
  void removeBackN(Box& b, size_t count) {
    C& c = *b.c; size_t n0 = b.ref.n; if (count > n0) count = n0; setctx("Array.removeBack/large/bulk"); hist.addf("removeBack x %lu   [size %lu]\n", (unsigned long)count, (unsigned long)n0);
    for (size_t i = 0; i < count; ++i) { It rr = c.removeBack(); b.ref.pop(); if (rr != c.end()) fail(key("returned-iterator"), "removeBack did not return end()"); }
    if (c.size() != b.ref.n) fail(key("size"), "size() %lu, model %lu", (unsigned long)c.size(), (unsigned long)b.ref.n);
    if (count) g.removed = true; g.note(23, count); cnt("big_removed", (long)count); if (n0 >= LARGE) cnt("big_bulk_removals_large");
  }
  void removeFew(Box& b, int count) {   // each one shifts the tail: O(size)
    for (int j = 0; j < count; ++j) {
      size_t n = b.ref.n;
      switch (g.r.below(7)) {
      case 0: ck.opRemoveIndex(b, 0); break; case 1: ck.opRemoveIndex(b, n ? n - 1 : 0); break; case 2: ck.opRemoveIndex(b, n + g.r.below(3)); break; case 3: ck.opRemoveIndex(b, n ? (size_t)g.r.below(n) : 0); break;
      case 4: if (n) ck.opRemoveIt(b, (size_t)g.r.below(n)); break; case 5: if (n) ck.opRemoveEnd(b, true); break; default: if (n) ck.opRemoveIt(b, n - 1); break;
      }
      if (b.ref.n < n) { g.removed = true; cnt("big_removed"); }
    }
    g.note(24, (size_t)count);
  }
  void clear(Box& b) { size_t n0 = b.ref.n; setctxf("Array.clear/%s", n0 >= LARGE ? "large" : n0 ? "non-empty" : ArrayCk::allocated(*b.c) ? "empty" : "unallocated"); hist.addf("clear   [size %lu capacity %lu]\n", (unsigned long)n0, (unsigned long)b.c->capacity()); b.c->clear(); b.ref.clear(); g.note(25, n0); if (n0 >= LARGE) cnt("big_clear_large"); }
  void assign(Box& dst, Box& src) {
    size_t nd = dst.ref.n, ns = src.ref.n; setctxf("Array.operator=/%s/onto-%s/from-%s", nd >= LARGE || ns >= LARGE ? "large" : "small", !ArrayCk::allocated(*dst.c) ? "unallocated" : nd >= LARGE ? "large" : nd ? "non-empty" : "empty", !ArrayCk::allocated(*src.c) ? "unallocated" : ns >= LARGE ? "large" : ns ? "non-empty" : "empty");
    setItem("big_assign_classes", (const char*)ctx + 16); hist.addf("assignment: array of %lu (capacity %lu) := array of %lu (capacity %lu)\n", (unsigned long)nd, (unsigned long)dst.c->capacity(), (unsigned long)ns, (unsigned long)src.c->capacity());
    *dst.c = *src.c; dst.ref = src.ref; g.note(26, nd * 31 + ns); if (nd >= LARGE) cnt("big_assign_onto_large"); if (ns >= LARGE) cnt("big_assign_from_large");
  }
  void fresh(Box& o) { setctx("Array.destructor"); delete o.c; setctx("Array.constructor"); if (g.r.chance(1, 2)) { hist.add("new Array()\n"); o.c = new C; o.minCap = 0; } else { usize cap = (usize)(g.r.chance(1, 2) ? g.r.below(21) : g.pickSize()); hist.addf("new Array(%lu)\n", (unsigned long)cap); o.c = new C(cap); o.minCap = cap; if (o.c->capacity() < cap) fail("Array.constructor/capacity", "Array(%lu) reports capacity() %lu", (unsigned long)cap, (unsigned long)o.c->capacity()); } o.ref.clear(); }
  void prepOther(Box& o) {
    switch (g.r.below(4)) {
    case 0: hist.add("other: as it is\n"); break;
    case 1: hist.add("other: destroyed and constructed afresh: "); fresh(o); break;
    case 2: hist.add("other: cleared, a few elements\n"); clear(o); add(o, (size_t)g.r.range(0, 9), "other"); break;
    default: { size_t want = g.pickSize(); hist.addf("other: brought to %lu elements\n", (unsigned long)want); if (o.ref.n > want) removeBackN(o, o.ref.n - want); else if (o.ref.n < want) add(o, want - o.ref.n, "other"); break; }
    }
    check(o);
  }
  void build(Box& b, size_t N) {
    switch (g.r.below(7)) {
    case 0: hist.addf("build: Array(%lu), single appends\n", (unsigned long)N); setctx("Array.destructor"); delete b.c; setctx("Array.constructor"); b.c = new C((usize)N); b.minCap = N; addSingles(b, N, "build"); break;
    case 1: hist.add("build: reserve, one block\n"); ck.opReserve(b, (usize)N); addBlock(b, N, "build"); break;
    case 2: { hist.add("build: resize with a value\n"); long u = g.uid++; ck.opResize(b, N, false, g.keyOf(u), u); break; }
    case 3: { int chunks = (int)g.r.range(2, 6); hist.addf("build: %d blocks\n", chunks); for (int i = 0; i < chunks; ++i) { size_t left = N - b.ref.n, ch = i + 1 == chunks ? left : (size_t)g.r.range(0, (long)left); addBlock(b, ch, "build"); } break; }
    case 4: { hist.add("build: copy of a temporary array\n"); Box t; setctx("Array.constructor"); t.c = new C((usize)(g.r.chance(1, 2) ? N : N + (size_t)g.r.range(1, 40))); t.minCap = 0; addSingles(t, N, "build"); check(t); setctx("Array.destructor"); delete b.c; setctx("Array.copy-construct/large"); hist.add("copy-construct\n"); b.c = new C(*t.c); b.ref = t.ref; b.minCap = 0; check(b); setctx("Array.destructor"); delete t.c; cnt("big_copy_large"); break; }
    case 5: { hist.add("build: assignment of a temporary array onto a small one\n"); Box t; setctx("Array.constructor"); t.c = new C; addBlock(t, N, "build"); add(b, (size_t)g.r.range(0, 9), "build"); check(b); assign(b, t); check(b); check(t); setctx("Array.destructor"); delete t.c; break; }
    default: { size_t below = (size_t)g.r.range(1, 9); hist.addf("build: Array(%lu), single appends across the capacity up to %lu\n", (unsigned long)(N - below), (unsigned long)N); setctx("Array.destructor"); delete b.c; setctx("Array.constructor"); b.c = new C((usize)(N - below)); b.minCap = N - below; addSingles(b, N - below, "build"); check(b); for (size_t i = 0; i < below; ++i) { long u = g.uid++; ck.opAppend(b, g.keyOf(u), u); } break; }
    }
    if (b.ref.n != N) harnessBug("big Array build reached %lu instead of %lu", (unsigned long)b.ref.n, (unsigned long)N);
  }
};

static void bigArrayCase(ArrayCk& ck, Rng& r, long maxN) {
  typedef BigArray::Box Box; typedef BigArray::C C;
  BigGen g(r, maxN); BigArray L(ck, g);
  Box A, B; setctx("Array.constructor"); A.c = new C; B.c = new C;
  size_t N = g.pickSize(); setItem("big_size_classes", g.sizeCls);
  hist.addf("# big Array: target size %lu (%s), keys below %ld\n", (unsigned long)N, g.sizeCls, g.U);
  L.check(A); L.check(B); L.build(A, N); L.check(A);
  int nph = (int)r.range(5, 9);
  for (int ph = 0; ph < nph; ++ph) {
    Box& m = A; Box& o = B;
    if (m.ref.n < LARGE) { size_t want = g.pickSize(); hist.addf("regrow to %lu\n", (unsigned long)want); L.add(m, want - m.ref.n, "regrow"); L.check(m); }
    size_t n = m.ref.n; usize cap = m.c->capacity(); int kind = (int)r.below(11); setItem("big_phase_kinds_array", kind == 0 ? "clear+refill" : kind == 1 ? "assign-onto" : kind == 2 ? "assign-from" : kind == 3 ? "copy-construct" : kind == 4 ? "swap" : kind == 5 ? "remove-few" : kind == 6 ? "remove-back-bulk" : kind == 7 ? "resize" : kind == 8 ? "reserve" : kind == 9 ? "append-array" : "append");
    switch (kind) {
    case 0: L.clear(m); L.check(m); L.add(m, g.fewOrMany(n), "after-clear"); cnt("big_refill_after_clear"); break;
    case 1: L.prepOther(o); L.assign(m, o); L.check(m); L.check(o); L.add(m, g.fewOrMany(m.ref.n), "after-assign"); if (r.chance(1, 2)) { L.check(m); L.removeFew(o, (int)r.range(0, 2)); L.add(o, (size_t)r.range(1, 5), "after-assign"); } break;
    case 2: L.prepOther(o); L.assign(o, m); L.check(o); L.check(m); L.add(o, g.fewOrMany(o.ref.n), "after-assign"); if (r.chance(1, 2)) L.removeBackN(o, o.ref.n / (size_t)r.range(1, 4)); break;
    case 3: { setctx("Array.copy-construct/large"); hist.addf("copy-construct from an array of %lu (capacity %lu); mutate the copy; destroy it\n", (unsigned long)n, (unsigned long)cap); Box cp; cp.c = new C(*m.c); cp.ref = m.ref; cp.minCap = 0; L.check(cp); cnt("big_copy_large");
        if (r.chance(1, 2)) { L.clear(cp); L.check(cp); } else L.removeBackN(cp, cp.ref.n / (size_t)r.range(1, 3));
        L.add(cp, g.fewOrMany(cp.ref.n), "after-copy"); L.check(cp); L.check(m); setctx("Array.destructor"); delete cp.c; break; }
    case 4: { L.prepOther(o); setctxf("Array.swap/large/%s", !ArrayCk::allocated(*o.c) ? "with-unallocated" : o.ref.n >= LARGE ? "with-large" : o.ref.n ? "with-nonempty" : "with-empty"); setItem("big_swap_classes", (const char*)ctx + 17); hist.addf("swap(other)  [sizes %lu/%lu]\n", (unsigned long)n, (unsigned long)o.ref.n);
        m.c->swap(*o.c); m.ref.swap(o.ref); { usize t = m.minCap; m.minCap = o.minCap; o.minCap = t; } cnt("big_swap_large"); cnt("op_swap"); L.check(m); L.check(o);
        L.add(m, (size_t)r.range(1, 9), "after-swap"); L.add(o, (size_t)r.range(1, 9), "after-swap"); L.removeFew(m, (int)r.range(0, 2)); L.removeFew(o, (int)r.range(0, 2));
        if (m.ref.n < o.ref.n && r.chance(2, 3)) { L.check(m); L.check(o); hist.add("swap back\n"); setctx("Array.swap/large/back"); m.c->swap(*o.c); m.ref.swap(o.ref); { usize t = m.minCap; m.minCap = o.minCap; o.minCap = t; } cnt("op_swap"); } break; }
    case 5: L.removeFew(m, (int)r.range(1, 6)); L.check(m); L.add(m, (size_t)r.range(1, 9), "after-removal"); break;
    case 6: { size_t c2; switch (r.below(5)) { case 0: c2 = n; break; case 1: c2 = n - 1; break; case 2: c2 = n / 2; break; default: c2 = (size_t)r.range(1, 9); break; } L.removeBackN(m, c2); L.check(m); L.add(m, g.fewOrMany(c2), "after-removal"); break; }
    case 7: { size_t want; switch (r.below(9)) { case 0: want = 0; break; case 1: want = 1; break; case 2: want = n / 2; break; case 3: want = n - 1; break; case 4: want = n; break; case 5: want = n + 1; break; case 6: want = cap; break; case 7: want = cap + 1; break; default: want = n + n / 2; break; }
        if (want > 2 * (size_t)maxN + 16) want = n; long u = g.uid++; ck.opResize(m, want, r.chance(1, 3), g.keyOf(u), u); if (want < n) g.removed = true; cnt("big_resize_large"); g.note(27, want); L.check(m); L.add(m, (size_t)r.range(1, 9), "after-resize"); break; }
    case 8: { usize want; switch (r.below(6)) { case 0: want = cap; break; case 1: want = cap + 1; break; case 2: want = cap ? cap - 1 : 0; break; case 3: want = 0; break; case 4: want = (usize)(2 * n); break; default: want = (usize)g.pickSize(); break; } ck.opReserve(m, want); cnt("big_reserve_large"); g.note(28, want); L.check(m); L.add(m, (size_t)r.range(1, 9), "after-reserve"); break; }
    case 9: L.prepOther(o); if (n + o.ref.n <= 2 * (size_t)maxN + 16) { ck.opAppendArray(m, o); cnt("big_append_array"); g.note(29, o.ref.n); } break;
    default: if (n <= (size_t)maxN) L.add(m, g.fewOrMany(n), "growth"); break;
    }
    L.check(A); L.check(B); cnt("ops"); cnt("big_phases");
  }
  setctx("Array.destructor"); hist.add("destroy both\n"); delete A.c; delete B.c;
  setctx("Array/case-end"); ElemReg::checkBalanced("Array");
  statMax("max_size", (long)g.maxn); statMax("big_max_size_array", (long)g.maxn);
  endCase(g.fp, g.maxn >= LARGE && g.removed);
}

// ---------------------------------------------------------------- big PoolList
struct BigPool {
  typedef PoolCk::Box Box; typedef PoolCk::C C; typedef PoolCk::It It;
  PoolCk& ck; BigGen& g;
  BigPool(PoolCk& c, BigGen& gg) : ck(c), g(gg) {}
  void check(Box& b) { ck.all(b); g.seen(b.ref.n); cnt("big_checks"); cnt("big_elements_checked", (long)b.ref.n); if (b.ref.n >= LARGE) cnt("big_checks_large"); }
  void add(Box& b, size_t count, const char* why) {
    C& c = *b.c; size_t n0 = b.ref.n; size_t lim = 2 * (size_t)g.maxN + 16; if (n0 >= lim) count %= 10; else if (n0 + count > lim) count = lim - n0;
    setctxf("PoolList.append/large/%s", why); hist.addf("append x %lu  (#%ld.., #u built from u %% 8 arguments; %s)   [size %lu]\n", (unsigned long)count, g.uid, why, (unsigned long)n0);
    for (size_t i = 0; i < count; ++i) { long u = g.uid++; int na = (int)(u % 8); PT* p = PoolCk::construct(c, na, u); if (na == 0) { if (p->uid != -1 || p->nargs != 0) fail(key("returned-reference"), "append() did not return a default constructed element"); p->uid = u; } PEnt e = { u, na }; b.ref.push(e); if (p->uid != u) fail(key("returned-reference"), "append returned element #%ld instead of the new #%ld", p->uid, u); }
    if (c.size() != b.ref.n) fail(key("size"), "size() %lu, model %lu", (unsigned long)c.size(), (unsigned long)b.ref.n);
    if (count) { It last = c.end(); --last; if ((*last).uid != b.ref[b.ref.n - 1].uid) fail(key("returned-reference"), "the last element is not the one appended last"); }
    g.note(41, count); cnt("big_inserted", (long)count); if (n0 + count >= LARGE) cnt("big_inserted_large", (long)count);
  }
  void removeEvery(Box& b, size_t step, size_t offset, size_t cap, bool byRef) {
    C& c = *b.c; size_t n0 = b.ref.n, done = 0; if (step < 1) step = 1; offset %= step; setctx(byRef ? "PoolList.remove(element)/large/bulk" : "PoolList.remove(iterator)/large/bulk");
    hist.addf("remove every %lu-th element from #%lu on, at most %lu, %s, through one iterator walk   [size %lu]\n", (unsigned long)step, (unsigned long)offset, (unsigned long)cap, byRef ? "by element reference" : "by iterator", (unsigned long)n0);
    Vec<PEnt> out; It it = c.begin();
    for (size_t i = 0; i < n0; ++i) {
      if (it == c.end()) fail(key("iteration"), "iteration ends after %lu of %lu elements", (unsigned long)i, (unsigned long)n0);
      if (i % step == offset && done < cap) {
        if ((*it).uid != b.ref[i].uid) fail(key("iteration"), "position %lu holds #%ld, model #%ld", (unsigned long)i, (*it).uid, b.ref[i].uid);
        if (byRef) { It nx = it; ++nx; PT& e = *it; c.remove(e); it = nx; }
        else { It nx = c.remove(it); if (i + 1 < n0 ? (nx == c.end() || (*nx).uid != b.ref[i + 1].uid) : nx != c.end()) fail(key("returned-iterator"), "remove did not return the successor of the removed element (original position %lu of %lu)", (unsigned long)i, (unsigned long)n0); it = nx; }
        ++done;
      } else { out.push(b.ref[i]); ++it; }
    }
    b.ref.swap(out); if (c.size() != b.ref.n) fail(key("size"), "size() %lu, model %lu", (unsigned long)c.size(), (unsigned long)b.ref.n);
    if (done) g.removed = true; g.note(42 + (u64)byRef, done); cnt("big_removed", (long)done); if (n0 >= LARGE) cnt("big_bulk_removals_large");
  }
  void removeEnds(Box& b, size_t count, bool front) {
    C& c = *b.c; size_t n0 = b.ref.n; if (count > n0) count = n0; setctx(front ? "PoolList.removeFront/large/bulk" : "PoolList.removeBack/large/bulk");
    hist.addf("%s x %lu   [size %lu]\n", front ? "removeFront" : "removeBack", (unsigned long)count, (unsigned long)n0);
    for (size_t i = 0; i < count; ++i) { It rr = front ? c.removeFront() : c.removeBack(); if (front ? rr != c.begin() : rr != c.end()) fail(key("returned-iterator"), front ? "removeFront did not return begin()" : "removeBack did not return end()"); }
    if (front) dropFront(b.ref, count); else for (size_t i = 0; i < count; ++i) b.ref.pop();
    if (c.size() != b.ref.n) fail(key("size"), "size() %lu, model %lu", (unsigned long)c.size(), (unsigned long)b.ref.n);
    if (count) g.removed = true; g.note(44, count); cnt("big_removed", (long)count); if (n0 >= LARGE) cnt("big_bulk_removals_large");
  }
  void clear(Box& b) { size_t n0 = b.ref.n; setctxf("PoolList.clear/%s", n0 >= LARGE ? "large" : n0 ? "non-empty" : "empty"); hist.addf("clear   [size %lu]\n", (unsigned long)n0); b.c->clear(); b.ref.clear(); g.note(45, n0); if (n0 >= LARGE) { cnt("big_clear_large"); if (b.nfree) cnt("big_clear_large_with_free_items"); } }
  void prepOther(Box& o) {
    switch (g.r.below(4)) {
    case 0: hist.add("other: as it is\n"); break;
    case 1: hist.add("other: destroyed and constructed afresh\n"); setctx("PoolList.destructor"); delete o.c; setctx("PoolList.constructor"); o.c = new C; o.ref.clear(); o.nfree = 0; break;
    case 2: hist.add("other: cleared, a few elements\n"); clear(o); add(o, (size_t)g.r.range(0, 9), "other"); break;
    default: { size_t want = g.pickSize(); hist.addf("other: brought to %lu elements\n", (unsigned long)want); if (o.ref.n > want) removeEnds(o, o.ref.n - want, g.r.chance(1, 2)); else if (o.ref.n < want) add(o, want - o.ref.n, "other"); break; }
    }
    check(o);
  }
  void build(Box& b, size_t N) {
    switch (g.r.below(3)) {
    case 0: hist.add("build: appends only\n"); add(b, N, "build"); break;
    case 1: { size_t extra = (size_t)g.r.range(1, 9); hist.addf("build: %lu more than the target, then the surplus removed\n", (unsigned long)extra); add(b, N + extra, "build"); if (g.r.chance(1, 2)) removeEnds(b, extra, g.r.chance(1, 2)); else removeEvery(b, (N + extra) / extra, g.r.below(7), extra, g.r.chance(1, 2)); if (b.ref.n > N) removeEnds(b, b.ref.n - N, false); break; }
    default: hist.add("build: grown and thinned out alternately\n"); for (int round = 0; round < 6 && b.ref.n < N; ++round) { size_t left = N - b.ref.n, ch = (size_t)g.r.range(1, (long)(N / 2 + 1)); add(b, ch < left ? ch : left, "build"); if (b.ref.n < N && b.ref.n > 8) removeEvery(b, (size_t)g.r.range(2, 9), g.r.below(9), b.ref.n / 4, g.r.chance(1, 2)); } if (b.ref.n < N) add(b, N - b.ref.n, "build"); break;
    }
    if (b.ref.n != N) harnessBug("big PoolList build reached %lu instead of %lu", (unsigned long)b.ref.n, (unsigned long)N);
  }
};

static void bigPoolCase(PoolCk& ck, Rng& r, long maxN) {
  typedef BigPool::Box Box; typedef BigPool::C C;
  BigGen g(r, maxN); BigPool L(ck, g);
  Box A, B; setctx("PoolList.constructor"); A.c = new C; B.c = new C;
  size_t N = g.pickSize(); setItem("big_size_classes", g.sizeCls);
  hist.addf("# big PoolList: target size %lu (%s)\n", (unsigned long)N, g.sizeCls);
  L.check(A); L.check(B); L.build(A, N); L.check(A);
  int nph = (int)r.range(5, 9);
  for (int ph = 0; ph < nph; ++ph) {
    Box& m = A; Box& o = B;
    if (m.ref.n < LARGE) { size_t want = g.pickSize(); hist.addf("regrow to %lu\n", (unsigned long)want); L.add(m, want - m.ref.n, "regrow"); L.check(m); }
    size_t n = m.ref.n; int kind = (int)r.below(6); setItem("big_phase_kinds_plist", kind == 0 || kind == 1 ? "clear+refill" : kind == 2 ? "swap" : kind == 3 ? "remove-every-kth" : kind == 4 ? "remove-ends" : "append");
    switch (kind) {
    case 0: case 1: L.clear(m); L.check(m); L.add(m, g.fewOrMany(n), "after-clear"); cnt("big_refill_after_clear"); break;
    case 2: { L.prepOther(o); setctxf("PoolList.swap/large/%s", o.ref.n >= LARGE ? "with-large" : o.ref.n ? "with-nonempty" : "with-empty"); setItem("big_swap_classes", (const char*)ctx + 20); hist.addf("swap(other)  [sizes %lu/%lu]\n", (unsigned long)n, (unsigned long)o.ref.n);
        m.c->swap(*o.c); m.ref.swap(o.ref); { size_t t = m.nfree; m.nfree = o.nfree; o.nfree = t; } cnt("big_swap_large"); cnt("op_swap"); L.check(m); L.check(o);
        L.add(m, (size_t)r.range(1, 9), "after-swap"); L.add(o, (size_t)r.range(1, 9), "after-swap"); L.removeEnds(m, (size_t)r.range(0, 3), r.chance(1, 2)); L.removeEnds(o, (size_t)r.range(0, 3), r.chance(1, 2));
        if (m.ref.n < o.ref.n && r.chance(2, 3)) { L.check(m); L.check(o); hist.add("swap back\n"); setctx("PoolList.swap/large/back"); m.c->swap(*o.c); m.ref.swap(o.ref); { size_t t = m.nfree; m.nfree = o.nfree; o.nfree = t; } cnt("op_swap"); } break; }
    case 3: { size_t step = r.chance(1, 4) ? n / 7 + 1 : (size_t)r.range(1, 7); size_t cap = r.chance(1, 3) ? (size_t)r.range(1, 12) : r.chance(1, 2) ? n / 2 : n; L.removeEvery(m, step, (size_t)r.below(step), cap, r.chance(1, 2)); L.check(m); L.add(m, g.fewOrMany(n - m.ref.n), "after-removal"); break; }
    case 4: { size_t c2; switch (r.below(5)) { case 0: c2 = n; break; case 1: c2 = n - 1; break; case 2: c2 = n / 2; break; default: c2 = (size_t)r.range(1, 9); break; } L.removeEnds(m, c2, r.chance(1, 2)); L.check(m); L.add(m, g.fewOrMany(c2), "after-removal"); break; }
    default: if (n <= (size_t)maxN) L.add(m, g.fewOrMany(n), "growth"); break;
    }
    L.check(A); L.check(B); cnt("ops"); cnt("big_phases");
  }
  setctx("PoolList.destructor"); hist.add("destroy both\n"); delete A.c; delete B.c;
  setctx("PoolList/case-end"); ElemReg::checkBalanced("PoolList");
  statMax("max_size", (long)g.maxn); statMax("big_max_size_plist", (long)g.maxn);
  endCase(g.fp, g.maxn >= LARGE && g.removed);
}

// case idx: container type idx % 3; a replay re-executes exactly that case (--mode big --seed S --start idx --cases 1 --scale <max size>)
static void bigHistories() {
  ListCk lck; ArrayCk ack; PoolCk pck; long maxN = opts.scale > 1 ? opts.scale : 20000;
  for (long idx = opts.start; idx < opts.start + opts.cases; ++idx) {
    if (!mine(idx)) continue;
    beginCase(idx); ElemReg::reset();
    Rng r(opts.seed, 3005, (u64)idx);
    switch (idx % 3) { case 0: cnt("big_cases_list"); bigListCase(lck, r, maxN); break; case 1: cnt("big_cases_array"); bigArrayCase(ack, r, maxN); break; default: cnt("big_cases_plist"); bigPoolCase(pck, r, maxN); break; }
  }
}

// ================================================================ drivers
template <class CK, void (*F)(CK&, Rng&, long)> static void randomHistories(u64 stream) {
  CK ck;
  for (long idx = opts.start; idx < opts.start + opts.cases; ++idx) {
    if (!mine(idx)) continue;
    beginCase(idx); ElemReg::reset();
    Rng r(opts.seed, stream, (u64)idx);
    F(ck, r, idx);
  }
}

static bool nextPerm(int* a, int n) { int i = n - 2; while (i >= 0 && a[i] >= a[i + 1]) --i; if (i < 0) return false; int j = n - 1; while (a[j] <= a[i]) --j; int t = a[i]; a[i] = a[j]; a[j] = t; for (int l = i + 1, rr = n - 1; l < rr; ++l, --rr) { t = a[l]; a[l] = a[rr]; a[rr] = t; } return true; }

static void sortOne(ListCk& ck, const int* seq, int n, int build, const char* cls) {
  ListCk::Box b; setctx("List.constructor"); b.c = new List<Val>;
  // build 0: append in order; build 1: prepend in reverse order (nodes in reverse memory order); build 2: after a clear (recycled nodes)
  if (build == 2) { for (int i = 0; i < n + 1; ++i) ck.opAppend(b, 9, 1000 + i); ck.opClear(b); }
  if (build == 1) for (int i = n - 1; i >= 0; --i) ck.opPrepend(b, seq[i], i); else for (int i = 0; i < n; ++i) ck.opAppend(b, seq[i], i);
  ck.opSort(b, cls);
  ck.all(b, 3);
  // sorting a sorted list must keep it
  if (n <= 5) { ck.opSort(b, "already-sorted"); ck.all(b, 3); }
  setctx("List.destructor"); delete b.c;
}

static void sortExhaustive(int N) {
  ListCk ck; long idx = 0;
  for (int ph = 0; ph < 2; ++ph) {   // 3-value sequences first: the enumeration index of a case does not depend on the bound N (replays need no --scale)
    int phase = 1 - ph; int maxn = phase == 0 ? N : 8;
    for (int n = 0; n <= maxn; ++n) {
      int seq[12]; bool more = true;
      for (int i = 0; i < n; ++i) seq[i] = phase == 0 ? i : 0;
      while (more) {
        if (mine(idx) && idx >= opts.start && (opts.cases < 0 || idx < opts.start + opts.cases)) {
          beginCase(idx); ElemReg::reset();
          hist.addf("# sort %s n=%d:", phase == 0 ? "permutation" : "3-value sequence", n); for (int i = 0; i < n; ++i) hist.addf(" %d", seq[i]); hist.add("\n");
          sortOne(ck, seq, n, (int)(idx % 3), phase == 0 ? "permutation" : "duplicates");
          setctx("List/case-end"); ElemReg::checkBalanced("List");
          u64 fp = mix((u64)phase, (u64)n); for (int i = 0; i < n; ++i) fp = mix(fp, (u64)seq[i]);
          cnt(phase == 0 ? "sort_permutations" : "sort_duplicate_sequences"); cnt("ops");
          if (idx % 4001 == 0) sample("%.600s", hist.c());
          endCase(fp, n >= 2);
        }
        ++idx;
        if (n == 0) more = false;
        else if (phase == 0) more = nextPerm(seq, n);
        else { int i = n - 1; while (i >= 0 && seq[i] == 2) seq[i--] = 0; if (i < 0) more = false; else ++seq[i]; }
      }
    }
  }
  if (opts.shard == 0) cnt("exhaustive_space", idx);
}

static void sortRandom() {
  ListCk ck; long maxLen = opts.scale > 1 ? opts.scale : 2000;
  for (long idx = opts.start; idx < opts.start + opts.cases; ++idx) {
    if (!mine(idx)) continue;
    beginCase(idx); ElemReg::reset();
    Rng r(opts.seed, 3003, (u64)idx);
    long n = r.chance(1, 4) ? r.range(0, 20) : r.chance(1, 2) ? r.range(20, 200) : r.range(200, maxLen);
    int pattern = (int)r.below(7); static const char* pn[] = { "random", "ascending", "descending", "few-distinct", "organ-pipe", "all-equal", "nearly-sorted" };
    long distinct = pattern == 3 ? r.range(1, 4) : r.chance(1, 3) ? r.range(1, n / 2 + 1) : 1000000;
    hist.addf("# sort random n=%ld pattern=%s distinct<=%ld (elements not listed; regenerate from the seed)\n", n, pn[pattern], distinct);
    setItem("sort_patterns", pn[pattern]);
    ListCk::Box b; setctx("List.constructor"); b.c = new List<Val>;
    setctx("List.append");
    for (long i = 0; i < n; ++i) {
      long k;
      switch (pattern) { case 0: case 3: k = (long)r.below((u64)distinct); break; case 1: k = i; break; case 2: k = n - i; break; case 4: k = i < n / 2 ? i : n - i; break; case 5: k = 5; break; default: k = r.chance(1, 10) ? (long)r.below((u64)n + 1) : i; break; }
      Val v(k, i); if (r.chance(1, 8)) b.c->prepend(v); else b.c->append(v);
    }
    { long i = 0; for (List<Val>::Iterator it = b.c->begin(), e = b.c->end(); it != e; ++it, ++i) { SEnt en = { (*it).key, (*it).uid }; b.ref.push(en); } if (i != n) fail("List.append/size", "built list holds %ld of %ld elements", i, n); }
    hist.clear(); hist.addf("# sort random n=%ld pattern=%s; list before sort (key#uid):", n, pn[pattern]); for (size_t i = 0; i < b.ref.n && i < 3000; ++i) hist.addf(" %ld#%ld", b.ref[i].key, b.ref[i].uid); hist.add("\n");
    ck.opSort(b, pn[pattern]);
    ck.contents(*b.c, b.ref); ck.structure(b);
    statMax("max_size", n); cnt("ops");
    setctx("List.destructor"); delete b.c;
    setctx("List/case-end"); ElemReg::checkBalanced("List");
    endCase(mix((u64)pattern, (u64)n * 7919 + (u64)idx), n >= 2);
  }
}

static int probe(const char* k) {
  harnessBug("unknown probe %s", k);
}

int main(int argc, char** argv) {
  init(argc, argv, "h_seq");
  if (opts.probe) { int rc = probe(opts.probe); finish(); return rc; }
  const char* m = opts.mode;
  if (!strcmp(m, "list")) randomHistories<ListCk, listHistory>(3001);
  else if (!strcmp(m, "array")) randomHistories<ArrayCk, arrayHistory>(3002);
  else if (!strcmp(m, "plist")) randomHistories<PoolCk, poolHistory>(3004);
  else if (!strcmp(m, "array-grow")) arrayGrow();
  else if (!strcmp(m, "sort-exh")) sortExhaustive(opts.scale > 1 ? (int)opts.scale : 8);
  else if (!strcmp(m, "sort-rand")) sortRandom();
  else if (!strcmp(m, "big")) bigHistories();
  else harnessBug("unknown mode %s", m);
#ifndef VERIF_NO_PRIVATE
  cnt("structure_walks", g_walks); cnt("walks_with_block_sizes", g_sizedWalks);
  for (int i = 0; i <= 64; ++i) if (g_slotsPerBlockSeen[i]) { char t[16]; snprintf(t, sizeof t, "%s%d", i < 64 ? "" : ">=", i); setItem("slots_per_block", t); }
#endif
  leakCheck("Seq/leak");
  finish();
  return 0;
}
