// h_codec.cpp - C18: Unicode::toString/fromString/length/isValid, String integer conversions, fromHex, fromBase64.
// Every input handed to a decoder lives in an exactly-sized heap block (right-aligned: the block ends where the range ends), so an
// over-read is an ASan report. Online oracles are deliberately dumb re-implementations; the recorded log is re-checked offline with
// Python's utf-8 codec, int(), bytes.hex() and base64 (vlib/codec_ref.py).
// Record lines (--rec):
//   U <first cp> <count> <hex>     concatenated Unicode::toString output of a run of non-surrogate code points
//   S <first cp> <count> <hex>     same for a run of surrogates (informational offline; only the inverse claim is checked, online)
//   D <hex> <cp>                   Unicode::fromString of a complete sequence        W <hex> <0|1>   Unicode::isValid of a byte string
//   I <i32|u32|i64|u64> <bits hex> <text>     String::from*(value)                   X <input hex> <text>   String::fromHex
//   A <i32|u32|i64|u64> <bits hex> <text>     member to*() of a String attached to exactly the characters <text> inside a larger block
//   B <base64 text> <hex>          String::fromBase64 of an in-harness RFC 4648 encoding
// modes: cp, dec2, dec3, dec4, dec-rand, int, hex, b64, b64-3, b64-rand, b64-bytes
// Build flavours: the only private peek is the confirmation that an attach()ed String really refers to the block (counter attached_state_confirmed, AttView::attach);
// it is compiled out with -DVERIF_NO_PRIVATE. Every verdict is public API in both flavours.
#include "vh.hpp"
#include <nstd/String.hpp>
#include <nstd/Unicode.hpp>
#include <limits.h>
#include <dlfcn.h>

using namespace vh;

// gcc links libasan and libubsan as two shared objects with separate copies of sanitizer_common: vh::init registers its death callback with the
// first one only, so a UBSan abort (-fno-sanitize-recover) would carry no @CTX / history. Register an equivalent callback with libubsan's copy.
static void ubsanDeath() {
  char path[512]; snprintf(path, sizeof path, "%s/replay.h_codec.ubsan.%ld.%d.txt", opts.out, curCase, (int)getpid());
  int fd = open(path, O_WRONLY | O_CREAT | O_TRUNC, 0666);
  if (fd >= 0) { char head[600]; int k = snprintf(head, sizeof head, "harness=h_codec\nmode=%s\nseed=%llu\ncase=%ld\nexclude=%s\nkey=(ubsan)\nctx=%s\n--- history of the failing case ---\n", opts.mode, (unsigned long long)opts.seed, curCase, opts.exclude ? opts.exclude : "", (const char*)ctx);
    if (k > 0 && write(fd, head, (size_t)k) < 0) {} if (hist.n && write(fd, hist.d, hist.n) < 0) {} close(fd); }
  char line[900]; int k = snprintf(line, sizeof line, "\n@CTX %s\n@DEATHREPLAY %s\n", (const char*)ctx, path);
  if (k > 0) { if (write(1, line, (size_t)k) < 0) {} if (write(2, line, (size_t)k) < 0) {} }
}
static void hookUbsan() {
  void* h = dlopen("libubsan.so.1", RTLD_NOLOAD | RTLD_NOW); if (!h) return;
  typedef void (*Setter)(void (*)(void)); Setter set = (Setter)dlsym(h, "__sanitizer_set_death_callback"); if (set) set(ubsanDeath);
}

static const char* K_B64_HIGH = "String.fromBase64/byte>=0x80/ubsan:index-N-out-of-bounds-for-type-'unsigned-char-[N]'";   // key of the signed-char table index defect (see probe)

static const char HEXL[] = "0123456789abcdef";
static void addHex(Text& t, const void* pv, size_t n) { const u8* p = (const u8*)pv; t.reserve(t.n + 2 * n); for (size_t i = 0; i < n; ++i) { char c[2] = { HEXL[p[i] >> 4], HEXL[p[i] & 15] }; t.add(c, 2); } }

struct Exact {   // [p, p+n) is a whole heap block (n == 0: one-past-the-end of a 1-byte block)
  u8* blk; u8* p; size_t n;
  Exact() : blk(0), p(0), n(0) {}
  Exact(const void* src, size_t k) : blk(0), p(0), n(0) { set(src, k); }
  ~Exact() { free(blk); }
  void alloc(size_t k) { free(blk); n = k; blk = (u8*)malloc(k ? k : 1); if (!blk) harnessBug("out of memory"); p = k ? blk : blk + 1; }
  void set(const void* src, size_t k) { alloc(k); if (k) memcpy(p, src, k); }
  const char* c() const { return (const char*)p; }
private:
  Exact(const Exact&); Exact& operator=(const Exact&);
};
// n bytes followed by a terminator, block of exactly n+1 bytes (for APIs that take C strings / attached Strings)
struct ExactZ {
  char* p; size_t n;
  ExactZ(const void* src, size_t k) : p((char*)malloc(k + 1)), n(k) { if (k) memcpy(p, src, k); p[k] = 0; }
  ~ExactZ() { free(p); }
private:
  ExactZ(const ExactZ&); ExactZ& operator=(const ExactZ&);
};

// ------------------------------------------------------------------------------------------------ UTF-8 reference (dumb)
static size_t refEncode(u32 c, u8* o) {
  if (c < 0x80) { o[0] = (u8)c; return 1; }
  if (c < 0x800) { o[0] = (u8)(0xC0 | (c >> 6)); o[1] = (u8)(0x80 | (c & 0x3F)); return 2; }
  if (c < 0x10000) { o[0] = (u8)(0xE0 | (c >> 12)); o[1] = (u8)(0x80 | ((c >> 6) & 0x3F)); o[2] = (u8)(0x80 | (c & 0x3F)); return 3; }
  if (c < 0x110000) { o[0] = (u8)(0xF0 | (c >> 18)); o[1] = (u8)(0x80 | ((c >> 12) & 0x3F)); o[2] = (u8)(0x80 | ((c >> 6) & 0x3F)); o[3] = (u8)(0x80 | (c & 0x3F)); return 4; }
  return 0;
}
static int leadLen(u8 b) { if (b < 0x80) return 1; if (b >= 0xC0 && b <= 0xDF) return 2; if (b >= 0xE0 && b <= 0xEF) return 3; if (b >= 0xF0 && b <= 0xF7) return 4; return 0; }
enum SeqClass { SQ_STRICT, SQ_SURROGATE, SQ_LENIENT /* overlong or > U+10FFFF, structurally fine */, SQ_MALFORMED, SQ_TRUNCATED, SQ_EMPTY };
// classify the first sequence of p[0..n)
static SeqClass firstSeq(const u8* p, size_t n, u32& cp, size_t& len) {
  cp = 0; len = 0;
  if (n == 0) return SQ_EMPTY;
  int need = leadLen(p[0]);
  if (need == 0) return SQ_MALFORMED;
  if ((size_t)need > n) { for (size_t i = 1; i < n; ++i) if ((p[i] & 0xC0) != 0x80) return SQ_MALFORMED; return SQ_TRUNCATED; }
  for (int i = 1; i < need; ++i) if ((p[i] & 0xC0) != 0x80) return SQ_MALFORMED;
  len = (size_t)need;
  switch (need) {
  case 1: cp = p[0]; return SQ_STRICT;
  case 2: cp = ((u32)(p[0] & 0x1F) << 6) | (p[1] & 0x3F); return cp >= 0x80 ? SQ_STRICT : SQ_LENIENT;
  case 3: cp = ((u32)(p[0] & 0x0F) << 12) | ((u32)(p[1] & 0x3F) << 6) | (p[2] & 0x3F); if (cp < 0x800) return SQ_LENIENT; return (cp >= 0xD800 && cp <= 0xDFFF) ? SQ_SURROGATE : SQ_STRICT;
  default: cp = ((u32)(p[0] & 0x07) << 18) | ((u32)(p[1] & 0x3F) << 12) | ((u32)(p[2] & 0x3F) << 6) | (p[3] & 0x3F); return (cp >= 0x10000 && cp < 0x110000) ? SQ_STRICT : SQ_LENIENT;
  }
}
// 2 = strictly valid UTF-8, 1 = structurally well-formed only (overlong / surrogate / > U+10FFFF somewhere), 0 = structurally malformed
static int refValidity(const u8* p, size_t n) {
  int v = 2;
  while (n) { u32 cp; size_t len; SeqClass c = firstSeq(p, n, cp, len); if (c == SQ_MALFORMED || c == SQ_TRUNCATED) return 0; if (c != SQ_STRICT) v = 1; p += len; n -= len; }
  return v;
}
static const char* seqName(SeqClass c) { static const char* n[] = { "valid-sequence", "surrogate-sequence", "overlong-or-out-of-range", "malformed", "truncated", "empty" }; return n[c]; }

static long g_lenientAccepted = 0, g_lenientRejected = 0;
static long g_ops = 0;   // library calls whose result was observed (counter "ops": exists in every build flavour)

// run the three decoders on the byte string b[0..n) held in an exactly-sized block and compare with the reference
static u64 checkDecoders(const u8* b, size_t n, bool stringOverloads, bool record) {
  Exact e(b, n); u32 cp; size_t len; SeqClass sc = firstSeq(b, n, cp, len); int rv = refValidity(b, n);
  hist.n = 0; hist.add("bytes="); addHex(hist, b, n); hist.addf(" (first sequence: %s)\n", seqName(sc));
  u64 fp = 0;
  if (n) {
    setctx("Unicode.length"); usize l = Unicode::length((char)e.p[0]); cnt("length_calls"); ++g_ops;
    u8 b0 = b[0]; bool validLead = b0 < 0x80 || (b0 >= 0xC2 && b0 <= 0xF4); int ll = leadLen(b0);
    if (validLead && l != (usize)ll) fail("Unicode.length/valid-lead-byte/value", "length(0x%02x) = %lu, UTF-8 sequence length is %d", b0, (unsigned long)l, ll);
    if (ll == 0 && l != 0) fail("Unicode.length/continuation-or-invalid-byte/value", "length(0x%02x) = %lu for a byte that cannot start a sequence", b0, (unsigned long)l);
    if (!validLead && ll && l != 0 && l != (usize)ll) fail("Unicode.length/overlong-or-out-of-range-lead/value", "length(0x%02x) = %lu", b0, (unsigned long)l);
    fp = mix(fp, l);
  }
  setctxf("Unicode.isValid/%s", rv == 2 ? "valid-utf8" : rv == 1 ? "well-formed-not-strict" : "malformed");
  bool iv = Unicode::isValid(e.c(), n); cnt("isvalid_calls"); ++g_ops;
  if (rv == 2 && !iv) fail("Unicode.isValid/valid-utf8/rejected", "isValid rejects a valid UTF-8 string of %lu bytes", (unsigned long)n);
  if (rv == 0 && iv) fail("Unicode.isValid/malformed/accepted", "isValid accepts a string with a bad lead byte, a missing continuation byte or a truncated sequence");
  if (rv == 1) { if (iv) ++g_lenientAccepted; else ++g_lenientRejected; }
  setctxf("Unicode.fromString/%s", seqName(sc));
  u32 got = Unicode::fromString(e.c(), n); cnt("fromstring_calls"); ++g_ops;
  if (sc == SQ_STRICT || sc == SQ_SURROGATE) {
    if (got != cp) { char k[96]; snprintf(k, sizeof k, "Unicode.fromString/%s%s/value", seqName(sc), len < n ? "-with-trailing-bytes" : ""); fail(k, "fromString = U+%04X, the %lu-byte sequence encodes U+%04X", got, (unsigned long)len, cp); }
    cnt("fromstring_values_compared");
  } else cnt("fromstring_unconstrained_inputs");
  fp = mix(mix(fp, got), (u64)iv);
  if (stringOverloads) {
    String s(e.c(), n);
    setctx("Unicode.isValid(String)"); bool iv2 = Unicode::isValid(s);
    setctx("Unicode.fromString(String)"); u32 got2 = Unicode::fromString(s);
    if (iv2 != iv) fail("Unicode.isValid(String)/differs-from-pointer-overload", "isValid(String) = %d, isValid(ptr,len) = %d", (int)iv2, (int)iv);
    if (got2 != got) fail("Unicode.fromString(String)/differs-from-pointer-overload", "fromString(String) = U+%04X, fromString(ptr,len) = U+%04X", got2, got);
    cnt("string_overload_calls", 2); g_ops += 2;
  }
  if (record) {
    Text t; t.add("W "); addHex(t, b, n); t.addf(" %d\n", (int)iv);
    if ((sc == SQ_STRICT) && len == n) { t.add("D "); addHex(t, b, n); t.addf(" %u\n", got); }
    rec("%s", t.c());
  }
  setItem("first_sequence_classes", seqName(sc));
  cnt("decoder_inputs");
  return fp;
}

// ------------------------------------------------------------------------------------------------ all code points
static const char* cpClass(u32 c) { return c < 0x80 ? "1-byte" : c < 0x800 ? "2-byte" : (c >= 0xD800 && c <= 0xDFFF) ? "surrogate" : c < 0x10000 ? "3-byte" : c < 0x110000 ? "4-byte" : "above-U+10FFFF"; }

static void codePoints() {
  const long BLK = 4096, total = 0x110000 / BLK + 1;   // the last block samples values above U+10FFFF
  long lo = opts.start, hi = opts.cases < 0 ? total : opts.start + opts.cases; if (hi > total) hi = total;
  for (long idx = lo; idx < hi; ++idx) {
    if (!mine(idx)) continue;
    beginCase(idx);
    Rng r(opts.seed, 1801, (u64)idx); u64 fp = (u64)idx;
    if (idx == total - 1) {   // outside the code space: nothing is promised except memory safety and a well-formed String
      for (int i = 0; i < 4096; ++i) {
        static const u32 fixedAbove[8] = { 0x110000, 0x110001, 0x1FFFFF, 0x200000, 0x3FFFFFF, 0x7FFFFFFF, 0x80000000u, 0xFFFFFFFFu };
        u32 c = i < 8 ? fixedAbove[i] : (u32)(0x110000 + r.below(0xFFFFFFFFull - 0x110000));
        hist.n = 0; hist.addf("toString(0x%X)\n", c); setctx("Unicode.toString/above-U+10FFFF");
        String s = Unicode::toString(c); const char* z = s; if (z[s.length()] != 0) fail("Unicode.toString/above-U+10FFFF/terminator", "result not terminated");
        cnt("out_of_range_code_points"); ++g_ops; if (s.length() == 0) cnt("out_of_range_rejected");
      }
      endCase(fp, true); continue;
    }
    u32 first = (u32)(idx * BLK);
    Text run; u32 runFirst = first; bool runSur = false; long runCount = 0;
    Text group; u32 garr[64];
    for (u32 c = first; c < first + BLK; ++c) {
      bool sur = c >= 0xD800 && c <= 0xDFFF; const char* cls = cpClass(c);
      hist.n = 0; hist.addf("code point U+%04X (%s)\n", c, cls);
      setctxf("Unicode.toString/%s", cls);
      String s = Unicode::toString(c); size_t n = s.length(); const char* z = s; cnt("tostring_calls"); ++g_ops;
      if (z[n] != 0) fail("Unicode.toString/terminator", "toString(U+%04X): byte after the %lu result bytes is 0x%02x", c, (unsigned long)n, (u8)z[n]);
      u8 want[4]; size_t wn = refEncode(c, want);
      if (!sur) {
        if (n != wn || memcmp(z, want, wn)) { char k[80]; snprintf(k, sizeof k, "Unicode.toString/%s/encoding", cls); Text g; addHex(g, z, n); Text w; addHex(w, want, wn); fail(k, "toString(U+%04X) = %s, UTF-8 is %s", c, g.c(), w.c()); }
        cnt("encodings_compared");
      } else if (n == 0 || n > 4) fail("Unicode.toString/surrogate/length", "toString(U+%04X) has length %lu", c, (unsigned long)n);
      // flush / extend the offline record run
      if (runCount && runSur != sur) { rec("%c %u %ld %s\n", runSur ? 'S' : 'U', runFirst, runCount, run.c()); run.clear(); runCount = 0; }
      if (!runCount) { runFirst = c; runSur = sur; }
      addHex(run, z, n); ++runCount;
      // inverse, from an exactly-sized block and through the String overload
      Exact e(z, n);
      setctxf("Unicode.fromString/%s", cls);
      u32 back = Unicode::fromString(e.c(), n); u32 back2 = Unicode::fromString(s); cnt("fromstring_calls", 2); g_ops += 2;
      if (back != c) { char k[80]; snprintf(k, sizeof k, "Unicode.fromString/%s/inverse", cls); fail(k, "fromString(toString(U+%04X)) = U+%04X", c, back); }
      if (back2 != c) { char k[80]; snprintf(k, sizeof k, "Unicode.fromString(String)/%s/inverse", cls); fail(k, "fromString(String toString(U+%04X)) = U+%04X", c, back2); }
      cnt("inverse_checks", 2);
      setctxf("Unicode.length/%s", cls); usize l = Unicode::length((char)e.p[0]); cnt("length_calls"); ++g_ops;
      if (l != n) { char k[80]; snprintf(k, sizeof k, "Unicode.length/%s/value", cls); fail(k, "length(first byte 0x%02x of U+%04X) = %lu, encoding has %lu bytes", e.p[0], c, (unsigned long)l, (unsigned long)n); }
      setctxf("Unicode.isValid/%s", cls); bool iv = Unicode::isValid(e.c(), n), iv2 = Unicode::isValid(s); cnt("isvalid_calls", 2); g_ops += 2;
      if (!sur && (!iv || !iv2)) { char k[80]; snprintf(k, sizeof k, "Unicode.isValid/%s/rejected", cls); fail(k, "isValid rejects the encoding of U+%04X", c); }
      if (sur) { if (iv) ++g_lenientAccepted; else ++g_lenientRejected; }
      // every proper prefix: bounds (ASan) and - for isValid - rejection of the truncated sequence
      for (size_t k = 0; k < n; ++k) {
        Exact t(z, k); hist.n = 0; hist.addf("code point U+%04X (%s) truncated to %lu of %lu bytes\n", c, cls, (unsigned long)k, (unsigned long)n);
        setctx("Unicode.fromString/truncated"); u32 g = Unicode::fromString(t.c(), k); (void)g;
        setctx("Unicode.isValid/truncated"); bool v = Unicode::isValid(t.c(), k);
        if (k == 0 && !v) fail("Unicode.isValid/empty/rejected", "isValid(p, 0) is false");
        if (k > 0 && v) fail("Unicode.isValid/truncated/accepted", "isValid accepts the first %lu of the %lu bytes of U+%04X", (unsigned long)k, (unsigned long)n, c);
        cnt("truncated_inputs"); g_ops += 2;
      }
      // groups of 64 through append(ch, str) and the array overloads
      garr[(c - first) & 63] = c; group.add(z, n);
      if (((c - first) & 63) == 63) {
        Exact arr(garr, sizeof garr);
        hist.n = 0; hist.addf("array overloads on U+%04X..U+%04X\n", c - 63, c);
        setctx("Unicode.toString(array)"); String all = Unicode::toString((const uint32*)arr.p, 64);
        String acc; setctx("Unicode.append(array)"); bool ok = Unicode::append((const uint32*)arr.p, 64, acc);
        String one; bool ok1 = true; setctx("Unicode.append(ch)"); for (int i = 0; i < 64; ++i) ok1 &= Unicode::append(garr[i], one);
        if (!ok || !ok1) fail("Unicode.append/valid-code-points/returned-false", "append reported failure for code points <= U+10FFFF");
        const String* rs[3] = { &all, &acc, &one }; const char* nm[3] = { "Unicode.toString(array)/content", "Unicode.append(array)/content", "Unicode.append(ch)/content" };
        for (int i = 0; i < 3; ++i) { const char* q = *rs[i]; if (rs[i]->length() != group.n || memcmp(q, group.c(), group.n) || q[group.n] != 0) fail(nm[i], "result differs from the concatenation of the single-character encodings for U+%04X..U+%04X", c - 63, c); }
        cnt("array_overload_groups"); g_ops += 66; group.clear();
      }
      fp = mix(fp, (u64)back * 8 + n);
    }
    if (runCount) rec("%c %u %ld %s\n", runSur ? 'S' : 'U', runFirst, runCount, run.c());
    if (idx % 16 == 0) {   // a long array (forces the result String to grow past its initial capacity), with out-of-range values mixed in
      const size_t N = 1500; Exact arr; arr.alloc(N * 4); uint32* a = (uint32*)arr.p; Text want; bool allOk = true;
      for (size_t i = 0; i < N; ++i) { u32 c = r.chance(1, 20) ? (u32)(0x110000 + r.below(1000)) : first + (u32)r.below(BLK); if (c >= 0xD800 && c <= 0xDFFF) c = 0x20AC; a[i] = c; u8 w[4]; size_t wn = refEncode(c, w); if (!wn) allOk = false; want.add((const char*)w, wn); }
      hist.n = 0; hist.addf("toString(array of %lu code points from block %ld, some above U+10FFFF)\n", (unsigned long)N, idx);
      setctx("Unicode.toString(array)/long"); String all = Unicode::toString(a, N);
      String acc; setctx("Unicode.append(array)/long"); bool ok = Unicode::append(a, N, acc);
      if (ok != allOk) fail("Unicode.append(array)/mixed-validity/return-value", "append(array) returned %d, all elements encodable: %d", (int)ok, (int)allOk);
      const char* q = all; const char* q2 = acc;
      if (all.length() != want.n || memcmp(q, want.c(), want.n) || q[want.n]) fail("Unicode.toString(array)/long/content", "result differs from the concatenated encodings (%lu vs %lu bytes)", (unsigned long)all.length(), (unsigned long)want.n);
      if (acc.length() != want.n || memcmp(q2, want.c(), want.n) || q2[want.n]) fail("Unicode.append(array)/long/content", "result differs from the concatenated encodings");
      cnt("long_array_calls"); g_ops += 2;
    }
    cnt("code_points", BLK); { static const u32 reps[] = { 0, 0x7F, 0x80, 0x7FF, 0x800, 0xD7FF, 0xD800, 0xDFFF, 0xE000, 0xFFFF, 0x10000, 0x10FFFF }; for (unsigned i = 0; i < 12; ++i) if (reps[i] >= first && reps[i] < first + BLK) setItem("code_point_classes", cpClass(reps[i])); }
    if (idx % 67 == 0) sample("block U+%04X..U+%04X: toString == reference encoder, fromString inverse, length, isValid (accept whole / reject every proper prefix), array overloads in groups of 64", first, first + (u32)BLK - 1);
    endCase(fp, true);
  }
  statMax("code_point_blocks", total);
}

// ------------------------------------------------------------------------------------------------ decoders on arbitrary bytes
static void dec2() {   // all byte strings of length 0..2; case = first byte
  long lo = opts.start, hi = opts.cases < 0 ? 256 : opts.start + opts.cases; if (hi > 256) hi = 256;
  for (long idx = lo; idx < hi; ++idx) {
    if (!mine(idx)) continue;
    beginCase(idx); u64 fp = (u64)idx; u8 b[2];
    if (idx == 0) { fp = mix(fp, checkDecoders(b, 0, true, true)); cnt("strings_len0"); }
    b[0] = (u8)idx; fp = mix(fp, checkDecoders(b, 1, true, true)); cnt("strings_len1");
    for (int b1 = 0; b1 < 256; ++b1) { b[1] = (u8)b1; fp = mix(fp, checkDecoders(b, 2, true, true)); cnt("strings_len2"); }
    if (idx % 64 == 0xC3 % 64) sample("all strings starting with byte 0x%02x of length 1..2 through length/isValid/fromString", (unsigned)idx);
    endCase(fp, true);
  }
}
static void dec3() {   // all byte strings of length 3; case = (first byte, second byte >> 4)
  long total = 256 * 16, lo = opts.start, hi = opts.cases < 0 ? total : opts.start + opts.cases; if (hi > total) hi = total;
  for (long idx = lo; idx < hi; ++idx) {
    if (!mine(idx)) continue;
    beginCase(idx); u64 fp = (u64)idx; u8 b[3]; b[0] = (u8)(idx >> 4);
    for (int b1 = 0; b1 < 16; ++b1) for (int b2 = 0; b2 < 256; ++b2) { b[1] = (u8)((idx & 15) << 4 | b1); b[2] = (u8)b2; fp = mix(fp, checkDecoders(b, 3, false, false)); cnt("strings_len3"); }
    endCase(fp, true);
  }
}
static void dec4() {   // all 4-byte strings whose first byte announces a 4-byte sequence (0xF0..0xF7); case = (first byte, second byte)
  long total = 8 * 256, lo = opts.start, hi = opts.cases < 0 ? total : opts.start + opts.cases; if (hi > total) hi = total;
  for (long idx = lo; idx < hi; ++idx) {
    if (!mine(idx)) continue;
    beginCase(idx); u64 fp = (u64)idx; u8 b[4]; b[0] = (u8)(0xF0 + (idx >> 8)); b[1] = (u8)(idx & 255);
    for (int b2 = 0; b2 < 256; ++b2) for (int b3 = 0; b3 < 256; ++b3) { b[2] = (u8)b2; b[3] = (u8)b3; fp = mix(fp, checkDecoders(b, 4, false, false)); cnt("strings_len4_lead4"); }
    endCase(fp, true);
  }
}
static size_t genUtf8ish(Rng& r, u8* out, size_t maxLen) {
  size_t n = 0, target = (size_t)r.below(maxLen + 1);
  while (n < target) {
    u8 tmp[8]; size_t k = 0;
    switch (r.below(8)) {
    case 0: case 1: { static const u32 edges[] = { 0, 0x7F, 0x80, 0x7FF, 0x800, 0xFFFF, 0x10000, 0x10FFFF, 0xD7FF, 0xE000, 0xD800, 0xDFFF }; u32 c = r.chance(1, 3) ? edges[r.below(12)] : (u32)r.below(0x110000); k = refEncode(c, tmp); break; }
    case 2: { u32 c = (u32)r.below(0x110000); k = refEncode(c, tmp); if (k > 1) k = 1 + (size_t)r.below(k - 1); break; }          // truncated sequence
    case 3: tmp[0] = (u8)(0x80 + r.below(0x40)); k = 1; break;                                                                    // stray continuation byte
    case 4: tmp[0] = (u8)(0xC0 + r.below(0x40)); k = 1; break;                                                                    // lead byte alone
    case 5: { static const u8 ov[][4] = { { 0xC0, 0x80 }, { 0xC1, 0xBF }, { 0xE0, 0x80, 0x80 }, { 0xE0, 0x9F, 0xBF }, { 0xF0, 0x80, 0x80, 0x80 }, { 0xF0, 0x8F, 0xBF, 0xBF }, { 0xF4, 0x90, 0x80, 0x80 }, { 0xF7, 0xBF, 0xBF, 0xBF } };
        const u8* o = ov[r.below(8)]; k = (size_t)leadLen(o[0]); memcpy(tmp, o, k); break; }
    default: tmp[0] = (u8)r.next(); k = 1; break;
    }
    for (size_t i = 0; i < k && n < maxLen; ++i) out[n++] = tmp[i];
  }
  return n;
}
static void decRandom() {
  for (long idx = opts.start; idx < opts.start + opts.cases; ++idx) {
    if (!mine(idx)) continue;
    beginCase(idx); Rng r(opts.seed, 1802, (u64)idx); u8 b[16]; size_t n = genUtf8ish(r, b, 16); u64 fp = n;
    for (size_t m = 0; m <= n; ++m) fp = mix(fp, checkDecoders(b, m, (idx & 3) == 0, m == n && (idx & 7) == 0));   // every prefix in a block of its own
    statMax("max_decoder_input_length", (long)n); cnt("random_strings");
    if (idx % 1009 == 0) sample("%.200s and all its prefixes", hist.c());
    endCase(fp, n >= 2);
  }
}

// ------------------------------------------------------------------------------------------------ integers
static size_t refDigits(unsigned long long mag, bool neg, char* out) {   // decimal text without printf
  char tmp[24]; size_t k = 0; do { tmp[k++] = (char)('0' + (int)(mag % 10)); mag /= 10; } while (mag);
  size_t n = 0; if (neg) out[n++] = '-'; while (k) out[n++] = tmp[--k]; out[n] = 0; return n;
}
static void cmpText(const String& s, const char* want, size_t wn, const char* api, const char* cls) {
  const char* z = s;
  if (s.length() != wn || memcmp(z, want, wn) || z[wn] != 0) { char k[96]; snprintf(k, sizeof k, "%s/%s/text", api, cls); fail(k, "%s produced \"%.40s\" (length %lu), exact decimal text is \"%s\"", api, z, (unsigned long)s.length(), want); }
  cnt("int_texts_compared");
}
static bool g_recInts = false;

// ---- member conversions on Strings ATTACHED to a sub-range of a larger heap block
// A String that was attach()ed to [p, p+n) must convert exactly these n characters, whatever lies behind them. The text is placed inside an exactly-sized heap
// block [0..3 digits][text][follow]; the block ends right after `follow`, so a parser that runs on behind the range either returns a different value (digits
// behind the range, then a terminator) or leaves the block (digits up to the block end: ASan report for the intercepted atoi/atoll, wrong value otherwise).
// `follow` is never empty: the library itself looks at the one byte behind an attached range (operator const char* tests str[len] to decide whether it needs a
// terminated private copy), i.e. attach(p, n) requires p[n] to be readable - "nothing behind the range" therefore means one non-digit byte and then the block end.
enum { FO_NUL = 0, FO_DIGITS_NUL, FO_DIGITS_END, FO_SIGN_END, FO_FRAC_NUL, FO_OTHER_END, FO_N };
static const char* const foName[FO_N] = { "terminator", "digits+terminator", "digits-to-block-end", "sign+digit-to-block-end", "fraction-or-exponent+terminator", "one-non-digit-byte-at-block-end" };
static Rng* g_ra = 0;              // randomness of the attached views (separate stream: the value stream of the case is the one it was before these checks existed)
static bool g_allFollow = false;   // boundary case: every follow class (twice) for every value; otherwise one drawn class per value
static int drawFollow(Rng& r) { static const int w[12] = { FO_DIGITS_NUL, FO_DIGITS_NUL, FO_DIGITS_NUL, FO_DIGITS_NUL, FO_DIGITS_END, FO_DIGITS_END, FO_DIGITS_END, FO_NUL, FO_SIGN_END, FO_FRAC_NUL, FO_OTHER_END, FO_OTHER_END }; return w[r.below(12)]; }

struct AttView {
  char* blk; char* orig; size_t B, off, n; int fo;
  AttView(const char* text, size_t tn, int follow, Rng& r) : blk(0), orig(0), B(0), off(0), n(tn), fo(follow) {
    char f[8]; size_t fn = 0; int k = 1 + (int)r.below(3);
    switch (fo) {
    case FO_NUL: f[fn++] = 0; break;
    case FO_DIGITS_NUL: for (int i = 0; i < k; ++i) f[fn++] = (char)('0' + r.below(10)); f[fn++] = 0; break;
    case FO_DIGITS_END: for (int i = 0; i < k; ++i) f[fn++] = (char)('0' + r.below(10)); break;
    case FO_SIGN_END: f[fn++] = "-+"[r.below(2)]; f[fn++] = (char)('0' + r.below(10)); break;
    case FO_FRAC_NUL: if (r.chance(1, 2)) { f[fn++] = '.'; f[fn++] = (char)('1' + r.below(9)); } else { f[fn++] = "eE"[r.below(2)]; f[fn++] = (char)('1' + r.below(9)); } f[fn++] = 0; break;
    default: f[fn++] = " \xa5.eEx,;\t\n/:-+"[r.below(15)]; break;
    }
    off = (size_t)r.below(4); B = off + n + fn; blk = (char*)malloc(B); orig = (char*)malloc(B); if (!blk || !orig) harnessBug("out of memory");
    for (size_t i = 0; i < off; ++i) blk[i] = (char)('0' + r.below(10)); if (n) memcpy(blk + off, text, n); memcpy(blk + off + n, f, fn); memcpy(orig, blk, B);
  }
  ~AttView() { free(blk); free(orig); }
  const char* state() const { return n == 0 ? "attached-empty" : fo == FO_NUL ? "attached-terminated" : "attached-unterminated"; }
  void attach(String& s) const {
    s.attach(blk + off, n);
#ifndef VERIF_NO_PRIVATE   // private peek (evidence only): the String really refers to the block and holds no copy. Without access to private state the fact
                           // "attached" is what the harness did (it called attach() on a fresh String and nothing else before the conversion under test)
    if (s.data == &s._data && s._data.ref == 0 && s._data.str == blk + off && s._data.len == n) cnt("attached_state_confirmed");
#else
    cnt("attached_by_harness_not_confirmed");
#endif
  }
  void intact(const char* api) const {
    if (memcmp(blk, orig, B)) { char k[128]; snprintf(k, sizeof k, "String.%s/%s/wrote-through-attached-memory", api, state()); fail(k, "%s() modified the block the String was attached to", api); }
  }
  void describe(Text& t) const { t.addf("  block of %lu bytes \"", (unsigned long)B); t.addEsc(blk, B); t.addf("\", String attached to [%lu,%lu), behind it: %s\n", (unsigned long)off, (unsigned long)(off + n), foName[fo]); }
private:
  AttView(const AttView&); AttView& operator=(const AttView&);
};

typedef __int128 i128;
enum { TY_I32 = 0, TY_U32, TY_I64, TY_U64 };
static const char* const tyTo[4] = { "toInt", "toUInt", "toInt64", "toUInt64" };
static const char* const tyFrom[4] = { "fromInt", "fromUInt", "fromInt64", "fromUInt64" };
static const char* const tyRec[4] = { "i32", "u32", "i64", "u64" };
static bool fitsTy(int ty, i128 v) { switch (ty) { case TY_I32: return v >= INT_MIN && v <= INT_MAX; case TY_U32: return v >= 0 && v <= (i128)UINT_MAX; case TY_I64: return v >= (i128)LLONG_MIN && v <= (i128)LLONG_MAX; default: return v >= 0 && v <= (i128)ULLONG_MAX; } }
static unsigned long long parseMember(int ty, const String& a) { switch (ty) { case TY_I32: return (unsigned long long)(long long)a.toInt(); case TY_U32: return (unsigned long long)a.toUInt(); case TY_I64: return (unsigned long long)a.toInt64(); default: return (unsigned long long)a.toUInt64(); } }
static String fromMember(int ty, unsigned long long pat) { switch (ty) { case TY_I32: return String::fromInt((int)(long long)pat); case TY_U32: return String::fromUInt((unsigned)pat); case TY_I64: return String::fromInt64((int64)pat); default: return String::fromUInt64((uint64)pat); } }
static void showVal(int ty, unsigned long long pat, char* out, size_t cap) { if (ty == TY_I32 || ty == TY_I64) snprintf(out, cap, "%lld", (long long)pat); else snprintf(out, cap, "%llu", pat); }

static void oneAttachedView(int ty, i128 val, const char* w, size_t wn, int fo) {
  Rng& r = *g_ra; AttView v(w, wn, fo, r); const char* st = v.state(); size_t mark = hist.n; v.describe(hist);
  unsigned long long want = (unsigned long long)val;   // two's complement pattern, sign-extended to 64 bits
  for (int t2 = 0; t2 < 4; ++t2) {   // every member whose range holds the value
    if (!fitsTy(t2, val)) continue;
    String a; v.attach(a);
    setctxf("String.%s/%s", tyTo[t2], st);
    unsigned long long got = parseMember(t2, a); cnt("int_attached_parses"); ++g_ops; cnt(fo == FO_NUL ? "int_attached_terminated_parses" : "int_attached_unterminated_parses");
    if (got != want) { char k[128], g[32], x[32]; snprintf(k, sizeof k, "String.%s/%s/value", tyTo[t2], st); showVal(t2, got, g, sizeof g); showVal(t2, want, x, sizeof x);
      fail(k, "%s() of a String attached to the %lu characters \"%.*s\" inside a larger block (behind them: %s) = %s, the value of exactly these characters is %s", tyTo[t2], (unsigned long)wn, (int)wn, w, foName[fo], g, x); }
    v.intact(tyTo[t2]);
    if (t2 == ty && g_recInts && wn) rec("A %s %016llx %.*s\n", tyRec[t2], got, (int)wn, w);
  }
  if (val >= -((i128)1 << 53) && val <= ((i128)1 << 53)) {   // integers of this size are exact doubles
    String a; v.attach(a); setctxf("String.toDouble/%s", st);
    double d = a.toDouble(), wd = (double)(long long)val; cnt("double_attached_parses"); ++g_ops;
    if (d != wd) { char k[128]; snprintf(k, sizeof k, "String.toDouble/%s/value", st); fail(k, "toDouble() of a String attached to the %lu characters \"%.*s\" inside a larger block (behind them: %s) = %.17g, the value of exactly these characters is %.17g", (unsigned long)wn, (int)wn, w, foName[fo], d, wd); }
    v.intact("toDouble");
  }
  if (wn) {   // from(to(view)) == view, compared as Strings (a second view of the same characters)
    String a; v.attach(a); setctxf("String.%s/%s", tyTo[ty], st);
    unsigned long long x = parseMember(ty, a); setctxf("String.%s/after-%s-of-attached-view", tyFrom[ty], tyTo[ty]); String back = fromMember(ty, x); String b; v.attach(b);
    if (!(back == b) || back.length() != wn) { char k[128]; snprintf(k, sizeof k, "String.%s(%s)/%s/round-trip", tyFrom[ty], tyTo[ty], st); const char* bz = back;
      fail(k, "%s(%s()) of a String attached to the characters \"%.*s\" inside a larger block (behind them: %s) gives \"%.40s\"", tyFrom[ty], tyTo[ty], (int)wn, w, foName[fo], bz); }
    cnt("int_attached_round_trips"); cnt("int_attached_parses"); g_ops += 2;
  }
  cnt("int_attached_views"); if (fo == FO_DIGITS_NUL || fo == FO_DIGITS_END) cnt("int_attached_views_with_digits_behind"); if (fo == FO_DIGITS_END || fo == FO_SIGN_END || fo == FO_OTHER_END) cnt("int_attached_views_ending_at_block_end");
  setItem("attached_follow_classes", foName[fo]); setItem("attached_state_classes", st);
  hist.n = mark; if (hist.d) hist.d[hist.n] = 0;
}
// `text` is the library's own from*() result for the value (already compared with the reference digits): from*(x) -> attached view of that text -> to*() == x
static void attachedViews(int ty, i128 val, const String& text) {
  const char* w = text; size_t wn = text.length();
  if (g_allFollow) { for (int rep = 0; rep < 2; ++rep) for (int fo = 0; fo < FO_N; ++fo) oneAttachedView(ty, val, w, wn, fo); }
  else oneAttachedView(ty, val, w, wn, drawFollow(*g_ra));
}
// toDouble on an attached view of a decimal text; reference = libc strtod on a terminated copy of exactly the attached characters
static void attachedDouble(const char* w, size_t wn, int fo) {
  ExactZ z(w, wn); double wd = strtod(z.p, 0); AttView v(w, wn, fo, *g_ra); const char* st = v.state();
  hist.n = 0; hist.addf("double text \"%s\"\n", z.p); v.describe(hist);
  String a; v.attach(a); setctxf("String.toDouble/%s", st); double d = a.toDouble(); cnt("double_attached_parses"); cnt("double_texts_attached"); ++g_ops;
  if (memcmp(&d, &wd, sizeof d)) { char k[128]; snprintf(k, sizeof k, "String.toDouble/%s/value", st); fail(k, "toDouble() of a String attached to the %lu characters \"%s\" inside a larger block (behind them: %s) = %.17g, strtod of exactly these characters is %.17g", (unsigned long)wn, z.p, foName[fo], d, wd); }
  v.intact("toDouble"); setItem("attached_follow_classes", foName[fo]);
}
static void oneI32(int v, const char* cls) {
  char w[24]; size_t wn = refDigits(v < 0 ? 0ull - (unsigned long long)(long long)v : (unsigned long long)v, v < 0, w);
  hist.n = 0; hist.addf("int %s (%s)\n", w, cls);
  setctxf("String.fromInt/%s", cls); String s = String::fromInt(v); cmpText(s, w, wn, "String.fromInt", cls);
  ExactZ z(w, wn); String own(z.p, wn);
  setctxf("String.toInt/%s", cls); int a = s.toInt(), b = String::toInt(z.p), c = own.toInt(); cnt("int_parses", 3); g_ops += 4;
  if (a != v || b != v || c != v) { char k[96]; snprintf(k, sizeof k, "String.toInt/%s/value", cls); fail(k, "toInt(\"%s\") = %d / %d / %d (member on fromInt result, static, member on copy)", w, a, b, c); }
  if (g_recInts) rec("I i32 %08x %s\n", (unsigned)v, (const char*)s);
  attachedViews(TY_I32, (i128)v, s);
}
static void oneU32(unsigned v, const char* cls) {
  char w[24]; size_t wn = refDigits(v, false, w);
  hist.n = 0; hist.addf("uint %s (%s)\n", w, cls);
  setctxf("String.fromUInt/%s", cls); String s = String::fromUInt(v); cmpText(s, w, wn, "String.fromUInt", cls);
  ExactZ z(w, wn); String own(z.p, wn);
  setctxf("String.toUInt/%s", cls); unsigned a = s.toUInt(), b = String::toUInt(z.p), c = own.toUInt(); cnt("int_parses", 3); g_ops += 4;
  if (a != v || b != v || c != v) { char k[96]; snprintf(k, sizeof k, "String.toUInt/%s/value", cls); fail(k, "toUInt(\"%s\") = %u / %u / %u", w, a, b, c); }
  if (g_recInts) rec("I u32 %08x %s\n", v, (const char*)s);
  attachedViews(TY_U32, (i128)v, s);
}
static void oneI64(long long v, const char* cls) {
  char w[24]; size_t wn = refDigits(v < 0 ? 0ull - (unsigned long long)v : (unsigned long long)v, v < 0, w);
  hist.n = 0; hist.addf("int64 %s (%s)\n", w, cls);
  setctxf("String.fromInt64/%s", cls); String s = String::fromInt64((int64)v); cmpText(s, w, wn, "String.fromInt64", cls);
  ExactZ z(w, wn); String own(z.p, wn);
  setctxf("String.toInt64/%s", cls); long long a = s.toInt64(), b = String::toInt64(z.p), c = own.toInt64(); cnt("int_parses", 3); g_ops += 4;
  if (a != v || b != v || c != v) { char k[96]; snprintf(k, sizeof k, "String.toInt64/%s/value", cls); fail(k, "toInt64(\"%s\") = %lld / %lld / %lld", w, a, b, c); }
  if (g_recInts) rec("I i64 %016llx %s\n", (unsigned long long)v, (const char*)s);
  attachedViews(TY_I64, (i128)v, s);
}
static void oneU64(unsigned long long v, const char* cls) {
  char w[24]; size_t wn = refDigits(v, false, w);
  hist.n = 0; hist.addf("uint64 %s (%s)\n", w, cls);
  setctxf("String.fromUInt64/%s", cls); String s = String::fromUInt64((uint64)v); cmpText(s, w, wn, "String.fromUInt64", cls);
  ExactZ z(w, wn); String own(z.p, wn);
  setctxf("String.toUInt64/%s", cls); unsigned long long a = s.toUInt64(), b = String::toUInt64(z.p), c = own.toUInt64(); cnt("int_parses", 3); g_ops += 4;
  if (a != v || b != v || c != v) { char k[96]; snprintf(k, sizeof k, "String.toUInt64/%s/value", cls); fail(k, "toUInt64(\"%s\") = %llu / %llu / %llu", w, a, b, c); }
  if (g_recInts) rec("I u64 %016llx %s\n", v, (const char*)s);
  attachedViews(TY_U64, (i128)v, s);
}
static void allTypes(unsigned long long bits, const char* cls) {
  oneI32((int)(unsigned)bits, cls); oneU32((unsigned)bits, cls); oneI64((long long)bits, cls); oneU64(bits, cls); cnt("int_values", 4);
}
static void integers() {
  for (long idx = opts.start; idx < opts.start + opts.cases; ++idx) {
    if (!mine(idx)) continue;
    beginCase(idx); Rng r(opts.seed, 1803, (u64)idx); Rng ra(opts.seed, 1813, (u64)idx); g_ra = &ra; g_allFollow = idx == 0;
    if (idx == 0) {   // boundaries: 0, +-1, +-2^k, +-2^k +- 1, min/max of each type, powers of ten (digit-count boundaries)
      g_recInts = true;
      allTypes(0, "zero"); allTypes(1, "boundary"); allTypes(~0ull, "boundary");
      for (int k = 0; k < 64; ++k) for (int d = -1; d <= 1; ++d) { unsigned long long p = (1ull << k) + (unsigned long long)(long long)d; allTypes(p, "power-of-two"); allTypes(0ull - p, "power-of-two"); }
      unsigned long long t = 1; for (int k = 0; k < 20; ++k) { for (int d = -1; d <= 1; ++d) { allTypes(t + (unsigned long long)(long long)d, "power-of-ten"); allTypes(0ull - (t + (unsigned long long)(long long)d), "power-of-ten"); } t *= 10; }
      oneI32(INT_MIN, "min"); oneI32(INT_MAX, "max"); oneU32(UINT_MAX, "max"); oneI64(LLONG_MIN, "min"); oneI64(LLONG_MAX, "max"); oneU64(ULLONG_MAX, "max"); cnt("int_values", 6);
      setItem("int_classes", "zero"); setItem("int_classes", "boundary"); setItem("int_classes", "power-of-two"); setItem("int_classes", "power-of-ten"); setItem("int_classes", "min"); setItem("int_classes", "max");
      sample("integer boundaries: 0, +-1, +-2^k(+-1) k<64, +-10^k(+-1) k<20, min/max of int, uint, int64, uint64");
      // an attached range of length 0 in front of digits: every member conversion gives 0
      for (int rep = 0; rep < 4; ++rep) for (int fo = 0; fo < FO_N; ++fo) { hist.n = 0; hist.add("empty attached range\n"); oneAttachedView(TY_I32, 0, "", 0, fo); cnt("int_attached_empty_views"); }
      // decimal texts with fraction / exponent through toDouble on attached views, every follow class
      static const char* const dtx[] = { "0.5", "1.25", "-3.75", "1e3", "2.5e-3", "123456.789", "-0.0001", "1e308", "4.9e-324", "1.7976931348623157e308", "9007199254740993", "0.1", "3.14159265358979", "-1e-5", "5e", "7.", ".5", "-.25e2" };
      for (unsigned i = 0; i < sizeof dtx / sizeof *dtx; ++i) for (int fo = 0; fo < FO_N; ++fo) attachedDouble(dtx[i], strlen(dtx[i]), fo);
      sample("attached views: every boundary value's from*() text inside a larger exactly-sized block, followed by each of {terminator, digits+terminator, digits to block end, sign+digit, .d/ed+terminator, one non-digit byte at block end}, through toInt/toUInt/toInt64/toUInt64/toDouble and from*(to*(view)) == view");
    } else {
      for (int i = 0; i < 250; ++i) {
        g_recInts = (i & 15) == 0; unsigned long long v = r.next();
        switch (r.below(4)) { case 0: break; case 1: v >>= r.below(64); break; case 2: v = 0ull - (v >> r.below(64)); break; default: v = (unsigned long long)r.below(100000) * (r.chance(1, 2) ? 1 : ~0ull); break; }
        allTypes(v, "random");
      }
      for (int i = 0; i < 16; ++i) {   // random finite doubles in shortest-exact notation through toDouble on an attached view
        union { double d; unsigned long long u; } x; x.u = ra.next(); if (((x.u >> 52) & 0x7ff) == 0x7ff) x.u &= ~(1ull << 62);
        if (ra.chance(1, 4)) { int sh = (int)ra.below(64), den = (int)ra.below(12); x.d = (double)(long long)(x.u >> sh) / (double)(1 << den); }
        char t[40]; int n = snprintf(t, sizeof t, "%.17g", x.d); attachedDouble(t, (size_t)n, drawFollow(ra));
      }
      setItem("int_classes", "random");
    }
    endCase(mix((u64)idx, r.next()), true);
  }
}

// ------------------------------------------------------------------------------------------------ fromHex
static void oneHex(const u8* b, size_t n, bool record) {
  Exact e(b, n); static const char UP[] = "0123456789ABCDEF";
  hist.n = 0; hist.add("fromHex bytes="); addHex(hist, b, n); hist.add("\n");
  setctx("String.fromHex"); String s = String::fromHex((const byte*)e.p, n); cnt("hex_calls"); ++g_ops; const char* z = s;
  if (s.length() != 2 * n) fail("String.fromHex/length", "fromHex of %lu bytes has length %lu", (unsigned long)n, (unsigned long)s.length());
  for (size_t i = 0; i < n; ++i) if (z[2 * i] != UP[b[i] >> 4] || z[2 * i + 1] != UP[b[i] & 15]) fail("String.fromHex/digits", "byte 0x%02x at offset %lu rendered as \"%c%c\"", b[i], (unsigned long)i, z[2 * i], z[2 * i + 1]);
  if (z[2 * n] != 0) fail("String.fromHex/terminator", "result of %lu bytes input is not terminated", (unsigned long)n);
  cnt("hex_bytes_compared", (long)n);
  if (record) { Text t; t.add("X "); addHex(t, b, n); t.add(" "); t.add(z, s.length()); t.add("\n"); rec("%s", t.c()); }
}
static void hexMode() {
  for (long idx = opts.start; idx < opts.start + opts.cases; ++idx) {
    if (!mine(idx)) continue;
    beginCase(idx); Rng r(opts.seed, 1804, (u64)idx); u8 b[600];
    if (idx == 0) { oneHex(b, 0, true); for (int i = 0; i < 256; ++i) { b[0] = (u8)i; oneHex(b, 1, true); } cnt("hex_single_bytes", 256); sample("fromHex of the empty input and of every single byte"); }
    else if (idx <= 16) { for (int i = (int)(idx - 1) * 16; i < (int)idx * 16; ++i) for (int j = 0; j < 256; ++j) { b[0] = (u8)i; b[1] = (u8)j; oneHex(b, 2, (j & 31) == 0); } }
    else for (int k = 0; k < 20; ++k) { size_t n = r.chance(1, 4) ? (size_t)r.below(600) : (size_t)r.below(64); for (size_t i = 0; i < n; ++i) b[i] = (u8)r.next(); oneHex(b, n, (k & 3) == 0); statMax("max_hex_input", (long)n); }
    endCase(mix((u64)idx, b[0]), true);
  }
}

// ------------------------------------------------------------------------------------------------ base64
static const char B64[] = "ABCDEFGHIJKLMNOPQRSTUVWXYZabcdefghijklmnopqrstuvwxyz0123456789+/";
static void refB64Encode(const u8* b, size_t n, Text& out) {   // RFC 4648 section 4, with padding
  out.clear(); size_t i = 0;
  for (; i + 3 <= n; i += 3) { u32 v = (u32)b[i] << 16 | (u32)b[i + 1] << 8 | b[i + 2]; char c[4] = { B64[v >> 18], B64[(v >> 12) & 63], B64[(v >> 6) & 63], B64[v & 63] }; out.add(c, 4); }
  if (n - i == 1) { u32 v = (u32)b[i] << 16; char c[4] = { B64[v >> 18], B64[(v >> 12) & 63], '=', '=' }; out.add(c, 4); }
  else if (n - i == 2) { u32 v = (u32)b[i] << 16 | (u32)b[i + 1] << 8; char c[4] = { B64[v >> 18], B64[(v >> 12) & 63], B64[(v >> 6) & 63], '=' }; out.add(c, 4); }
}
static int b64val(u8 c) { for (int i = 0; i < 64; ++i) if ((u8)B64[i] == c) return i; return -1; }
// strict decoder: returns true and fills out iff s is a canonical RFC 4648 encoding (alphabet only, padding only at the end, zero trailing bits)
static bool refB64Strict(const u8* s, size_t n, Vec<u8>& out) {
  out.clear(); if (n % 4) return false;
  for (size_t i = 0; i < n; i += 4) {
    int v[4]; int pad = 0;
    for (int k = 0; k < 4; ++k) { u8 c = s[i + k]; if (c == '=') { if (i + 4 != n || k < 2) return false; ++pad; v[k] = 0; } else { if (pad) return false; v[k] = b64val(c); if (v[k] < 0) return false; } }
    u32 w = (u32)v[0] << 18 | (u32)v[1] << 12 | (u32)v[2] << 6 | (u32)v[3];
    if (pad == 2 && (v[1] & 15)) return false; if (pad == 1 && (v[2] & 3)) return false;
    out.push((u8)(w >> 16)); if (pad < 2) out.push((u8)(w >> 8)); if (pad < 1) out.push((u8)w);
  }
  return true;
}
static void cmpBytes(const String& got, const u8* want, size_t wn, const char* key, const char* what) {
  const char* z = got;
  if (got.length() != wn || (wn && memcmp(z, want, wn))) { Text g, w; addHex(g, z, got.length() < 64 ? got.length() : 64); addHex(w, want, wn < 64 ? wn : 64); fail(key, "%s: decoded %lu bytes %s, original %lu bytes %s", what, (unsigned long)got.length(), g.c(), (unsigned long)wn, w.c()); }
  if (z[wn] != 0) fail("String.fromBase64/terminator", "%s: decoded String is not terminated", what);
}
// decode one RFC 4648 encoding of b[0..n)
static void oneB64(const u8* b, size_t n, bool record) {
  Text enc; refB64Encode(b, n, enc);
  hist.n = 0; hist.addf("fromBase64(\"%.400s\") of %lu original bytes\n", enc.c(), (unsigned long)n);
  setctx("String.fromBase64/rfc4648-encoding");
  ExactZ z(enc.c(), enc.n); String owned(z.p, enc.n); String att; att.attach(z.p, enc.n);
  String d1 = String::fromBase64(owned), d2 = String::fromBase64(att); cnt("b64_decodes", 2); g_ops += 2;
  const char* cls = n % 3 == 0 ? "no-padding" : n % 3 == 1 ? "two-pad" : "one-pad"; setItem("b64_padding_classes", cls);
  char key[96]; snprintf(key, sizeof key, "String.fromBase64/rfc4648-encoding/%s/content", cls);
  cmpBytes(d1, b, n, key, "owned input String"); cmpBytes(d2, b, n, key, "input String attached to an exactly-sized block");
  cnt("b64_roundtrips"); cnt("b64_bytes_compared", (long)n * 2); statMax("max_b64_original_length", (long)n);
  if (record) { Text t; t.add("B "); t.add(enc.c(), enc.n); t.add(" "); addHex(t, (const char*)d1, d1.length()); t.add("\n"); rec("%s", t.c()); }
}
static void b64Exh2() {   // all byte strings of length 0..2
  long lo = opts.start, hi = opts.cases < 0 ? 256 : opts.start + opts.cases; if (hi > 256) hi = 256;
  for (long idx = lo; idx < hi; ++idx) {
    if (!mine(idx)) continue;
    beginCase(idx); u8 b[2]; b[0] = (u8)idx;
    if (idx == 0) oneB64(b, 0, true);
    oneB64(b, 1, true); for (int j = 0; j < 256; ++j) { b[1] = (u8)j; oneB64(b, 2, true); }
    if (idx == 0x41) sample("%.200s (and every other byte string of length 0..2)", hist.c());
    endCase((u64)idx, true);
  }
}
static void b64Exh3() {   // all byte strings of length 3; case = (b0, b1 >> 4)
  long total = 4096, lo = opts.start, hi = opts.cases < 0 ? total : opts.start + opts.cases; if (hi > total) hi = total;
  for (long idx = lo; idx < hi; ++idx) {
    if (!mine(idx)) continue;
    beginCase(idx); u8 b[3]; b[0] = (u8)(idx >> 4);
    for (int b1 = 0; b1 < 16; ++b1) for (int b2 = 0; b2 < 256; ++b2) { b[1] = (u8)((idx & 15) << 4 | b1); b[2] = (u8)b2; oneB64(b, 3, b2 == 0x5a); }
    endCase((u64)idx, true);
  }
}
static void b64Random() {
  for (long idx = opts.start; idx < opts.start + opts.cases; ++idx) {
    if (!mine(idx)) continue;
    beginCase(idx); Rng r(opts.seed, 1805, (u64)idx); u8 b[300]; size_t n = r.chance(1, 3) ? (size_t)r.below(12) : (size_t)r.below(301);
    int kind = (int)r.below(5); for (size_t i = 0; i < n; ++i) b[i] = kind == 0 ? 0 : kind == 1 ? 0xff : (u8)r.next();
    oneB64(b, n, true);
    if (idx % 1013 == 0) sample("%.300s", hist.c());
    endCase(mix(n, b[0]), n >= 1);
  }
}
// arbitrary bytes: memory safety (ASan/UBSan), determinism across the two input representations, and - when the input happens to be a canonical encoding - the decoded value
static void oneB64Bytes(const u8* s, size_t n) {
  bool high = false; for (size_t i = 0; i < n; ++i) if (s[i] >= 0x80) high = true;
  if (high && excluded(K_B64_HIGH)) { cnt("b64_inputs_skipped_excluded"); return; }
  Vec<u8> want; bool canon = refB64Strict(s, n, want);
  hist.n = 0; hist.add("fromBase64 input bytes="); addHex(hist, s, n); hist.add("\n");
  setctx(high ? "String.fromBase64/byte>=0x80" : canon ? "String.fromBase64/rfc4648-encoding" : "String.fromBase64/arbitrary-bytes");
  ExactZ z(s, n); String owned(z.p, n); String att; att.attach(z.p, n);
  String d1 = String::fromBase64(owned), d2 = String::fromBase64(att); cnt("b64_decodes", 2); g_ops += 2; cnt("b64_arbitrary_inputs"); if (high) cnt("b64_inputs_with_high_bytes");
  const char* q1 = d1; const char* q2 = d2;
  if (d1.length() != d2.length() || memcmp(q1, q2, d1.length())) fail("String.fromBase64/arbitrary-bytes/nondeterministic", "owned and attached input Strings with equal content decode differently");
  if (q1[d1.length()] != 0) fail("String.fromBase64/terminator", "decoded String is not terminated");
  if (d1.length() > n / 4 * 3) fail("String.fromBase64/arbitrary-bytes/length", "%lu input bytes decoded to %lu bytes", (unsigned long)n, (unsigned long)d1.length());
  if (canon) { cmpBytes(d1, want.d ? want.d : (const u8*)"", want.n, "String.fromBase64/rfc4648-encoding/enumerated/content", "enumerated input that is a canonical encoding"); cnt("b64_roundtrips"); cnt("b64_canonical_among_arbitrary"); }
  else if (d1.length() == 0) cnt("b64_arbitrary_rejected"); else cnt("b64_arbitrary_lenient_decoded");
}
static void b64Bytes() {
  for (long idx = opts.start; idx < opts.start + opts.cases; ++idx) {
    if (!mine(idx)) continue;
    beginCase(idx); Rng r(opts.seed, 1806, (u64)idx); u64 fp = (u64)idx;
    if (idx < 96) {   // 6 position pairs x 16 slices of the first free byte: both free positions of a 4-byte group take all 256^2 values
      static const int pairs[6][2] = { { 0, 1 }, { 0, 2 }, { 0, 3 }, { 1, 2 }, { 1, 3 }, { 2, 3 } };
      const int* pr = pairs[idx / 16]; int slice = (int)(idx % 16);
      static const char* fills[] = { "QUJD", "QQ==", "QUI=", "////", "zz++" };
      for (int x = slice * 16; x < slice * 16 + 16; ++x) for (int y = 0; y < 256; ++y) {
        u8 g[12]; const char* f = fills[(x + y) % 5]; memcpy(g + 4, f, 4); g[4 + pr[0]] = (u8)x; g[4 + pr[1]] = (u8)y;
        oneB64Bytes(g + 4, 4);                                               // the group alone
        if ((y & 3) == 0) { memcpy(g, "QUJD", 4); oneB64Bytes(g, 8); }        // after a valid group
        if ((y & 3) == 1) { memcpy(g + 8, "QUJD", 4); oneB64Bytes(g + 4, 8); } // before a valid group
        cnt("b64_group_position_pairs");
      }
      char it[16]; snprintf(it, sizeof it, "pos%d+pos%d", pr[0], pr[1]); setItem("b64_free_positions", it);
    } else {
      for (int k = 0; k < 200; ++k) {
        u8 s[64]; size_t n = r.chance(3, 4) ? 4 * (size_t)r.below(13) : (size_t)r.below(50);
        for (size_t i = 0; i < n; ++i) { switch (r.below(10)) { case 0: s[i] = '='; break; case 1: s[i] = (u8)(0x80 + r.below(0x80)); break; case 2: s[i] = (u8)r.next(); break; case 3: s[i] = (u8)("{|}~\x7f@[`:/+ \0"[r.below(14)]); break; default: s[i] = (u8)B64[r.below(64)]; break; } }
        if (n >= 4 && r.chance(1, 3)) { s[n - 1] = '='; if (r.chance(1, 2)) s[n - 2] = '='; }
        oneB64Bytes(s, n); fp = mix(fp, n); cnt("b64_random_arbitrary");
      }
    }
    if (idx % 37 == 0) sample("%.200s", hist.c());
    endCase(fp, true);
  }
}

// ------------------------------------------------------------------------------------------------ probes
static int probe(const char* key) {
  if (!strcmp(key, K_B64_HIGH) || !strcmp(key, "String.fromBase64/byte>=0x80")) {
    // minimal reproducer: one 4-byte group whose first byte is 0xff -> base64de[255] of a 123-entry table
    beginCase(0); u8 s[4] = { 0xff, 'A', 'A', 'A' }; oneB64Bytes(s, 4); u8 t[4] = { 'A', 'A', 'A', 0x80 }; oneB64Bytes(t, 4);
    return 0;
  }
  harnessBug("unknown probe %s", key);
}

int main(int argc, char** argv) {
  init(argc, argv, "h_codec"); hookUbsan();
  if (opts.probe) { int rc = probe(opts.probe); finish(); return rc; }
  const char* m = opts.mode;
  if (!strcmp(m, "cp")) codePoints();
  else if (!strcmp(m, "dec2")) dec2();
  else if (!strcmp(m, "dec3")) dec3();
  else if (!strcmp(m, "dec4")) dec4();
  else if (!strcmp(m, "dec-rand")) decRandom();
  else if (!strcmp(m, "int")) integers();
  else if (!strcmp(m, "hex")) hexMode();
  else if (!strcmp(m, "b64")) b64Exh2();
  else if (!strcmp(m, "b64-3")) b64Exh3();
  else if (!strcmp(m, "b64-rand")) b64Random();
  else if (!strcmp(m, "b64-bytes")) b64Bytes();
  else harnessBug("unknown mode %s", m);
  cnt("ops", g_ops);
  if (g_lenientAccepted) cnt("isvalid_lenient_accepted", g_lenientAccepted);
  if (g_lenientRejected) cnt("isvalid_lenient_rejected", g_lenientRejected);
  leakCheck("String/leak");
  finish();
  return 0;
}
