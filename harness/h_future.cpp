// h_future.cpp - C10: every Future call runs exactly once, join/destructor/conversion wait for it, pool liveness (bounded)
// One process = one thread-pool configuration (hook 2); many cases = seeded multi-client workloads with schedule perturbation at the
// VERIF_POINT hooks of src/Future.cpp (hook 1) and, in asan/plain builds, at the pthread shims.
#include "vh.hpp"
#include <nstd/Future.hpp>
#include <pthread.h>
#include <sched.h>
#include <time.h>
#include <dlfcn.h>

using namespace vh;

#define RLX __ATOMIC_RELAXED
// ------------------------------------------------------------------ job ledger (relaxed atomics only: must not add happens-before edges for TSan)
enum { MAXJOBS = 1 << 18 };
static int g_exec[MAXJOBS], g_done[MAXJOBS], g_argbad[MAXJOBS];
static long g_nextId = 0;
static int g_gateOpen = 0;
static long g_gatedWaits = 0;

static void bodyCommon(long id, int kind) {
  if (id < 0 || id >= MAXJOBS) fail("Future.start/arguments", "job body received id %ld outside the ledger (arguments corrupted)", id);
  __atomic_fetch_add(&g_exec[id], 1, RLX);
  switch (kind & 3) {
  case 0: break;
  case 1: { volatile unsigned x = 0; for (unsigned i = 0; i < 2000u + (unsigned)(id % 7) * 3000u; ++i) x += i; break; }
  case 2: { struct timespec ts = { 0, 20000 + (long)(id % 5) * 40000 }; nanosleep(&ts, 0); break; }
  default: { __atomic_fetch_add(&g_gatedWaits, 1, RLX); while (!__atomic_load_n(&g_gateOpen, RLX)) { struct timespec ts = { 0, 30000 }; nanosleep(&ts, 0); } break; }
  }
  __atomic_store_n(&g_done[id], 1, RLX);
}
static inline int resultOf(long id) { return (int)(id * 3 + 1); }
static inline long chk1(long id) { return id * 7 + 3; }
static inline long chk2(long id) { return (id ^ 0x5555) + 11; }
static const char* const kStr = "libnstd-verif-arg";
static void argBad(long id) { if (id >= 0 && id < MAXJOBS) __atomic_store_n(&g_argbad[id], 1, RLX); }

// result type that owns a resource and knows whether it is alive: the worker's `result = call()` into an already destroyed result object
// (Future destroyed / result member destroyed before the join) is caught at the assignment
struct TRes {
  long v; long magic; int* blk;
  TRes() : v(-1), magic(0x11FE), blk(new int(1)) {}
  TRes(long x) : v(x), magic(0x11FE), blk(new int(2)) {}
  TRes(const TRes& o) : v(o.v), magic(0x11FE), blk(new int(3)) { if (o.magic != 0x11FE) fail("Future.result/copied-from-destroyed-result", "result object copied after its destruction"); }
  ~TRes() { if (magic != 0x11FE) fail("Future.result/destroyed-twice", "result object destroyed twice"); magic = 0xDEAD; delete blk; blk = 0; }
  TRes& operator=(const TRes& o) { if (magic != 0x11FE) fail("Future.result/stored-into-destroyed-result", "the call's return value was stored into a result object that had already been destroyed (the Future was torn down before the call completed)"); v = o.v; return *this; }
};
static TRes fr2(long id, int kind) { bodyCommon(id, kind); return TRes(resultOf(id)); }
static TRes fr3(long id, int kind, long a) { if (a != chk1(id)) argBad(id); bodyCommon(id, kind); return TRes(resultOf(id)); }

// free functions, 0..5 arguments, int and void
struct ZSlot { long id; int kind; };
static ZSlot g_zslot[8];
#define ZFN(k) static int zi##k() { bodyCommon(g_zslot[k].id, g_zslot[k].kind); return resultOf(g_zslot[k].id); } static void zv##k() { bodyCommon(g_zslot[k].id, g_zslot[k].kind); }
ZFN(0) ZFN(1) ZFN(2) ZFN(3) ZFN(4) ZFN(5) ZFN(6) ZFN(7)
typedef int (*zi_t)(); typedef void (*zv_t)();
static zi_t g_zi[8] = { zi0, zi1, zi2, zi3, zi4, zi5, zi6, zi7 };
static zv_t g_zv[8] = { zv0, zv1, zv2, zv3, zv4, zv5, zv6, zv7 };
static int fi1(long id) { bodyCommon(id, (int)(id & 1)); return resultOf(id); }
static int fi2(long id, int kind) { bodyCommon(id, kind); return resultOf(id); }
static int fi3(long id, int kind, long a) { if (a != chk1(id)) argBad(id); bodyCommon(id, kind); return resultOf(id); }
static int fi4(long id, int kind, long a, long b) { if (a != chk1(id) || b != chk2(id)) argBad(id); bodyCommon(id, kind); return resultOf(id); }
static int fi5(long id, int kind, long a, long b, const char* s) { if (a != chk1(id) || b != chk2(id) || s != kStr) argBad(id); bodyCommon(id, kind); return resultOf(id); }
static void fv1(long id) { bodyCommon(id, (int)(id & 1)); }
static void fv2(long id, int kind) { bodyCommon(id, kind); }
static void fv3(long id, int kind, long a) { if (a != chk1(id)) argBad(id); bodyCommon(id, kind); }
static void fv4(long id, int kind, long a, long b) { if (a != chk1(id) || b != chk2(id)) argBad(id); bodyCommon(id, kind); }
static void fv5(long id, int kind, long a, long b, const char* s) { if (a != chk1(id) || b != chk2(id) || s != kStr) argBad(id); bodyCommon(id, kind); }
struct Obj {
  long id; int kind;
  TRes mr1(long a) { if (a != chk1(id)) argBad(id); bodyCommon(id, kind); return TRes(resultOf(id)); }
  int mi0() { bodyCommon(id, kind); return resultOf(id); }
  int mi1(long a) { if (a != chk1(id)) argBad(id); bodyCommon(id, kind); return resultOf(id); }
  int mi2(long a, long b) { if (a != chk1(id) || b != chk2(id)) argBad(id); bodyCommon(id, kind); return resultOf(id); }
  int mi3(long a, long b, const char* s) { if (a != chk1(id) || b != chk2(id) || s != kStr) argBad(id); bodyCommon(id, kind); return resultOf(id); }
  int mi4(long a, long b, const char* s, int k) { if (a != chk1(id) || b != chk2(id) || s != kStr || k != kind) argBad(id); bodyCommon(id, kind); return resultOf(id); }
  void mv0() { bodyCommon(id, kind); }
  void mv1(long a) { if (a != chk1(id)) argBad(id); bodyCommon(id, kind); }
  void mv2(long a, long b) { if (a != chk1(id) || b != chk2(id)) argBad(id); bodyCommon(id, kind); }
  void mv3(long a, long b, const char* s) { if (a != chk1(id) || b != chk2(id) || s != kStr) argBad(id); bodyCommon(id, kind); }
  void mv4(long a, long b, const char* s, int k) { if (a != chk1(id) || b != chk2(id) || s != kStr || k != kind) argBad(id); bodyCommon(id, kind); }
};

// ------------------------------------------------------------------ hook 1: schedule points
enum { NPOINTS = 21 };
static long g_pointHits[NPOINTS];
static int g_pointPermille[NPOINTS];
static long g_seq = 0;
static u64 g_sigAcc[256]; static int g_nthreadIdx = 0;
static __thread int t_idx = -1; static __thread u64 t_rng = 0;
static u64 g_caseSeed = 1;
static inline u64 trnd() { if (!t_rng) t_rng = (__atomic_load_n(&g_caseSeed, RLX) ^ ((u64)(t_idx + 3) * 0x9e3779b97f4a7c15ULL)) | 1; u64 x = t_rng; x ^= x << 13; x ^= x >> 7; x ^= x << 17; return t_rng = x; }
extern "C" void libnstd_verif_point(int id) {
  if (id < 0 || id >= NPOINTS) return;
  if (t_idx < 0) t_idx = __atomic_fetch_add(&g_nthreadIdx, 1, RLX) & 255;
  __atomic_fetch_add(&g_pointHits[id], 1, RLX);
  long s = __atomic_fetch_add(&g_seq, 1, RLX);
  __atomic_fetch_add(&g_sigAcc[t_idx], mix((u64)s, (u64)id), RLX);
  int p = __atomic_load_n(&g_pointPermille[id], RLX); if (!p) return;
  u64 r = trnd(); if ((int)(r % 1000) >= p) return;
  unsigned k = (unsigned)((r >> 12) % 10);
  if (id == 20) { struct timespec ts = { 0, (long)(300000 + (r >> 20) % 1700000) }; nanosleep(&ts, 0); return; }   // Thread::start: hold the creator well after the new thread runs
  if (k < 5) sched_yield();
  else if (k < 9) { struct timespec ts = { 0, (long)(1000 + (r >> 20) % 60000) }; nanosleep(&ts, 0); }
  else { struct timespec ts = { 0, (long)(100000 + (r >> 20) % 200000) }; nanosleep(&ts, 0); }
}
// ------------------------------------------------------------------ hook 2: pool configuration (one per process)
static const usize kCfg[16][3] = { {0,3,1}, {0,3,2}, {1,3,4}, {0,4,1}, {0,4,2}, {1,4,4}, {0,16,1}, {0,16,2}, {1,16,4}, {0,16,256}, {0,3,256}, {1,4,256}, {0,3,4}, {0,4,4}, {1,16,2}, {0,16,4} };
static int g_cfg = -1;
extern "C" void libnstd_verif_pool_config(usize* mn, usize* mx, usize* q) { if (g_cfg >= 0) { *mn = kCfg[g_cfg][0]; *mx = kCfg[g_cfg][1]; *q = kCfg[g_cfg][2]; } }

// ------------------------------------------------------------------ virtual skew of CLOCK_MONOTONIC (worker retirement needs > 2 s of idleness)
static volatile long g_skewMs = 0;
extern "C" int clock_gettime(clockid_t clk, struct timespec* ts) {
  typedef int (*fn_t)(clockid_t, struct timespec*); static fn_t realp = 0; fn_t real = __atomic_load_n(&realp, RLX); if (!real) { real = (fn_t)dlsym(RTLD_NEXT, "clock_gettime"); __atomic_store_n(&realp, real, RLX); }
  int r = real(clk, ts);
  if (r == 0 && clk == CLOCK_MONOTONIC) { long sk = __atomic_load_n(&g_skewMs, RLX); ts->tv_sec += sk / 1000; ts->tv_nsec += (sk % 1000) * 1000000L; if (ts->tv_nsec >= 1000000000L) { ts->tv_nsec -= 1000000000L; ++ts->tv_sec; } }
  return r;
}

// pthread shims (asan/plain builds) report through this
extern "C" volatile int verif_pt_delay_permille, verif_pt_spurious_permille; extern "C" volatile long verif_pt_delays, verif_pt_spurious, verif_pt_dead_uses;
#ifndef VERIF_NO_PTSHIMS
extern "C" void verif_pt_violation(const char* what, const void* addr) {
  char key[128]; snprintf(key, sizeof key, "Future.completion-signal/%s", what);
  fail(key, "%s: a thread is still using a condition variable/mutex at %p that its owner already destroyed (join returned before set() finished)", what, addr);
}
#endif

// ------------------------------------------------------------------ clients
struct FSlot {
  Future<int>* fi; Future<void>* fv; Future<TRes>* fr; bool isInt, isRes; long id; bool outstanding; bool abortCalled; Obj obj; int zslot;
};
struct Client {
  int idx; u64 seed; int nfut; int rounds; int gatedPermille; int abortPermille; pthread_t th;
  long started, joins, dtors, convs, restarts, aborts, abortedSeen, queueBusy, idleAborts;
};

static void verifyCompleted(FSlot& s, const char* how, bool objectAlive) {
  long id = s.id;
  int e = __atomic_load_n(&g_exec[id], RLX), d = __atomic_load_n(&g_done[id], RLX);
  char key[160];
  if (e != 1 || !d) { snprintf(key, sizeof key, "Future.%s/%s", how, e == 0 ? "returned-before-execution" : e > 1 ? "executed-more-than-once" : "returned-before-completion"); fail(key, "job %ld: after %s returned the call had been executed %d time(s), completed=%d", id, how, e, d); }
  if (__atomic_load_n(&g_argbad[id], RLX)) { snprintf(key, sizeof key, "Future.start/arguments"); fail(key, "job %ld received arguments different from the ones given to start()", id); }
  if (objectAlive) {
    bool ab = s.isRes ? s.fr->isAborted() : s.isInt ? s.fi->isAborted() : s.fv->isAborted(), fin = s.isRes ? s.fr->isFinished() : s.isInt ? s.fi->isFinished() : s.fv->isFinished();
    if (ab == fin) { snprintf(key, sizeof key, "Future.%s/state", how); fail(key, "job %ld: after %s isAborted()=%d isFinished()=%d (exactly one must hold)", id, how, (int)ab, (int)fin); }
    if (ab && !s.abortCalled) { snprintf(key, sizeof key, "Future.%s/aborted-without-abort", how); fail(key, "job %ld: isAborted() although abort() was not requested since the start", id); }
  }
  s.outstanding = false;
}

static void complete(Client& c, FSlot& s, Rng& r) {
  if (!s.outstanding) return;
  int how = (int)r.below(s.isInt || s.isRes ? 3 : 2);
  if (how == 0) { if (s.isRes) s.fr->join(); else if (s.isInt) s.fi->join(); else s.fv->join(); ++c.joins; verifyCompleted(s, "join", true); }
  else if (how == 1) { // destructor
    if (s.isRes) { delete s.fr; s.fr = 0; } else if (s.isInt) { delete s.fi; s.fi = 0; } else { delete s.fv; s.fv = 0; }
    ++c.dtors; verifyCompleted(s, "destructor", false);
    if (s.isRes) s.fr = new Future<TRes>; else if (s.isInt) s.fi = new Future<int>; else s.fv = new Future<void>;
  } else if (s.isRes) { const TRes& v = *s.fr; long got = v.v; ++c.convs; verifyCompleted(s, "result-conversion", true); if (v.magic != 0x11FE || got != resultOf(s.id)) fail("Future.result-conversion/value", "job %ld: converted result %ld, function returned %d", s.id, got, resultOf(s.id)); }
  else { const int& v = *s.fi; int got = v; ++c.convs; verifyCompleted(s, "result-conversion", true); if (got != resultOf(s.id)) fail("Future.result-conversion/value", "job %ld: converted result %d, function returned %d", s.id, got, resultOf(s.id)); }
  s.zslot = -1;
}

static void* clientMain(void* p) {
  Client& c = *(Client*)p; Rng r(c.seed, 4242, (u64)c.idx);
  Vec<FSlot> slots; bool zeroBusy = false;
  for (int i = 0; i < c.nfut; ++i) { FSlot s; memset(&s, 0, sizeof s); { int ty = (int)r.below(6); s.isInt = ty < 3; s.isRes = ty == 3; } if (s.isRes) s.fr = new Future<TRes>; else if (s.isInt) s.fi = new Future<int>; else s.fv = new Future<void>; s.zslot = -1; slots.push(s); }
  for (int round = 0; round < c.rounds; ++round) {
    FSlot& s = slots[r.below(slots.n)];
    // a pending member call reads s.obj and a pending 0-argument call reads the client's slot when it runs: complete those before reuse.
    // Otherwise restart directly half of the time: start() must then join the previous call itself.
    if (s.outstanding && (s.zslot != -1 || r.chance(1, 2))) { bool z = s.zslot >= 0; complete(c, s, r); if (z) zeroBusy = false; }
    bool restart = s.outstanding; long prevId = s.id;
    long id = __atomic_fetch_add(&g_nextId, 1, RLX);
    if (id >= MAXJOBS) break;
    int kind = r.chance((u32)c.gatedPermille, 1000) ? 3 : (int)r.below(3);
    int sig = (int)r.below(11); if (sig == 0 && zeroBusy) sig = 1 + (int)r.below(10);
    long a = chk1(id), b = chk2(id);
    s.zslot = -1;
    if (sig >= 6) { s.obj.id = id; s.obj.kind = kind; s.zslot = -2; }
    if (sig == 0) { g_zslot[c.idx].id = id; g_zslot[c.idx].kind = kind; s.zslot = c.idx; zeroBusy = true; }
    if (s.isRes) { Future<TRes>& f = *s.fr; if (sig == 0) { zeroBusy = false; s.zslot = -1; }   // no 0-argument variant for this result type
      if (sig >= 6) f.start(s.obj, &Obj::mr1, a); else if (sig & 1) f.start(&fr3, id, kind, a); else f.start(&fr2, id, kind);
    } else if (s.isInt) { Future<int>& f = *s.fi;
      switch (sig) {
      case 0: f.start(g_zi[c.idx]); break;
      case 1: f.start(&fi1, id); break; case 2: f.start(&fi2, id, kind); break; case 3: f.start(&fi3, id, kind, a); break; case 4: f.start(&fi4, id, kind, a, b); break; case 5: f.start(&fi5, id, kind, a, b, kStr); break;
      case 6: f.start(s.obj, &Obj::mi0); break; case 7: f.start(s.obj, &Obj::mi1, a); break; case 8: f.start(s.obj, &Obj::mi2, a, b); break;
      case 9: f.start(s.obj, &Obj::mi3, a, b, kStr); break; default: f.start(s.obj, &Obj::mi4, a, b, kStr, kind); break; }
    } else { Future<void>& f = *s.fv;
      switch (sig) {
      case 0: f.start(g_zv[c.idx]); break;
      case 1: f.start(&fv1, id); break; case 2: f.start(&fv2, id, kind); break; case 3: f.start(&fv3, id, kind, a); break; case 4: f.start(&fv4, id, kind, a, b); break; case 5: f.start(&fv5, id, kind, a, b, kStr); break;
      case 6: f.start(s.obj, &Obj::mv0); break; case 7: f.start(s.obj, &Obj::mv1, a); break; case 8: f.start(s.obj, &Obj::mv2, a, b); break;
      case 9: f.start(s.obj, &Obj::mv3, a, b, kStr); break; default: f.start(s.obj, &Obj::mv4, a, b, kStr, kind); break; }
    }
    ++c.started;
    if (restart) { // start() joined the previous call of this Future internally
      ++c.restarts;
      int e = __atomic_load_n(&g_exec[prevId], RLX), d = __atomic_load_n(&g_done[prevId], RLX);
      if (e != 1 || !d) fail("Future.start/restart-before-completion", "job %ld: start() of the next call returned although the previous call on the same Future had executed %d time(s), completed=%d", prevId, e, d);
      if (__atomic_load_n(&g_argbad[prevId], RLX)) fail("Future.start/arguments", "job %ld received arguments different from the ones given to start()", prevId);
    }
    s.id = id; s.outstanding = true; s.abortCalled = false;
    if (r.chance((u32)c.abortPermille, 1000)) { if (s.isRes) s.fr->abort(); else if (s.isInt) s.fi->abort(); else s.fv->abort(); s.abortCalled = true; ++c.aborts; }
    if (r.chance(1, 3)) { FSlot& o = slots[r.below(slots.n)]; bool z = o.zslot >= 0; if (o.outstanding) { complete(c, o, r); if (z) zeroBusy = false; } }
    if (r.chance(1, 8)) { FSlot& o = slots[r.below(slots.n)]; if (!o.outstanding) { if (o.isRes) o.fr->abort(); else if (o.isInt) o.fi->abort(); else o.fv->abort(); ++c.idleAborts; } }   // abort() on an idle Future: must not carry over to the next start
  }
  for (size_t i = 0; i < slots.n; ++i) { bool z = slots[i].zslot >= 0; complete(c, slots[i], r); if (z) zeroBusy = false; }
  for (size_t i = 0; i < slots.n; ++i) { delete slots[i].fi; delete slots[i].fv; delete slots[i].fr; }
  return 0;
}

struct GateArg { long delayUs; };
static void* gateMain(void* p) { GateArg* g = (GateArg*)p; struct timespec ts = { g->delayUs / 1000000, (g->delayUs % 1000000) * 1000 }; nanosleep(&ts, 0); __atomic_store_n(&g_gateOpen, 1, RLX); return 0; }

static void runCases() {
  int nseen = 0; u64 sigs[4096]; int nsigs = 0;
  for (long idx = opts.start; idx < opts.start + opts.cases; ++idx) {
    if (!mine(idx)) continue;
    int cfg = (int)(idx % 16);
    if (g_cfg < 0) g_cfg = cfg; else if (cfg != g_cfg) continue;   // one pool configuration per process
    beginCase(idx);
    Rng r(opts.seed, 1010, (u64)idx);
    u64 caseSeed = r.next() | 1; __atomic_store_n(&g_caseSeed, caseSeed, RLX);
    int nclients = (int)r.range(1, 8), nfut = (int)(r.chance(1, 4) ? r.range(8, 64) : r.range(1, 8)), rounds = (int)r.range(1, 50);
    int gated = r.chance(1, 2) ? (int)r.range(100, 900) : 0, abortp = r.chance(1, 2) ? (int)r.range(50, 500) : 0;
    int heavy = r.chance(1, 3);
    for (int i = 0; i < NPOINTS; ++i) __atomic_store_n(&g_pointPermille[i], r.chance(1, 3) ? 0 : (int)r.range(5, heavy ? 600 : 150), RLX);
#ifndef VERIF_NO_PTSHIMS
    verif_pt_delay_permille = r.chance(1, 2) ? (int)r.range(5, 200) : 0; verif_pt_spurious_permille = r.chance(1, 2) ? (int)r.range(5, 100) : 0;
#endif
    if (r.chance(1, 3)) __atomic_store_n(&g_pointPermille[20], (int)r.range(300, 1000), RLX);   // widen the window between pthread_create and the handle store
    if (r.chance(1, 3)) __atomic_fetch_add(&g_skewMs, 3000, RLX);   // lets the retire-a-worker branch trigger on the next start
    hist.addf("# pool(min=%lu,max=%lu,queue=%lu) clients=%d futures/client=%d rounds=%d gated=%d/1000 abort=%d/1000 heavy-delays=%d skewMs=%ld\n",
              (unsigned long)kCfg[g_cfg][0], (unsigned long)kCfg[g_cfg][1], (unsigned long)kCfg[g_cfg][2], nclients, nfut, rounds, gated, abortp, heavy, (long)g_skewMs);
    setctxf("Future/workload");
    long firstId = 0; __atomic_store_n(&g_nextId, 0, RLX); __atomic_store_n(&g_gateOpen, gated ? 0 : 1, RLX);
    Client cl[8]; memset(cl, 0, sizeof cl);
    for (int i = 0; i < nclients; ++i) { cl[i].idx = i; cl[i].seed = caseSeed; cl[i].nfut = nfut; cl[i].rounds = rounds; cl[i].gatedPermille = gated; cl[i].abortPermille = abortp; pthread_create(&cl[i].th, 0, clientMain, &cl[i]); }
    GateArg ga = { (long)r.range(100, 6000) }; pthread_t gth; pthread_create(&gth, 0, gateMain, &ga);
    for (int i = 0; i < nclients; ++i) pthread_join(cl[i].th, 0);
    pthread_join(gth, 0);
    long n = __atomic_load_n(&g_nextId, RLX); if (n > MAXJOBS) n = MAXJOBS;
    for (long id = firstId; id < n; ++id) {
      int e = __atomic_load_n(&g_exec[id], RLX);
      if (e != 1) fail(e == 0 ? "Future/job-lost" : "Future/job-duplicated", "job %ld executed %d time(s) by the end of the run", id, e);
      g_exec[id] = g_done[id] = g_argbad[id] = 0;
    }
    long st = 0; for (int i = 0; i < nclients; ++i) { st += cl[i].started; cnt("completions_join", cl[i].joins); cnt("completions_destructor", cl[i].dtors); cnt("completions_conversion", cl[i].convs); cnt("restarts_joined_by_start", cl[i].restarts); cnt("aborts_requested", cl[i].aborts); cnt("aborts_on_idle_future", cl[i].idleAborts); }
    cnt("jobs", st); cnt("ops", st); cnt("client_threads", nclients);
    u64 sig = 0; int nt = __atomic_load_n(&g_nthreadIdx, RLX); if (nt > 256) nt = 256; for (int i = 0; i < nt; ++i) sig += __atomic_exchange_n(&g_sigAcc[i], 0, RLX);
    bool fresh = true; for (int i = 0; i < nsigs; ++i) if (sigs[i] == sig) fresh = false; if (fresh && nsigs < 4096) sigs[nsigs++] = sig;
    if (nseen++ < 2) sample("%s jobs=%ld interleaving-signature=%016llx", hist.c(), st, (unsigned long long)sig);
    endCase(sig, nclients >= 2 && st >= 4);
  }
  // shrink phase right before the pool is destroyed (static destructor at exit): after a long idle period a few cheap calls make the pool retire several
  // workers in a row, so that contexts of already retired workers are still listed when ~ThreadPool runs (it must not wait for jobs nobody consumes)
  if (g_cfg >= 0) { __atomic_fetch_add(&g_skewMs, 5000, RLX); setctx("Future/shrink-phase-before-exit");
    for (int k = 0; k < 12; ++k) { Future<void> f; f.start(&fv1, (long)(2 * (k % 4))); f.join(); if (k % 3 == 2) { struct timespec ts = { 0, 200000 }; nanosleep(&ts, 0); } cnt("shrink_phase_calls"); }
    for (long id = 0; id < 8; ++id) g_exec[id] = g_done[id] = 0; }
  static const char* pn[NPOINTS] = { "p0", "push_after_cas", "push_before_publish", "pop_after_cas", "pop_before_release", "fastsignal_set", "fastsignal_reset", "fastsignal_wait", "worker_pop_failed", "worker_after_reset", "worker_before_wait", "worker_dequeued", "run_queue_full", "run_after_reset", "run_before_wait", "run_before_enqueued_set", "run_after_enqueued_set", "run_spawn_worker", "run_retire_worker", "future_set", "thread_start_after_create" };
  for (int i = 1; i < NPOINTS; ++i) { char nm[64]; snprintf(nm, sizeof nm, "point_%s", pn[i]); cnt(nm, __atomic_load_n(&g_pointHits[i], RLX)); if (__atomic_load_n(&g_pointHits[i], RLX)) setItem("points_hit", pn[i]); }
  cnt("distinct_interleaving_signatures", nsigs); cnt("gated_job_waits", g_gatedWaits);
#ifndef VERIF_NO_PTSHIMS
  cnt("pthread_shim_delays", verif_pt_delays); cnt("pthread_shim_spurious_wakeups", verif_pt_spurious);
#endif
  if (g_cfg >= 0) { char c[64]; snprintf(c, sizeof c, "min%lu-max%lu-queue%lu", (unsigned long)kCfg[g_cfg][0], (unsigned long)kCfg[g_cfg][1], (unsigned long)kCfg[g_cfg][2]); setItem("pool_configs", c); }
}

int main(int argc, char** argv) {
  init(argc, argv, "h_future");
  if (opts.probe) harnessBug("no probes in h_future");
  runCases();
  finish();
  return 0;
}
