// h_sync.cpp - C11: Mutex, Semaphore, Signal, Monitor, Thread contracts under seeded multi-thread scenarios.
// Every operation is logged at the client boundary (invoke seq, return seq, result, monotonic timestamps) to the --rec file; vlib/lincheck.py checks
// each history against the sequential specification (Wing-Gong search). Online: occupancy counters inside critical sections (plain ints: TSan flags missing
// exclusion, an assertion flags overlap), lower bounds on timed waits, counting oracles for Monitor, bounded-progress templates, destroy-after-wait templates.
#include "vh.hpp"
#include <nstd/Mutex.hpp>
#include <nstd/Semaphore.hpp>
#include <nstd/Signal.hpp>
#include <nstd/Monitor.hpp>
#include <nstd/Thread.hpp>
#include <pthread.h>
#include <sched.h>
#include <time.h>

using namespace vh;
#define RLX __ATOMIC_RELAXED

extern "C" volatile int verif_pt_delay_permille, verif_pt_spurious_permille, verif_pt_eintr_permille; extern "C" volatile long verif_pt_delays, verif_pt_spurious, verif_pt_dead_uses, verif_pt_eintrs;
#ifndef VERIF_NO_PTSHIMS
static const char* g_prim = "?";
extern "C" void verif_pt_violation(const char* what, const void* addr) {
  char key[128]; snprintf(key, sizeof key, "%s.lifetime/%s", g_prim, what);
  fail(key, "%s on the object at %p after its owner destroyed it (a notifier still touched the primitive after the waiter had returned)", what, addr);
}
#endif

static long g_seq = 0;
static inline long nextSeq() { return __atomic_fetch_add(&g_seq, 1, RLX); }
static inline long nowNs() { struct timespec ts; clock_gettime(CLOCK_MONOTONIC, &ts); return ts.tv_sec * 1000000000L + ts.tv_nsec; }

struct OpRec { int thread, op; long arg; int res; long inv, ret, tinv, tret; };
enum { MAXOPS = 512 };
struct ThreadLog { OpRec ops[MAXOPS]; int n; };

struct Step { int op; long arg; };
struct Script { Step st[MAXOPS]; int n; };

struct Scenario;
struct TArg { Scenario* sc; int idx; pthread_t th; };
struct Scenario {
  int prim; int nthreads; Script scripts[5]; ThreadLog logs[5]; TArg targs[5];
  Mutex* mutex; Semaphore* sem; Signal* sig; Monitor* mon;
  int startGate; int reachedFinal; int finished; int announced; int returnedWaits;
  int occupancy; int ownerThread; int finalsReturned; int finishedPlain;   // occupancy/ownerThread are plain, protected by the primitive under test
  long timedFalseChecked;
};

static void spinPause(Rng& r) { unsigned k = (unsigned)r.below(4); if (k == 0) sched_yield(); else if (k == 1) { struct timespec ts = { 0, (long)r.range(1000, 80000) }; nanosleep(&ts, 0); } }

static inline OpRec* begin(Scenario& sc, int t, int op, long arg) { ThreadLog& l = sc.logs[t]; if (l.n >= MAXOPS) harnessBug("log overflow"); OpRec* o = &l.ops[l.n++]; o->thread = t; o->op = op; o->arg = arg; o->res = -1; o->tinv = nowNs(); o->inv = nextSeq(); o->ret = -1; return o; }
static inline void end(OpRec* o, int res) { o->ret = nextSeq(); o->tret = nowNs(); o->res = res; }
static void checkTimedFalse(Scenario& sc, OpRec* o, const char* prim) {
  // a timed wait may return false only after its timeout expired (lower bound; 1 ms absorbs REALTIME/MONOTONIC truncation)
  long lasted = o->tret - o->tinv; long need = (o->arg - 1) * 1000000L;
  if (lasted < need) { char key[96]; snprintf(key, sizeof key, "%s.wait(timeout)/returned-false-early", prim); fail(key, "timed wait of %ld ms returned false after only %ld us", o->arg, lasted / 1000); }
  __atomic_fetch_add(&sc.timedFalseChecked, 1, RLX);
}

// op codes. Mutex: 0 lock 1 tryLock 2 unlock 9 pause | Semaphore: 0 signal 1 wait 2 wait(t) 3 tryWait | Signal: 0 set 1 reset 2 wait 3 wait(t) | Monitor: 0 set 1 lock 2 tryLock 3 wait 4 wait(t) 5 unlock
static void* threadMain(void* p) {
  TArg& a = *(TArg*)p; Scenario& sc = *a.sc; int t = a.idx; Script& s = sc.scripts[t]; Rng r(opts.seed ^ 0x5151, (u64)curCase, (u64)t);
  while (!__atomic_load_n(&sc.startGate, RLX)) sched_yield();
  int depth = 0;
  for (int i = 0; i < s.n; ++i) {
    int op = s.st[i].op; long arg = s.st[i].arg;
    if (op == 9) { spinPause(r); continue; }
    bool isFinalUntimed = (sc.prim == 2 && op == 2 && i == s.n - 1) || (sc.prim == 3 && op == 3 && i == s.n - 2);
    switch (sc.prim) {
    case 0: { // Mutex
      if (op == 0 || op == 1) {
        OpRec* o = begin(sc, t, op, 0); bool ok = true; if (op == 0) sc.mutex->lock(); else ok = sc.mutex->tryLock(); end(o, ok);
        if (ok) { if (++depth == 1) { if (sc.occupancy != 0) fail(op == 0 ? "Mutex.lock/exclusion" : "Mutex.tryLock/exclusion", "two threads inside the critical section"); sc.occupancy = 1; sc.ownerThread = t; }
                  else if (sc.ownerThread != t || sc.occupancy != 1) fail("Mutex/exclusion", "re-entrant acquisition while another thread owns the critical section"); }
      } else if (op == 2 && depth > 0) {
        if (sc.ownerThread != t || sc.occupancy != 1) fail("Mutex/exclusion", "critical-section bookkeeping changed while the mutex was held");
        if (--depth == 0) sc.occupancy = 0;
        OpRec* o = begin(sc, t, 2, 0); sc.mutex->unlock(); end(o, 1); }
      break; }
    case 1: { // Semaphore
      if (op == 0) { OpRec* o = begin(sc, t, 0, 0); sc.sem->signal(); end(o, 1); }
      else if (op == 1) { OpRec* o = begin(sc, t, 1, 0); bool ok = sc.sem->wait(); end(o, ok); if (!ok) fail("Semaphore.wait/result", "untimed wait returned false"); }
      else if (op == 2) { OpRec* o = begin(sc, t, 2, arg); bool ok = sc.sem->wait(arg); end(o, ok); if (!ok) checkTimedFalse(sc, o, "Semaphore"); }
      else { OpRec* o = begin(sc, t, 3, 0); bool ok = sc.sem->tryWait(); end(o, ok); }
      break; }
    case 2: { // Signal
      if (op == 0) { OpRec* o = begin(sc, t, 0, 0); sc.sig->set(); end(o, 1); }
      else if (op == 1) { OpRec* o = begin(sc, t, 1, 0); sc.sig->reset(); end(o, 1); }
      else if (op == 2) { if (isFinalUntimed) __atomic_fetch_add(&sc.reachedFinal, 1, RLX); OpRec* o = begin(sc, t, 2, 0); bool ok = sc.sig->wait(); end(o, ok); if (!ok) fail("Signal.wait/result", "untimed wait returned false"); }
      else { OpRec* o = begin(sc, t, 3, arg); bool ok = sc.sig->wait(arg); end(o, ok); if (!ok) checkTimedFalse(sc, o, "Signal"); }
      break; }
    default: { // Monitor
      if (op == 0) { OpRec* o = begin(sc, t, 0, 0); sc.mon->set(); end(o, 1); }
      else if (op == 1) { OpRec* o = begin(sc, t, 1, 0); sc.mon->lock(); end(o, 1); ++depth; if (++sc.occupancy != 1) fail("Monitor.lock/exclusion", "two threads inside the monitor"); }
      else if (op == 2) { OpRec* o = begin(sc, t, 2, 0); bool ok = sc.mon->tryLock(); end(o, ok); if (ok) { ++depth; if (++sc.occupancy != 1) fail("Monitor.tryLock/exclusion", "two threads inside the monitor"); } }
      else if (op == 3 && depth > 0) { if (isFinalUntimed) __atomic_fetch_add(&sc.announced, 1, RLX); --sc.occupancy; OpRec* o = begin(sc, t, 3, 0); bool ok = sc.mon->wait(); end(o, ok); if (++sc.occupancy != 1) fail("Monitor.wait/exclusion", "wait returned without exclusive ownership of the monitor"); if (!ok) fail("Monitor.wait/result", "untimed wait returned false"); __atomic_fetch_add(&sc.returnedWaits, 1, RLX); if (isFinalUntimed) __atomic_fetch_add(&sc.finalsReturned, 1, RLX); }
      else if (op == 4 && depth > 0) { --sc.occupancy; OpRec* o = begin(sc, t, 4, arg); bool ok = sc.mon->wait(arg); end(o, ok); if (++sc.occupancy != 1) fail("Monitor.wait(timeout)/exclusion", "wait returned without exclusive ownership of the monitor"); if (!ok) checkTimedFalse(sc, o, "Monitor"); }
      else if (op == 5 && depth > 0) { --sc.occupancy; --depth; OpRec* o = begin(sc, t, 5, 0); sc.mon->unlock(); end(o, 1); }
      break; }
    }
  }
  { bool hasFinal = (sc.prim == 2 && s.n && s.st[s.n - 1].op == 2); if (!hasFinal) __atomic_fetch_add(&sc.finishedPlain, 1, RLX); }
  __atomic_fetch_add(&sc.finished, 1, RLX);
  return 0;
}

static void addStep(Script& s, int op, long arg = 0) { if (s.n < MAXOPS - 4) { s.st[s.n].op = op; s.st[s.n].arg = arg; ++s.n; } }

static void genScripts(Scenario& sc, Rng& r) {
  for (int t = 0; t < sc.nthreads; ++t) {
    Script& s = sc.scripts[t]; s.n = 0; int n = (int)r.range(3, 10); int depth = 0;
    switch (sc.prim) {
    case 0:
      for (int i = 0; i < n; ++i) { int k = (int)r.below(10); if (k < 3) { addStep(s, 0); ++depth; } else if (k < 6) { addStep(s, 1); /* depth unknown until run: unlock steps are no-ops when not held */ } else if (k < 8) addStep(s, 2); else addStep(s, 9); }
      for (int i = 0; i < 24; ++i) addStep(s, 2);   // release whatever is still held (no-op when depth is 0)
      break;
    case 1:
      for (int i = 0; i < n; ++i) { int k = (int)r.below(10); if (k < 4) addStep(s, 0); else if (k < 5) addStep(s, 1); else if (k < 7) addStep(s, 2, r.range(1, 25)); else if (k < 9) addStep(s, 3); else addStep(s, 9); }
      break;
    case 2:
      for (int i = 0; i < n; ++i) { int k = (int)r.below(10); if (k < 3) addStep(s, 0); else if (k < 5) addStep(s, 1); else if (k < 8) addStep(s, 3, r.range(1, 25)); else addStep(s, 9); }
      if (r.chance(1, 2)) addStep(s, 2);   // final untimed wait: main sets the signal last
      break;
    default:
      for (int i = 0; i < n; ++i) { int k = (int)r.below(10);
        if (k < 4) addStep(s, 0);
        else if (k < 8) { addStep(s, r.chance(1, 4) ? 2 : 1); if (r.chance(2, 3)) addStep(s, 4, r.range(1, 25)); if (r.chance(1, 3)) addStep(s, 9); addStep(s, 5); }
        else addStep(s, 9); }
      if (r.chance(1, 2)) { addStep(s, 1); addStep(s, 3); addStep(s, 5); /* final untimed wait, released by main's handshake */ s.st[s.n - 2].arg = 1; }
      break;
    }
  }
}

static const char* kPrim[] = { "Mutex", "Semaphore", "Signal", "Monitor" };

static void runScenario(long idx, int prim) {
  beginCase(idx);
  Rng r(opts.seed, 1100 + (u64)prim, (u64)idx);
  Scenario* scp = new Scenario; Scenario& sc = *scp; memset(&sc, 0, sizeof sc);
  sc.prim = prim; sc.nthreads = (int)r.range(2, 4);
#ifndef VERIF_NO_PTSHIMS
  g_prim = kPrim[prim];
  verif_pt_delay_permille = r.chance(2, 3) ? (int)r.range(20, 400) : 0; verif_pt_spurious_permille = r.chance(1, 2) ? (int)r.range(20, 300) : 0;
  verif_pt_eintr_permille = (prim == 1 && r.chance(1, 2)) ? (int)r.range(50, 500) : 0;   // interrupted sem_timedwait: the library must retry, not give up early
#endif
  genScripts(sc, r);
  // Monitor's final step fix-up: the untimed wait is op 3 at position n-2 followed by unlock; mark "final" by making wait the last *blocking* step
  int initial = 0;
  switch (prim) { case 0: sc.mutex = new Mutex; break; case 1: initial = (int)r.below(3); sc.sem = new Semaphore((uint)initial); break; case 2: initial = (int)r.below(2); sc.sig = new Signal(initial != 0); break; default: sc.mon = new Monitor; break; }
  setctxf("%s/scenario", kPrim[prim]);
  hist.addf("# %s threads=%d initial=%d\n", kPrim[prim], sc.nthreads, initial);
  for (int t = 0; t < sc.nthreads; ++t) { hist.addf("T%d:", t); for (int i = 0; i < sc.scripts[t].n; ++i) { if (prim == 0 && i >= sc.scripts[t].n - 24) break; hist.addf(" %d(%ld)", sc.scripts[t].st[i].op, sc.scripts[t].st[i].arg); } hist.add("\n"); }
  int untimedFinal = 0, semBlocking = 0;
  for (int t = 0; t < sc.nthreads; ++t) { Script& s = sc.scripts[t];
    for (int i = 0; i < s.n; ++i) { if (prim == 1 && s.st[i].op >= 1 && s.st[i].op <= 3) ++semBlocking; }
    if (prim == 2 && s.n && s.st[s.n - 1].op == 2) ++untimedFinal;
    if (prim == 3 && s.n >= 2 && s.st[s.n - 2].op == 3) ++untimedFinal; }
  for (int t = 0; t < sc.nthreads; ++t) { sc.targs[t].sc = &sc; sc.targs[t].idx = t; pthread_create(&sc.targs[t].th, 0, threadMain, &sc.targs[t]); }
  int M = sc.nthreads;   // main logs as thread index nthreads
  __atomic_store_n(&sc.startGate, 1, RLX);
  long spins = 0; (void)spins;
  if (prim == 1) { // enough signals so that every untimed wait terminates (timed/try waits may steal some)
    struct timespec ts = { 0, (long)r.range(100000, 3000000) }; nanosleep(&ts, 0);
    for (int i = 0; i < semBlocking; ++i) { OpRec* o = begin(sc, M, 0, 0); sc.sem->signal(); end(o, 1); if (sc.logs[M].n >= MAXOPS - 1) break; }
  } else if (prim == 2) { // the final set() comes after every reset: a thread is past all its resets once it reached its final wait or finished
    while (!(__atomic_load_n(&sc.reachedFinal, RLX) == untimedFinal && __atomic_load_n(&sc.finishedPlain, RLX) == sc.nthreads - untimedFinal)) { struct timespec ts = { 0, 200000 }; nanosleep(&ts, 0); if (++spins > 300000) fail("Signal/scenario/no-progress", "threads did not reach their final operation within 60 s"); }
    { OpRec* o = begin(sc, M, 0, 0); sc.sig->set(); end(o, 1); }
  } else if (prim == 3) { // handshake: while a final waiter is proven to be inside wait() (announced under the lock, lock taken and released by main), set() must release a waiter
    long sinceProgress = 0; int lastReturned = 0;
    while (__atomic_load_n(&sc.finished, RLX) < sc.nthreads) {
      int ann = __atomic_load_n(&sc.announced, RLX), fr = __atomic_load_n(&sc.finalsReturned, RLX);
      if (ann > fr && sc.logs[M].n < MAXOPS - 3) { sc.mon->lock(); sc.mon->unlock(); OpRec* o = begin(sc, M, 0, 0); sc.mon->set(); end(o, 1); cnt("monitor_handshake_sets"); }
      struct timespec ts = { 0, 300000 }; nanosleep(&ts, 0);
      int rw = __atomic_load_n(&sc.returnedWaits, RLX) + __atomic_load_n(&sc.finished, RLX); if (rw != lastReturned) { lastReturned = rw; sinceProgress = 0; }
      if (++sinceProgress > 100000) fail("Monitor.set/waiter-not-released", "a waiter proven to be inside wait() was not released by repeated set() calls within 30 s");
    }
  }
  for (int t = 0; t < sc.nthreads; ++t) pthread_join(sc.targs[t].th, 0);
  // record the history for the offline checker
  rec("H %ld %s %d %d\n", idx, kPrim[prim], sc.nthreads + 1, initial);
  int nops = 0; int succWait = 0, sets = 0;
  for (int t = 0; t <= sc.nthreads; ++t) for (int i = 0; i < sc.logs[t].n; ++i) { OpRec& o = sc.logs[t].ops[i]; rec("O %d %d %ld %d %ld %ld %ld %ld\n", o.thread, o.op, o.arg, o.res, o.inv, o.ret, o.tinv, o.tret); ++nops;
    if (prim == 3) { if (o.op == 0) ++sets; if ((o.op == 3 || o.op == 4) && o.res == 1) ++succWait; } }
  rec("E\n");
  if (prim == 3) { // online counting oracle: the k-th successful wait (by return) needs >= k set() calls invoked before its return
    long rets[5 * MAXOPS]; int nr = 0; long invs[6 * MAXOPS]; int ni = 0;
    for (int t = 0; t <= sc.nthreads; ++t) for (int i = 0; i < sc.logs[t].n; ++i) { OpRec& o = sc.logs[t].ops[i]; if (o.op == 0) invs[ni++] = o.inv; if ((o.op == 3 || o.op == 4) && o.res == 1) rets[nr++] = o.ret; }
    for (int i = 0; i < nr; ++i) for (int j = i + 1; j < nr; ++j) if (rets[j] < rets[i]) { long x = rets[i]; rets[i] = rets[j]; rets[j] = x; }
    for (int k = 0; k < nr; ++k) { int c = 0; for (int i = 0; i < ni; ++i) if (invs[i] < rets[k]) ++c; if (c < k + 1) fail("Monitor.wait/more-successes-than-sets", "successful wait number %d returned although only %d set() calls had been invoked", k + 1, c); }
    cnt("monitor_successful_waits", succWait); cnt("monitor_sets", sets);
  }
  cnt("ops", nops); cnt("threads", sc.nthreads); cnt("timed_false_lower_bound_checked", sc.timedFalseChecked); cnt("final_untimed_waits", untimedFinal);
  { char nm[64]; snprintf(nm, sizeof nm, "scenarios_%s", kPrim[prim]); cnt(nm); }
  u64 fp = mix((u64)prim, (u64)idx); for (int t = 0; t <= sc.nthreads; ++t) for (int i = 0; i < sc.logs[t].n; ++i) fp = mix(fp, (u64)sc.logs[t].ops[i].inv * 7 + (u64)sc.logs[t].ops[i].ret);
  if (idx % 257 == 0) sample("%s", hist.c());
  setctxf("%s/destroy", kPrim[prim]);
  delete sc.mutex; delete sc.sem; delete sc.sig; delete sc.mon; delete scp;
  endCase(fp, nops >= 6);
}

// ---- destroy-right-after-wait templates: the waiter owns the primitive and destroys it as soon as wait() returned (as Future does)
struct DArg { Signal* sig; Monitor* mon; Semaphore* sem; int kind; int ready; };
static void* destroyWaiter(void* p) {
  DArg& d = *(DArg*)p;
  if (d.kind == 0) { __atomic_store_n(&d.ready, 1, RLX); d.sig->wait(); delete d.sig; }
  else if (d.kind == 1) { d.mon->lock(); __atomic_store_n(&d.ready, 1, RLX); d.mon->wait(); d.mon->unlock(); delete d.mon; }
  else { __atomic_store_n(&d.ready, 1, RLX); d.sem->wait(); delete d.sem; }
  return 0;
}
static void runDestroy(long idx) {
  beginCase(idx); Rng r(opts.seed, 1190, (u64)idx);
#ifndef VERIF_NO_PTSHIMS
  verif_pt_delay_permille = (int)r.range(100, 700); verif_pt_spurious_permille = r.chance(1, 2) ? (int)r.range(20, 300) : 0;
#endif
  DArg d; memset(&d, 0, sizeof d); d.kind = (int)r.below(3);
#ifndef VERIF_NO_PTSHIMS
  g_prim = d.kind == 0 ? "Signal" : d.kind == 1 ? "Monitor" : "Semaphore";
#endif
  setctxf("%s/destroy-after-wait", d.kind == 0 ? "Signal" : d.kind == 1 ? "Monitor" : "Semaphore");
  hist.addf("# destroy-after-wait kind=%d\n", d.kind);
  if (d.kind == 0) d.sig = new Signal; else if (d.kind == 1) d.mon = new Monitor; else d.sem = new Semaphore(0);
  pthread_t th; pthread_create(&th, 0, destroyWaiter, &d);
  while (!__atomic_load_n(&d.ready, RLX)) sched_yield();
  if (r.chance(1, 2)) { struct timespec ts = { 0, (long)r.range(1000, 300000) }; nanosleep(&ts, 0); }
  if (d.kind == 0) d.sig->set(); else if (d.kind == 1) { d.mon->lock(); d.mon->unlock(); d.mon->set(); } else d.sem->signal();
  pthread_join(th, 0);
  cnt("destroy_after_wait_runs"); cnt("ops", 2);
  endCase(mix(0xD, (u64)idx), true);
}

// ---- "set releases all current waiters": W waiters proven parked inside wait(), then set() immediately followed by reset()
#ifndef VERIF_NO_PTSHIMS
extern "C" int verif_pt_waiters(const void* cond);
struct PArg { Signal* sig; int returned; int timedMask; int next; };
static void* pulseWaiter(void* p) { PArg& a = *(PArg*)p; int me = __atomic_fetch_add(&a.next, 1, RLX); bool timed = (a.timedMask >> me) & 1;
  bool ok = timed ? a.sig->wait(15000) : a.sig->wait();
  if (!ok) fail(timed ? "Signal.set/then-reset/current-timed-waiter-not-released" : "Signal.wait/result", timed ? "a thread parked in wait(15000) when set() was called returned false (set(); reset() did not release it)" : "untimed wait returned false");
  __atomic_fetch_add(&a.returned, 1, RLX); return 0; }
#endif
static void runPulse(long idx) {
  beginCase(idx);
#ifndef VERIF_NO_PTSHIMS
  Rng r(opts.seed, 1195, (u64)idx); g_prim = "Signal";
  verif_pt_delay_permille = r.chance(1, 2) ? (int)r.range(20, 300) : 0; verif_pt_spurious_permille = 0;   // a spurious return would leave wait()'s inner cond_wait: keep the parked-proof exact
  int W = (int)r.range(1, 4); PArg a; a.sig = new Signal; a.returned = 0; a.next = 0; a.timedMask = (int)r.below(16); pthread_t th[4];
  setctx("Signal.set/then-reset/current-waiters"); hist.addf("# pulse: %d waiters parked in wait() / wait(15000) (timed mask %d), then set(); reset()\n", W, a.timedMask);
  for (int i = 0; i < W; ++i) pthread_create(&th[i], 0, pulseWaiter, &a);
#ifndef VERIF_NO_PRIVATE
  const void* cv = a.sig->cdata;
#else
  const void* cv = (const void*)a.sig;   // fallback flavour: the condition variable storage is the first member of Signal on this platform; if that ever changes the waiters simply never count as parked and the case is skipped below
#endif
  long spins = 0; bool parked = true; while (verif_pt_waiters(cv) < W) { sched_yield(); if (++spins > 20000000) { parked = false; break; } }
  if (!parked) { // cannot prove that the waiters are parked: release them and skip the verdict (never a violation)
    a.sig->set(); for (int i = 0; i < W; ++i) pthread_join(th[i], 0); delete a.sig; cnt("pulse_skipped_parking_not_provable"); endCase(0, false); return; }
  // every waiter incremented the counter while holding the Signal's mutex; set() needs that mutex, so it runs only once all of them are parked in cond_wait
  a.sig->set(); a.sig->reset();
  for (spins = 0; __atomic_load_n(&a.returned, RLX) < W; ++spins) { struct timespec ts = { 0, 200000 }; nanosleep(&ts, 0);
    if (spins > 150000) fail("Signal.set/then-reset/current-waiter-not-released", "%d of %d threads that were waiting when set() was called are still blocked 30 s after set(); reset()", W - a.returned, W); }
  for (int i = 0; i < W; ++i) pthread_join(th[i], 0);
  delete a.sig; cnt("pulse_runs"); cnt("pulse_waiters_released", W); cnt("ops", W + 2);
  endCase(mix(0xA, (u64)idx), true);
#else
  endCase(0, false);
#endif
}

// ---- Monitor, strict: "a set() issued after a waiter has taken the monitor releases a waiter" - one set(), one released waiter, even when timed waiters
// time out at the same moment. Only the main thread calls set(), and only when (a) an untimed waiter is proven inside wait() and (b) the previous
// set() has been consumed; it then requires one more successful wait (bounded progress, 30 s).
struct MS { Monitor* mon; int announced, untimedReturned, timedTrue, stop; int rounds; long timedFalse; };
static void* msUntimed(void* p) { MS& m = *(MS*)p; for (int i = 0; i < m.rounds; ++i) { m.mon->lock(); __atomic_fetch_add(&m.announced, 1, RLX); bool ok = m.mon->wait(); if (!ok) fail("Monitor.wait/result", "untimed wait returned false"); __atomic_fetch_add(&m.untimedReturned, 1, RLX); m.mon->unlock(); } return 0; }
struct MSTimed { MS* m; u64 seed; };
static void* msTimed(void* p) { MSTimed& a = *(MSTimed*)p; MS& m = *a.m; Rng r(a.seed, 1197, 0); while (!__atomic_load_n(&m.stop, RLX)) { m.mon->lock(); bool ok = m.mon->wait((int64)r.range(1, 4)); if (ok) __atomic_fetch_add(&m.timedTrue, 1, RLX); else __atomic_fetch_add(&m.timedFalse, 1, RLX); m.mon->unlock(); if (r.chance(1, 4)) sched_yield(); } return 0; }
static void runMonitorStrict(long idx) {
  beginCase(idx); Rng r(opts.seed, 1196, (u64)idx);
#ifndef VERIF_NO_PTSHIMS
  g_prim = "Monitor"; verif_pt_delay_permille = r.chance(1, 2) ? (int)r.range(20, 300) : 0; verif_pt_spurious_permille = r.chance(1, 2) ? (int)r.range(20, 200) : 0; verif_pt_eintr_permille = 0;
#endif
  MS m; memset(&m, 0, sizeof m); m.mon = new Monitor; m.rounds = (int)r.range(3, 20); int W = (int)r.range(1, 2), Z = (int)r.range(1, 2);
  setctx("Monitor.set/strict-handshake"); hist.addf("# monitor-strict: %d untimed waiter(s) x %d rounds, %d timed waiter(s) cycling wait(1..4 ms), only main calls set()\n", W, m.rounds, Z);
  pthread_t tw[2], tz[2]; MSTimed za[2];
  for (int i = 0; i < W; ++i) pthread_create(&tw[i], 0, msUntimed, &m);
  for (int i = 0; i < Z; ++i) { za[i].m = &m; za[i].seed = r.next(); pthread_create(&tz[i], 0, msTimed, &za[i]); }
  long sets = 0; int totalUntimed = W * m.rounds;
  while (__atomic_load_n(&m.untimedReturned, RLX) < totalUntimed) {
    long spins = 0;
    // (a) some untimed waiter announced (under the lock) and has not returned; taking and releasing the lock proves it is parked inside wait()
    while (__atomic_load_n(&m.announced, RLX) <= __atomic_load_n(&m.untimedReturned, RLX)) { struct timespec ts = { 0, 50000 }; nanosleep(&ts, 0); if (++spins > 600000) fail("Monitor/strict/no-progress", "untimed waiter never reached wait() within 30 s"); }
    m.mon->lock(); m.mon->unlock();
    long before = __atomic_load_n(&m.untimedReturned, RLX) + __atomic_load_n(&m.timedTrue, RLX);
    if (before != sets) fail("Monitor.wait/more-successes-than-sets", "%ld successful waits after %ld set() calls", before, sets);
    m.mon->set(); ++sets;
    for (spins = 0; __atomic_load_n(&m.untimedReturned, RLX) + __atomic_load_n(&m.timedTrue, RLX) < sets; ++spins) { struct timespec ts = { 0, 50000 }; nanosleep(&ts, 0);
      if (spins > 600000) fail("Monitor.set/waiter-not-released", "set() number %ld was issued while a waiter was inside wait(), but no wait returned true within 30 s (%d timed waiters were cycling)", sets, Z); }
    long after = __atomic_load_n(&m.untimedReturned, RLX) + __atomic_load_n(&m.timedTrue, RLX);
    if (after > sets) fail("Monitor.wait/more-successes-than-sets", "%ld successful waits after %ld set() calls", after, sets);
  }
  __atomic_store_n(&m.stop, 1, RLX);
  for (int i = 0; i < W; ++i) pthread_join(tw[i], 0); for (int i = 0; i < Z; ++i) pthread_join(tz[i], 0);
  delete m.mon; cnt("monitor_strict_sets", sets); cnt("monitor_strict_timed_timeouts", m.timedFalse); cnt("monitor_strict_sets_consumed_by_timed_waiter", m.timedTrue); cnt("ops", sets * 2);
  endCase(mix(0xB, (u64)idx), true);
}

// ---- Thread: join returns the proc's value after it has finished
static int g_threadSlots[8];
static uint threadProc(void* p) { long v = (long)p; for (volatile int i = 0; i < 1000 + (v % 7) * 500; ++i) {} g_threadSlots[v & 7] = (int)v; return (uint)(v * 3 + 1); }
struct TObj { long v; int slot; uint run() { for (volatile int i = 0; i < 500; ++i) {} slot = (int)v; return (uint)(v + 77); } };
static void runThread(long idx) {
  beginCase(idx); Rng r(opts.seed, 1180, (u64)idx);
  setctx("Thread.start+join"); int n = (int)r.range(1, 8);
  Thread* th = new Thread[8]; TObj objs[8]; long vals[8];
  for (int i = 0; i < n; ++i) { vals[i] = (long)(r.below(100000) * 8 + (u64)i); g_threadSlots[i] = -1; objs[i].v = vals[i]; objs[i].slot = -1;
    bool ok = (i & 1) ? th[i].start(objs[i], &TObj::run) : th[i].start(threadProc, (void*)vals[i]); if (!ok) fail("Thread.start/result", "start returned false");
    if (th[i].start(threadProc, (void*)vals[i])) fail("Thread.start/already-started", "second start on a running Thread object returned true"); }
  for (int i = n - 1; i >= 0; --i) { uint rv = th[i].join();
    if (i & 1) { if (rv != (uint)(vals[i] + 77)) fail("Thread.join/value", "join returned %u, thread function returned %u", rv, (uint)(vals[i] + 77)); if (objs[i].slot != (int)vals[i]) fail("Thread.join/returned-before-finish", "join returned before the thread function's last action was visible"); }
    else { if (rv != (uint)(vals[i] * 3 + 1)) fail("Thread.join/value", "join returned %u, thread function returned %u", rv, (uint)(vals[i] * 3 + 1)); if (g_threadSlots[vals[i] & 7] != (int)vals[i]) fail("Thread.join/returned-before-finish", "join returned before the thread function's last action was visible"); } }
  delete[] th;
  cnt("thread_joins", n); cnt("ops", 2 * n);
  endCase(mix(0x7, (u64)idx), n >= 2);
}

int main(int argc, char** argv) {
  init(argc, argv, "h_sync");
  if (opts.probe) harnessBug("no probes in h_sync");
  const char* m = opts.mode; int prim = !strcmp(m, "mutex") ? 0 : !strcmp(m, "semaphore") ? 1 : !strcmp(m, "signal") ? 2 : !strcmp(m, "monitor") ? 3 : !strcmp(m, "destroy") ? 10 : !strcmp(m, "thread") ? 11 : !strcmp(m, "pulse") ? 12 : !strcmp(m, "monitor-strict") ? 13 : -1;
  if (prim < 0) harnessBug("unknown mode %s", m);
  for (long idx = opts.start; idx < opts.start + opts.cases; ++idx) { if (!mine(idx)) continue; if (prim == 10) runDestroy(idx); else if (prim == 11) runThread(idx); else if (prim == 12) runPulse(idx); else if (prim == 13) runMonitorStrict(idx); else runScenario(idx, prim); }
#ifndef VERIF_NO_PTSHIMS
  cnt("pthread_shim_delays", verif_pt_delays); cnt("pthread_shim_spurious_wakeups", verif_pt_spurious); cnt("pthread_shim_injected_eintr", verif_pt_eintrs);
#endif
  leakCheck("sync/leak");
  finish();
  return 0;
}
