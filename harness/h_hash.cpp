// h_hash.cpp - C02: HashMap / HashSet / PoolMap against an insertion-ordered unique-key reference table
// modes: hmap, hset, pmap (swarm random histories; key type = case index % 3: Elem with generator-chosen hash / String / int),
//        pmapv (the pmap histories with a mapped type that has no user-provided default constructor: long / plain struct, alternating: an entry created
//        from a key only must hold V(), i.e. zero in every member, also when its slot held another entry before),
//        chains (directed: every insertion order of n<=N keys into capacity 1..3 tables, every removal position)
// Monitors: reference model = array of (key index, value id) in iteration order, compared after every operation (size, isEmpty, iteration both
// directions, find/contains for the whole universe plus absent keys, front/back, returned iterators/references, ==/!= against a second live table);
// Elem registry (keys and values are tracked elements); ASan/UBSan/LSan.
// Normal flavour only (-fno-access-control; everything inside #ifndef VERIF_NO_PRIVATE): structural walker (order list links, bucket chains acyclic, cell
// back-pointers, bucket index == hash % capacity, every live item in exactly one chain, the capacity member only changes by swap / assignment, free list
// acyclic and disjoint from the live items, every live and free item inside a block of this table without overlapping another one, live + free == slots
// of the blocks where the slot count of a block is derived from vh::allocSize(block) - no slot count is assumed) and the chain-position class of a removal.
// With -DVERIF_NO_PRIVATE the harness uses the public API only: all oracles of the first paragraph stay; walker, chain classes and their counters are absent.
#include "vh.hpp"
#include <nstd/HashMap.hpp>
#include <nstd/HashSet.hpp>
#include <nstd/PoolMap.hpp>
#include <nstd/String.hpp>

using namespace vh;

static const size_t npos = (size_t)-1;
static const int MAXU = 80;

struct Ent { int k; long v; };
typedef Vec<Ent> Model;
static size_t findKey(const Model& m, int k) { for (size_t i = 0; i < m.n; ++i) if (m[i].k == k) return i; return npos; }
static bool modelEq(const Model& a, const Model& b, bool values) { if (a.n != b.n) return false; for (size_t i = 0; i < a.n; ++i) if (a[i].k != b[i].k || (values && a[i].v != b[i].v)) return false; return true; }

// value type of PoolMap: default constructible only; the harness tags it after insertion
struct PVal { Elem guard; long tag; PVal() : guard(-7), tag(0) {} };
// plain mapped types of PoolMap (no user-provided default constructor): append(key) / insert(pos, key) of a new key must hand out V() - zero for the scalar,
// every member zero for the struct - whatever the storage of the new entry contained before. The harness fills every member with a non-zero pattern derived
// from the model value, so a recycled slot never holds zeros by accident.
static const char g_podAnchor = 'p';
struct Pod { int a; long tag; const void* p; double d; unsigned char b[5]; };
static long pvTag(const PVal& v) { return v.tag; }
static long pvTag(const long& v) { return v; }
static long pvTag(const Pod& v) { return v.tag; }
static void pvSet(PVal& x, long v) { x.tag = v; }
static void pvSet(long& x, long v) { x = v; }
static void pvSet(Pod& x, long v) { x.tag = v; x.a = (int)v + 1000003; x.p = &g_podAnchor; x.d = (double)v + 0.5; for (int i = 0; i < 5; ++i) x.b[i] = (unsigned char)(0xa1 + i); }
// 0 = the value is V(); otherwise the name of the first member that is not
static const char* pvNotFresh(const PVal& v) { return v.tag != 0 ? "tag" : v.guard.id != -7 ? "guard" : 0; }
static const char* pvNotFresh(const long& v) { return v != 0 ? "scalar" : 0; }
static const char* pvNotFresh(const Pod& v) { if (v.a != 0) return "int member"; if (v.tag != 0) return "long member"; if (v.p != 0) return "pointer member"; if (!(v.d == 0.0)) return "double member"; for (int i = 0; i < 5; ++i) if (v.b[i]) return "byte array member"; return 0; }
// a stored value still carries everything pvSet wrote (0 = yes; otherwise the member that does not)
static const char* pvDamaged(const PVal& v) { return v.guard.id != -7 ? "guard" : 0; }
static const char* pvDamaged(const long&) { return 0; }
static const char* pvDamaged(const Pod& v) { if (v.a != (int)v.tag + 1000003) return "int member"; if (v.p != &g_podAnchor) return "pointer member"; if (!(v.d == (double)v.tag + 0.5)) return "double member"; for (int i = 0; i < 5; ++i) if (v.b[i] != (unsigned char)(0xa1 + i)) return "byte array member"; return 0; }
static const char* pvClass(const PVal&) { return "class"; }
static const char* pvClass(const long&) { return "scalar"; }
static const char* pvClass(const Pod&) { return "plain-struct"; }

// ---------------------------------------------------------------- key families
struct KElem {
  typedef Elem K;
  static Elem make(int i) { return Elem(i + 1); }
  static int index(const Elem& k) { return (int)k.id - 1; }
  static const char* name() { return "Elem"; }
};
static int g_intTab[MAXU];
struct KInt {
  typedef int K;
  static int make(int i) { return g_intTab[i]; }
  static int index(const int& k) { for (int i = 0; i < MAXU; ++i) if (g_intTab[i] == k) return i; return -1; }
  static const char* name() { return "int"; }
};
static String g_strTab[MAXU];
static String g_strView[MAXU]; static char g_viewBuf[MAXU * 72 + 8]; static bool g_viewsReady = false;
struct KStr {
  typedef String K;
  // every third request hands out an equal String in another representation: attached, not zero terminated, a non-zero byte behind it
  static const String& make(int i) { static unsigned c = 0; return (g_viewsReady && ++c % 3 == 0) ? g_strView[i] : g_strTab[i]; }
  static int index(const String& k) { for (int i = 0; i < MAXU; ++i) if (g_strTab[i].length() == k.length() && !memcmp((const char*)g_strTab[i], (const char*)k, k.length())) return i; return -1; }
  static const char* name() { return "String"; }
};

enum { HMAP = 0, HSET = 1, PMAP = 2, PMAPL = 3, PMAPS = 4 };   // PMAP*: PoolMap with mapped type PVal (class) / long / Pod
static constexpr bool isPM(int kind) { return kind >= PMAP; }
template <class KT, int KIND> struct Sel;
template <class KT> struct Sel<KT, HMAP> { typedef Elem V; typedef HashMap<typename KT::K, Elem> C; static const char* name() { return "HashMap"; } };
template <class KT> struct Sel<KT, HSET> { typedef int V; typedef HashSet<typename KT::K> C; static const char* name() { return "HashSet"; } };
template <class KT> struct Sel<KT, PMAP> { typedef PVal V; typedef PoolMap<typename KT::K, PVal> C; static const char* name() { return "PoolMap"; } };
template <class KT> struct Sel<KT, PMAPL> { typedef long V; typedef PoolMap<typename KT::K, long> C; static const char* name() { return "PoolMap"; } };
template <class KT> struct Sel<KT, PMAPS> { typedef Pod V; typedef PoolMap<typename KT::K, Pod> C; static const char* name() { return "PoolMap"; } };

// ---------------------------------------------------------------- pointer set (structural walker; addresses of PoolMap values handed out so far)
struct PtrSet {
  const void** tab; size_t cap, n;
  PtrSet() : tab(0), cap(0), n(0) {}
  ~PtrSet() { free(tab); }
  void reset(size_t expect) { size_t want = 64; while (want < expect * 3) want *= 2; if (want > cap) { free(tab); tab = (const void**)malloc(want * sizeof(void*)); cap = want; } memset(tab, 0, cap * sizeof(void*)); n = 0; }
  size_t slot(const void* p) const { return (size_t)(((u64)(uintptr_t)p >> 3) * 0x9e3779b97f4a7c15ULL >> 20) & (cap - 1); }
  void grow() { const void** ot = tab; size_t oc = cap; cap *= 2; tab = (const void**)calloc(cap, sizeof(void*)); n = 0; for (size_t i = 0; i < oc; ++i) if (ot[i]) add(ot[i]); free(ot); }
  bool add(const void* p) { if ((n + 1) * 2 > cap) grow(); size_t s = slot(p); while (tab[s]) { if (tab[s] == p) return false; s = (s + 1) & (cap - 1); } tab[s] = p; ++n; return true; }
  bool has(const void* p) const { size_t s = slot(p); while (tab[s]) { if (tab[s] == p) return true; s = (s + 1) & (cap - 1); } return false; }
};
// addresses of the mapped values of all PoolMap entries created since the tables of the current case / chain table were set up (public API: the returned
// reference). A new entry at an address seen before occupies a recycled slot. Evidence only (which storage class the V() check observed), no verdict.
static PtrSet g_valueAddrs;

#ifndef VERIF_NO_PRIVATE
// Pool accounting of the walker. Nothing about the number of slots per block is assumed: a block is one heap allocation, its exact size comes from
// vh::allocSize (sanitizer builds; 0 = unknown, e.g. the plain -O2 build: every size-dependent sub-check is skipped then). From the library's own
// declarations only sizeof(ItemBlock) (the header in front of the slots) and sizeof(Item) (the slot width) are used.
struct BlkInfo { const char* start; size_t size, refOff, items; };
struct PoolAcct {
  Vec<BlkInfo> blk; bool sized;
  PoolAcct() : sized(false) {}
  static int cmp(const void* a, const void* b) { const char* x = ((const BlkInfo*)a)->start; const char* y = ((const BlkInfo*)b)->start; return x < y ? -1 : x > y ? 1 : 0; }
  void begin() { blk.clear(); sized = true; }
  void addBlock(const void* p) { BlkInfo b = { (const char*)p, allocSize(p), 0, 0 }; if (!b.size) sized = false; blk.push(b); }
  void seal() { if (blk.n > 1) qsort(blk.d, blk.n, sizeof(BlkInfo), cmp); }
  // the block whose allocation holds the bytes [p, p + bytes) behind its header, or 0
  BlkInfo* locate(const void* p, size_t hdr, size_t bytes) {
    const char* c = (const char*)p; size_t lo = 0, hi = blk.n;
    while (lo < hi) { size_t mid = (lo + hi) / 2; if (blk[mid].start <= c) lo = mid + 1; else hi = mid; }
    if (!lo) return 0;
    BlkInfo& b = blk[lo - 1]; size_t off = (size_t)(c - b.start);
    return off >= hdr && off + bytes <= b.size ? &b : 0;
  }
  // two distinct items of one block must be a whole number of slot widths apart (else they overlap)
  bool place(BlkInfo* b, const void* p, size_t bytes) { size_t off = (size_t)((const char*)p - b->start); if (!b->items++) { b->refOff = off; return true; } size_t d = off > b->refOff ? off - b->refOff : b->refOff - off; return d % bytes == 0; }
  size_t slots(size_t hdr, size_t bytes) const { size_t t = 0; for (size_t i = 0; i < blk.n; ++i) if (blk[i].size >= hdr) t += (blk[i].size - hdr) / bytes; return t; }
};

static long g_walks = 0, g_chainItems = 0, g_sizedWalks = 0;
static bool g_chainLenSeen[MAXU + 2], g_slotsPerBlockSeen[65];
#endif

template <class KT, int KIND> struct Ck {
  typedef typename Sel<KT, KIND>::C C;
  typedef typename C::Iterator It;
  typedef typename KT::K K;
  typedef typename Sel<KT, KIND>::V V;
  // cap: number of buckets the table works with. Normal flavour: the value of the private member read when the table was constructed / copied / assigned
  // (whatever the library chose), afterwards only swap may change it. Public-API flavour: the nominal value (constructor argument, 0 -> 1; 500 for default
  // constructed and copied tables) - there it only selects the generator's state class, no verdict depends on it.
  struct Box { C* c; Model ref; usize cap; Box() : c(0), cap(0) {} };
#ifndef VERIF_NO_PRIVATE
  typedef typename C::Item Item;
  typedef typename C::ItemBlock ItemBlock;
  static usize capOf(C& c, usize) { return c.capacity; }
#else
  static usize capOf(C&, usize nominal) { return nominal; }
#endif

  char keybuf[200];
  const char* key(const char* what) { snprintf(keybuf, sizeof keybuf, "%s/%s", (const char*)ctx, what); return keybuf; }
  static const char* cname() { return Sel<KT, KIND>::name(); }
#ifndef VERIF_NO_PRIVATE
  PtrSet live, freeSet; PoolAcct acct;
#endif

  static int kidx(const It& it) { if constexpr (KIND == HSET) return KT::index(*it); else return KT::index(it.key()); }
  static long val(const It& it) { if constexpr (KIND == HMAP) return (*it).id; else if constexpr (isPM(KIND)) return pvTag(*it); else return 0; }

  It iterAt(C& c, size_t idx) { It it = c.begin(); for (size_t i = 0; i < idx; ++i) { if (it == c.end()) fail(key("iteration"), "iteration ends after %lu entries, model has more", (unsigned long)i); ++it; } return it; }
  size_t indexOf(C& c, const It& x, size_t limit) { size_t i = 0; for (It it = c.begin();; ++it, ++i) { if (it == x) return i; if (it == c.end() || i > limit) return npos; } }

  // ------------------------------------------------------------ public-API comparison
  void contents(C& c, const Model& ref) {
    if (c.size() != ref.n) fail(key("size"), "size() %lu != model %lu", (unsigned long)c.size(), (unsigned long)ref.n);
    if (c.isEmpty() != (ref.n == 0)) fail(key("isEmpty"), "isEmpty() %d with model size %lu", (int)c.isEmpty(), (unsigned long)ref.n);
    size_t i = 0;
    for (It it = c.begin(), e = c.end(); it != e; ++it, ++i) {
      if (i >= ref.n) fail(key("iteration"), "forward iteration yields more than %lu entries", (unsigned long)ref.n);
      if (kidx(it) != ref[i].k || val(it) != ref[i].v) fail(key("iteration"), "forward position %lu holds (key#%d,%ld), model (key#%d,%ld)", (unsigned long)i, kidx(it), val(it), ref[i].k, ref[i].v);
      { const It cit = it; It nx = ++cit; It same = it; ++same; if (nx != same || cit != it) fail(key("iterator"), "const prefix ++ at position %lu does not yield the successor", (unsigned long)i); It back = --nx; (void)back; if (i && (--cit) == it) fail(key("iterator"), "const prefix -- at position %lu yields the same position", (unsigned long)i); }
      if (it.operator->() != &*it) fail(key("iterator"), "operator-> and operator* designate different objects at position %lu", (unsigned long)i);
      if constexpr (isPM(KIND)) { if (const char* bad = pvDamaged(*it)) fail(key("value"), "the %s of the value stored at position %lu (key#%d, %ld) no longer holds what was written to it", bad, (unsigned long)i, kidx(it), val(it)); }
    }
    if (i != ref.n) fail(key("iteration"), "forward iteration yields %lu entries, model %lu", (unsigned long)i, (unsigned long)ref.n);
    if (ref.n) {
      It it = c.end();
      for (size_t j = ref.n; j-- > 0;) { --it; if (kidx(it) != ref[j].k || val(it) != ref[j].v) fail(key("iteration"), "backward position %lu holds (key#%d,%ld), model (key#%d,%ld)", (unsigned long)j, kidx(it), val(it), ref[j].k, ref[j].v); }
      if (it != c.begin()) fail(key("iteration"), "backward iteration does not end at begin()");
      if constexpr (KIND == HMAP) {
        if (c.front().id != ref[0].v) fail(key("front"), "front() %ld != %ld", c.front().id, ref[0].v);
        if (c.back().id != ref[ref.n - 1].v) fail(key("back"), "back() %ld != %ld", c.back().id, ref[ref.n - 1].v);
      } else if constexpr (isPM(KIND)) {
        if (pvTag(c.front()) != ref[0].v) fail(key("front"), "front() %ld != %ld", pvTag(c.front()), ref[0].v);
        if (pvTag(c.back()) != ref[ref.n - 1].v) fail(key("back"), "back() %ld != %ld", pvTag(c.back()), ref[ref.n - 1].v);
      } else {
        const C& cc = c;
        if (KT::index(cc.front()) != ref[0].k) fail(key("front"), "front() key#%d != key#%d", KT::index(cc.front()), ref[0].k);
        if (KT::index(cc.back()) != ref[ref.n - 1].k) fail(key("back"), "back() key#%d != key#%d", KT::index(cc.back()), ref[ref.n - 1].k);
      }
      cnt("front_back_checks");
    } else if (c.begin() != c.end()) fail(key("iteration"), "begin() != end() on an empty table");
    cnt("entries_compared", (long)ref.n * 2);
  }

  void lookups(C& c, const Model& ref, int universe) {
    const C& cc = c;
    for (int k = 0; k < universe + 3; ++k) {
      size_t at = findKey(ref, k);
      const K& kk = KT::make(k);   // by reference: copying an attached String key would make it owned and terminated
      It it = cc.find(kk);
      if (at == npos) { if (it != cc.end()) fail(key("find"), "find(key#%d) returned an entry although the key is absent", k); }
      else {
        if (it == cc.end()) fail(key("find"), "find(key#%d) returned end() although the key is present at position %lu", k, (unsigned long)at);
        if (kidx(it) != k) fail(key("find"), "find(key#%d) returned key#%d", k, kidx(it));
        if (val(it) != ref[at].v) fail(key("find"), "find(key#%d) returned value %ld, model %ld", k, val(it), ref[at].v);
        if (it != iterAt(c, at)) fail(key("find"), "find(key#%d) returned an entry that is not the one at iteration position %lu", k, (unsigned long)at);
      }
      if (cc.contains(kk) != (at != npos)) fail(key("contains"), "contains(key#%d) = %d, model %d", k, (int)cc.contains(kk), (int)(at != npos));
      cnt("lookups");
    }
  }

  // operator==/!= against the second live table; the key names the relation of the two models, not the operation that happened to precede the comparison
  static const char* relation(const Model& a, const Model& b) {
    if (a.n != b.n) return "sizes-differ";
    if (modelEq(a, b, KIND == HMAP)) return a.n ? "equal" : "both-empty";
    if (modelEq(a, b, false)) return "values-differ";
    for (size_t i = 0; i < a.n; ++i) if (findKey(b, a[i].k) == npos) return "keys-differ";
    return "order-differs";
  }
  void equality(Box& a, Box& b) {
    if constexpr (!isPM(KIND)) {
      bool want = modelEq(a.ref, b.ref, KIND == HMAP); const char* rel = relation(a.ref, b.ref);
      char saved[256]; snprintf(saved, sizeof saved, "%s", (const char*)ctx);
      setctxf("%s.operator==/%s", cname(), rel); setItem("equality_relations", rel);
      const C& x = *a.c; const C& y = *b.c;
      if ((x == y) != want) fail(key("result"), "a == b is %d, model equality (order-sensitive) is %d; sizes %lu/%lu (after %s)", (int)(x == y), (int)want, (unsigned long)a.ref.n, (unsigned long)b.ref.n, saved);
      if ((y == x) != want) fail(key("result"), "b == a is %d, model equality is %d (after %s)", (int)(y == x), (int)want, saved);
      setctxf("%s.operator!=/%s", cname(), rel);
      if ((x != y) == want) fail(key("result"), "a != b is %d although model equality is %d (after %s)", (int)(x != y), (int)want, saved);
      if (want) { cnt("eq_true"); if (a.ref.n) cnt("eq_true_nonempty"); } else { cnt("eq_false"); if (a.ref.n == b.ref.n) cnt("eq_false_same_size"); }
      setctxf("%s", saved);
    }
  }

  // ------------------------------------------------------------ structural walker (private state)
#ifndef VERIF_NO_PRIVATE
  void structure(Box& b) {
    C& c = *b.c; const Model& ref = b.ref; usize cap = c.capacity;
    if (!cap) fail(key("structure"), "capacity member is 0");
    if (cap != b.cap) fail(key("structure"), "capacity member is %lu, it was %lu when the table was set up (only swap exchanges capacities)", (unsigned long)cap, (unsigned long)b.cap);
    if (c._end.item != &c.endItem) fail(key("structure"), "_end does not designate the sentinel");
    live.reset(ref.n + 4);
    Item* prev = 0; size_t n = 0;
    for (Item* i = c._begin.item; i != &c.endItem; i = i->next) {
      if (!i) fail(key("structure"), "order list reaches a null next pointer after %lu items", (unsigned long)n);
      if (n >= ref.n) fail(key("structure"), "order list holds more than %lu items", (unsigned long)ref.n);
      if (i->prev != prev) fail(key("structure"), "prev link wrong at order position %lu", (unsigned long)n);
      if (!live.add(i)) fail(key("structure"), "order list visits an item twice (cycle)");
      prev = i; ++n;
    }
    if (c.endItem.prev != prev) fail(key("structure"), "sentinel prev is not the last item");
    if (n != ref.n || c._size != n) fail(key("structure"), "order list holds %lu items, _size %lu, model %lu", (unsigned long)n, (unsigned long)c._size, (unsigned long)ref.n);
    // bucket chains
    if (!c.data) { if (n) fail(key("structure"), "no bucket array but %lu items", (unsigned long)n); }
    else {
      size_t tot = 0;
      for (usize bk = 0; bk < cap; ++bk) {
        Item** cell = &c.data[bk]; size_t len = 0;
        for (Item* i = *cell; i; cell = &i->nextCell, i = i->nextCell) {
          if (!live.has(i)) fail(key("structure"), "bucket %lu chains an item that is not in the order list (stale or freed item)", (unsigned long)bk);
          if (i->cell != cell) fail(key("structure"), "cell back-pointer of key#%d does not designate the cell that refers to it (bucket %lu, chain position %lu)", KT::index(i->key), (unsigned long)bk, (unsigned long)len);
          usize h = hash(i->key);
          if (h % cap != bk) fail(key("structure"), "key#%d with hash %lu sits in bucket %lu of %lu", KT::index(i->key), (unsigned long)h, (unsigned long)bk, (unsigned long)cap);
          ++len; ++tot;
          if (tot > n) fail(key("structure"), "bucket chains hold more than %lu items (cycle or item chained twice)", (unsigned long)n);
        }
        if (len) { g_chainLenSeen[len > (size_t)MAXU ? MAXU + 1 : len] = true; statMax("max_chain_length", (long)len); }
      }
      if (tot != n) fail(key("structure"), "bucket chains hold %lu items, order list %lu (an item is unreachable by find)", (unsigned long)tot, (unsigned long)n);
      g_chainItems += (long)tot;
    }
    // blocks and free list: free and live items are disjoint, the free list ends, every item lies in a block of this table and no two items overlap;
    // with known block sizes: every slot of every block is either live or free
    size_t nb = 0;
    for (ItemBlock* bl = c.blocks; bl; bl = bl->next) { if (++nb > 1000000) fail(key("structure"), "block list does not end"); }
    acct.begin();
    for (ItemBlock* bl = c.blocks; bl; bl = bl->next) acct.addBlock(bl);
    acct.seal();
    freeSet.reset(16);
    size_t nf = 0;
    for (Item* f = c.freeItem; f; f = f->prev) {
      if (live.has(f)) fail(key("structure"), "free list contains a live item");
      if (acct.sized) {
        BlkInfo* bi = acct.locate(f, sizeof(ItemBlock), sizeof(Item));
        if (!bi) fail(key("structure"), "free list contains a pointer that is not a slot of this table's blocks");
        if (!acct.place(bi, f, sizeof(Item))) fail(key("structure"), "a free item overlaps another item of its block");
      }
      if (!freeSet.add(f)) fail(key("structure"), "free list visits an item twice (cycle)");
      ++nf;
    }
    if (acct.sized) {
      for (Item* i = c._begin.item; i != &c.endItem; i = i->next) {
        BlkInfo* bi = acct.locate(i, sizeof(ItemBlock), sizeof(Item));
        if (!bi) fail(key("structure"), "live item is not a slot of this table's blocks");
        if (!acct.place(bi, i, sizeof(Item))) fail(key("structure"), "a live item overlaps another item of its block");
      }
      size_t total = acct.slots(sizeof(ItemBlock), sizeof(Item));
      if (nf + n != total) fail(key("structure"), "%lu live + %lu free items != %lu slots in %lu blocks (slot counts derived from the block sizes)", (unsigned long)n, (unsigned long)nf, (unsigned long)total, (unsigned long)nb);
      for (size_t i = 0; i < acct.blk.n; ++i) { size_t per = (acct.blk[i].size - sizeof(ItemBlock)) / sizeof(Item); g_slotsPerBlockSeen[per > 64 ? 64 : per] = true; }
      ++g_sizedWalks;
    }
    ++g_walks;
  }
#else
  void structure(Box&) {}   // public API only: no structural walk
#endif

  void all(Box& b, int universe, bool walk) { contents(*b.c, b.ref); if (walk) structure(b); lookups(*b.c, b.ref, universe); }

  // ------------------------------------------------------------ operations (model update + returned iterator/reference)
  enum { APPEND, PREPEND, INSERT };
  void opInsert(Box& b, int how, size_t posIdx, const char* posName, int k, long v) {
    C& c = *b.c; Model& ref = b.ref;
    size_t at = findKey(ref, k); bool exists = at != npos;
    const char* hn = how == APPEND ? "append" : how == PREPEND ? "prepend" : "insert";
    if (how == INSERT) { setctxf("%s.insert/pos=%s/%s", cname(), posName, exists ? "existing-key" : "new-key"); hist.addf("insert(before #%lu [%s], key#%d, %ld)\n", (unsigned long)posIdx, posName, k, v); }
    else { setctxf("%s.%s/%s", cname(), hn, exists ? "existing-key" : "new-key"); hist.addf("%s(key#%d, %ld)\n", hn, k, v); }
    size_t expect = exists ? at : how == APPEND ? ref.n : how == PREPEND ? 0 : posIdx;
    long oldv = exists ? ref[at].v : 0;
    if (exists) { if (KIND == HMAP) ref[at].v = v; cnt("insert_existing_key"); }
    else { Ent e = { k, KIND == HSET ? 0 : v }; ref.insert(expect, e); }
    const K& kk = KT::make(k);   // by reference: copying an attached String key would make it owned and terminated
    if constexpr (KIND == HMAP) {
      Elem value(v);
      if (how == INSERT) { It pos = iterAt(c, posIdx); It r = c.insert(pos, kk, value); if (c.size() != ref.n) fail(key("size"), "size() %lu after the call, model %lu", (unsigned long)c.size(), (unsigned long)ref.n); size_t ri = indexOf(c, r, ref.n); if (ri != expect) fail(key("returned-iterator"), "returned iterator is at position %ld, expected %lu", (long)ri, (unsigned long)expect); }
      else { Elem& r = how == APPEND ? c.append(kk, value) : c.prepend(kk, value); if (c.size() != ref.n) fail(key("size"), "size() %lu after the call, model %lu", (unsigned long)c.size(), (unsigned long)ref.n); It e = iterAt(c, expect); if (&*e != &r) fail(key("returned-reference"), "returned reference is not the value of the entry at position %lu", (unsigned long)expect); if (r.id != v) fail(key("returned-reference"), "returned value %ld, expected %ld", r.id, v); }
    } else if constexpr (KIND == HSET) {
      if (how == INSERT) { It pos = iterAt(c, posIdx); It r = c.insert(pos, kk); if (c.size() != ref.n) fail(key("size"), "size() %lu after the call, model %lu", (unsigned long)c.size(), (unsigned long)ref.n); size_t ri = indexOf(c, r, ref.n); if (ri != expect) fail(key("returned-iterator"), "returned iterator is at position %ld, expected %lu", (long)ri, (unsigned long)expect); }
      else if (how == APPEND) c.append(kk); else c.prepend(kk);
    } else {
      V* r;
      if (how == INSERT) { It pos = iterAt(c, posIdx); It ri = c.insert(pos, kk); if (c.size() != ref.n) fail(key("size"), "size() %lu after the call, model %lu", (unsigned long)c.size(), (unsigned long)ref.n); size_t rx = indexOf(c, ri, ref.n); if (rx != expect) fail(key("returned-iterator"), "returned iterator is at position %ld, expected %lu", (long)rx, (unsigned long)expect); r = &*ri; }
      else { r = &c.append(kk); if (c.size() != ref.n) fail(key("size"), "size() %lu after the call, model %lu", (unsigned long)c.size(), (unsigned long)ref.n); It e = iterAt(c, expect); if (&*e != r) fail(key("returned-reference"), "returned reference is not the value of the entry at position %lu", (unsigned long)expect); }
      if (exists) { if (pvTag(*r) != oldv) fail(key("value"), "existing entry's value changed from %ld to %ld", oldv, pvTag(*r)); }
      else {
        bool recycled = !g_valueAddrs.add(r);
        if constexpr (KIND == PMAP) { if (const char* bad = pvNotFresh(*r)) fail(key("value"), "new entry's value is not default constructed (%s, tag %ld)", bad, r->tag); }
        else {
          // mapped type without a user-provided default constructor: the entry created from the key alone holds V() (the reference map's value), not what
          // the storage held before
          if (const char* bad = pvNotFresh(*r)) { char kb[64]; snprintf(kb, sizeof kb, "value=%s/not-value-initialised", pvClass(*r)); fail(key(kb), "the value of the entry created for the new key#%d is not V(): its %s is not zero (the value as a whole reads as model value %ld); the entry occupies %s", k, bad, pvTag(*r), recycled ? "a slot that held another entry before (stale value of the removed entry?)" : "a slot that was never used before"); }
          cnt(recycled ? "plain_value_new_entry_recycled_slot" : "plain_value_new_entry_fresh_slot"); setItem("plain_value_insert_paths", how == INSERT ? "insert(pos,key)" : "append(key)");
        }
        cnt(recycled ? "pm_new_entry_recycled_slot" : "pm_new_entry_fresh_slot");
        pvSet(*r, v);
      }
    }
    (void)oldv;
    cnt(how == APPEND ? "op_append" : how == PREPEND ? "op_prepend" : "op_insert_pos");
  }

  // update of an existing key with a value argument that is a reference to the entry's own stored value (`m.append(k, *m.find(k))`): nothing may change
  void opUpdateAliased(Box& b, int k, int how) {
    if constexpr (KIND == HMAP) {
      C& c = *b.c; Model& ref = b.ref; size_t at = findKey(ref, k); if (at == npos) return;
      setctxf("%s.%s/existing-key/value=own-entry", cname(), how == 0 ? "append" : how == 1 ? "prepend" : "insert"); hist.addf("%s(key#%d, <its own stored value>)\n", how == 0 ? "append" : how == 1 ? "prepend" : "insert", k);
      const K& kk = KT::make(k); It it = c.find(kk); if (it == c.end()) fail(key("find"), "existing key not found");
      long before = (*it).id;
      if (how == 0) c.append(kk, *it); else if (how == 1) c.prepend(kk, *it); else { It pos = c.begin(); c.insert(pos, kk, *it); }
      It it2 = c.find(kk); if (it2 == c.end() || (*it2).id != before || before != ref[at].v) fail(key("value"), "value of the entry changed from %ld to %ld by an update with its own value", before, it2 == c.end() ? -1L : (*it2).id);
      cnt("op_update_with_own_value");
    }
  }

  // classify where in its bucket chain the entry sits (for the evidence and the context key); not observable through the public API
#ifndef VERIF_NO_PRIVATE
  const char* chainClass(C& c, const It& it) {
    Item* item = it.item;
    bool head = c.data && item->cell >= c.data && item->cell < c.data + c.capacity; bool tail = item->nextCell == 0;
    return head ? (tail ? "only" : "head") : (tail ? "tail" : "middle");
  }
#else
  const char* chainClass(C&, const It&) { return "unobserved"; }
#endif

  void opRemoveKey(Box& b, int k) {
    C& c = *b.c; size_t at = findKey(b.ref, k);
    const char* cls = "absent"; if (at != npos) { It it = iterAt(c, at); cls = chainClass(c, it); }
    setctxf("%s.remove(key)/chain-%s", cname(), cls); hist.addf("remove(key#%d)\n", k); setItem("chain_remove_pos", cls);
    const K& kk = KT::make(k);   // by reference: copying an attached String key would make it owned and terminated
    c.remove(kk);
    if (at != npos) b.ref.removeAt(at);
    cnt("op_remove_key"); if (at == npos) cnt("remove_absent_key");
  }
  void opRemoveIt(Box& b, size_t idx) {
    C& c = *b.c; It it = iterAt(c, idx); const char* cls = chainClass(c, it);
    setctxf("%s.remove(iterator)/chain-%s", cname(), cls); hist.addf("remove(iterator #%lu)\n", (unsigned long)idx); setItem("chain_remove_pos", cls);
    It r = c.remove(it);
    b.ref.removeAt(idx);
    if (c.size() != b.ref.n) fail(key("size"), "size() %lu after the call, model %lu", (unsigned long)c.size(), (unsigned long)b.ref.n);
    size_t ri = indexOf(c, r, b.ref.n); if (ri != idx) fail(key("returned-iterator"), "returned iterator is at position %ld, expected the successor at %lu", (long)ri, (unsigned long)idx);
    cnt("op_remove_it");
  }
  void opRemoveValue(Box& b, size_t idx) {   // PoolMap::remove(const V&)
    if constexpr (isPM(KIND)) {
      C& c = *b.c; It it = iterAt(c, idx); const char* cls = chainClass(c, it);
      setctxf("%s.remove(value)/chain-%s", cname(), cls); hist.addf("remove(value of #%lu)\n", (unsigned long)idx); setItem("chain_remove_pos", cls);
      V& v = *it; c.remove(v);
      b.ref.removeAt(idx); cnt("op_remove_value");
    }
  }
  void opRemoveEnd(Box& b, bool front) {
    C& c = *b.c; It it = front ? c.begin() : iterAt(c, b.ref.n - 1); const char* cls = chainClass(c, it);
    setctxf("%s.%s/chain-%s", cname(), front ? "removeFront" : "removeBack", cls); hist.add(front ? "removeFront\n" : "removeBack\n");
    It r = front ? c.removeFront() : c.removeBack();
    if (front) b.ref.removeAt(0); else b.ref.pop();
    if (front ? r != c.begin() : r != c.end()) fail(key("returned-iterator"), front ? "removeFront did not return begin()" : "removeBack did not return end()");
    cnt("op_remove_end");
  }
  void opClear(Box& b) { setctxf("%s.clear/%s", cname(), b.ref.n ? "non-empty" : "empty"); hist.add("clear\n"); b.c->clear(); b.ref.clear(); cnt("op_clear"); }
  void opSwap(Box& a, Box& b) {
    setctxf("%s.swap/%s-%s%s", cname(), a.ref.n ? "nonempty" : "empty", b.ref.n ? "nonempty" : "empty", a.cap != b.cap ? "/capacities-differ" : "");
    hist.addf("swap(other)   [sizes %lu/%lu capacities %lu/%lu]\n", (unsigned long)a.ref.n, (unsigned long)b.ref.n, (unsigned long)a.cap, (unsigned long)b.cap);
    setItem("swap_classes", (const char*)ctx + strlen(cname()) + 6);
    a.c->swap(*b.c); a.ref.swap(b.ref); usize t = a.cap; a.cap = b.cap; b.cap = t;
    cnt("op_swap");
  }
};

// ---------------------------------------------------------------- key universe setup
static void setupKeys(Rng& r, int keyFamily, int universe, usize capA, Text& h) {
  int n = universe + 3;
  if (keyFamily == 0) { static const char* hm[] = { "identity", "constant", "mod2", "mod3", "scrambled" }; elemHashMode = (long)r.below(5); h.addf("# Elem keys, hash mode %s\n", hm[elemHashMode]); setItem("key_families", hm[elemHashMode]); }
  else if (keyFamily == 1) {
    int style = (int)r.below(3);
    static const char* sn[] = { "String/natural", "String/equal-hash", "String/lengths" };
    for (int i = 0; i < MAXU; ++i) {
      char tmp[64];
      if (i >= n) { g_strTab[i] = String(); snprintf(tmp, sizeof tmp, "\x01unused%d", i); g_strTab[i] = String(tmp, strlen(tmp)); continue; }
      if (style == 0) snprintf(tmp, sizeof tmp, "k%d", i);
      else if (style == 1) snprintf(tmp, sizeof tmp, "A%03dM%03dZ", i, i * 7 % 1000);          // same length, first, middle and last byte: identical hash codes
      else { int len = i; if (len > 60) len = 60; for (int j = 0; j < len; ++j) tmp[j] = (char)('a' + i % 3); tmp[len] = 0; }   // "", "b", "cc", ...
      g_strTab[i] = String(tmp, strlen(tmp));
    }
    { size_t at = 0; g_viewBuf[at++] = '#'; for (int i = 0; i < MAXU; ++i) { size_t len = g_strTab[i].length(); memcpy(g_viewBuf + at, (const char*)g_strTab[i], len); g_strView[i].attach(g_viewBuf + at, len); at += len; g_viewBuf[at++] = (char)('!' + i % 90); } g_viewsReady = true; }
    h.addf("# String keys, style %s\n", sn[style]); setItem("key_families", sn[style]);
  } else {
    long stride; const char* sn;
    switch (r.below(4)) { case 0: stride = 1; sn = "int/consecutive"; break; case 1: stride = capA ? (long)capA : 1; sn = "int/stride=capacity"; break; case 2: stride = 500; sn = "int/stride=500"; break; default: stride = 65537; sn = "int/stride=65537"; break; }
    long off = r.chance(1, 2) ? 0 : -(long)(n / 2) * stride;    // negative keys: (usize)v is huge
    for (int i = 0; i < MAXU; ++i) g_intTab[i] = (int)(off + (long)i * stride);
    h.addf("# int keys, %s offset %ld\n", sn, off); setItem("key_families", sn);
  }
}

static usize pickCap(Rng& r, bool& dflt) {
  static const usize caps[] = { 0, 1, 1, 2, 2, 3, 3, 7, 16, 500 };
  dflt = r.chance(1, 8);
  return dflt ? 500 : caps[r.below(sizeof caps / sizeof *caps)];
}
template <class C> static C* makeTable(usize cap, bool dflt) { return dflt ? new C : new C(cap); }

// ---------------------------------------------------------------- random histories
template <class KT, int KIND> static void history(Ck<KT, KIND>& ck, Rng& r, long idx, int keyFamily) {
  typedef Ck<KT, KIND> CK; typedef typename CK::C C; typedef typename CK::Box Box;
  int universe = (int)(r.chance(1, 3) ? r.range(2, 8) : r.range(8, 48));
  int nops = (int)r.range(20, r.chance(1, 10) ? 600 : 300);
  bool dA, dB; usize capA = pickCap(r, dA), capB = pickCap(r, dB);
  hist.addf("# %s<%s> universe=%d nops=%d capacities %lu%s / %lu%s\n", CK::cname(), KT::name(), universe, nops, (unsigned long)capA, dA ? "(default ctor)" : "", (unsigned long)capB, dB ? "(default ctor)" : "");
  setupKeys(r, keyFamily, universe, capA, hist);
  if constexpr (isPM(KIND)) { g_valueAddrs.reset(64); setItem("value_families", KIND == PMAP ? "class" : KIND == PMAPL ? "scalar" : "plain-struct"); hist.addf("# mapped type: %s\n", KIND == PMAP ? "PVal (class with default constructor)" : KIND == PMAPL ? "long" : "Pod (plain struct)"); }
  { char t[32]; snprintf(t, sizeof t, "%lu", (unsigned long)capA); setItem("capacities", t); snprintf(t, sizeof t, "%lu", (unsigned long)capB); setItem("capacities", t); }
  enum { NK = 14 };
  int w[NK]; int tot = 0;
  for (int i = 0; i < NK; ++i) w[i] = r.chance(1, 4) ? 0 : (int)r.range(1, 10);
  w[0] += 3; if (r.chance(1, 2)) w[6] = r.chance(1, 2) ? 0 : 1; w[12] = w[12] ? 1 : 0; w[7] = (w[7] + 1) / 2; w[8] = (w[8] + 2) / 3; w[9] = (w[9] + 2) / 3; w[10] = (w[10] + 2) / 3; w[11] = (w[11] + 2) / 3;
  for (int i = 0; i < NK; ++i) tot += w[i];
  Box A, B; Box* mp = &A; Box* op = &B;
  setctxf("%s.constructor", CK::cname());
  A.c = makeTable<C>(capA, dA); A.cap = CK::capOf(*A.c, capA ? capA : 1); B.c = makeTable<C>(capB, dB); B.cap = CK::capOf(*B.c, capB ? capB : 1);
  ck.all(A, universe, true); ck.all(B, universe, true);
  long nextVal = 1; u64 fp = mix((u64)KIND * 3 + (u64)keyFamily, (u64)capA * 1000 + capB); bool removed = false; size_t maxn = 0;
  for (int o = 0; o < nops; ++o) {
    Box& m = *mp; Box& other = *op;
    int pick = (int)r.below((u64)tot), kind = 0; while (pick >= w[kind]) pick -= w[kind++];
    int k = (int)r.below((u64)universe);
    fp = mix(fp, (u64)kind * 131 + (u64)k);
    bool otherTouched = false;
    switch (kind) {
    case 0: if (KIND == HMAP && r.chance(1, 8)) { ck.opUpdateAliased(m, k, (int)r.below(3)); break; }
            ck.opInsert(m, CK::APPEND, 0, "", k, nextVal++); break;
    case 1: if (!isPM(KIND)) ck.opInsert(m, CK::PREPEND, 0, "", k, nextVal++); else ck.opInsert(m, CK::INSERT, 0, "begin", k, nextVal++); break;
    case 2: { size_t n = m.ref.n, pi; const char* pn; switch (r.below(5)) { case 0: pi = 0; pn = "begin"; break; case 1: pi = n; pn = "end"; break; case 2: pi = n ? n - 1 : 0; pn = n ? "last" : "end"; break; case 3: pi = n > 1 ? 1 : n; pn = n > 1 ? "second" : "end"; break; default: pi = r.below(n + 1); pn = pi == n ? "end" : pi == 0 ? "begin" : "middle"; break; }
        if (pi == 0 && n == 0) pn = "end"; setItem("insert_positions", pn); ck.opInsert(m, CK::INSERT, pi, pn, k, nextVal++); break; }
    case 3: ck.opRemoveKey(m, k); removed = true; break;
    case 4: if (m.ref.n) { size_t i = r.below(m.ref.n); if (isPM(KIND) && r.chance(1, 2)) ck.opRemoveValue(m, i); else ck.opRemoveIt(m, i); removed = true; } break;
    case 5: if (m.ref.n) { ck.opRemoveEnd(m, r.chance(1, 2)); removed = true; } break;
    case 6: ck.opClear(m); break;
    case 7: ck.opSwap(m, other); otherTouched = true; break;
    case 8:   // copy-construct, check, mutate the copy, check independence
      if constexpr (!isPM(KIND)) {
        setctxf("%s.copy-construct/%s", CK::cname(), m.ref.n ? "non-empty" : "empty"); hist.add("copy-construct; mutate the copy; destroy it\n");
        Box cp; cp.c = new C(*m.c); cp.ref = m.ref; cp.cap = CK::capOf(*cp.c, 500);   // the capacity of a copy is not specified: take what the library chose, the walker checks placement against it
        if (!cp.cap) fail("copy-construct/capacity", "copy has capacity 0");
        ck.all(cp, universe, true); ck.equality(cp, m);
        setctxf("%s.copy-construct/independence", CK::cname());
        switch (r.below(4)) { case 0: cp.c->clear(); cp.ref.clear(); break; case 1: if (cp.ref.n) { cp.c->removeFront(); cp.ref.removeAt(0); } break; case 2: if (cp.ref.n) { cp.c->removeBack(); cp.ref.pop(); } break; default: break; }
        { Ent e = { universe + 1, KIND == HSET ? 0 : -5 }; const typename KT::K& kk = KT::make(universe + 1); if constexpr (KIND == HMAP) cp.c->append(kk, Elem(-5)); else cp.c->append(kk); if (findKey(cp.ref, universe + 1) == npos) cp.ref.push(e); else if (KIND == HMAP) cp.ref[findKey(cp.ref, universe + 1)].v = -5; }
        ck.all(cp, universe, true); ck.all(m, universe, true);
        delete cp.c; cp.c = 0;
        ck.all(m, universe, true);
        cnt("op_copy_construct");
      }
      break;
    case 9:   // other = m (onto empty / non-empty), or replace other by a copy-constructed table (capacity 500)
      if constexpr (!isPM(KIND)) {
        if (r.chance(1, 4)) { setctxf("%s.copy-construct/%s", CK::cname(), m.ref.n ? "non-empty" : "empty"); hist.add("other := new copy of m\n"); C* nc = new C(*m.c); setctxf("%s.destructor", CK::cname()); delete other.c; other.c = nc; other.cap = CK::capOf(*nc, 500); other.ref = m.ref; setctxf("%s.copy-construct/%s", CK::cname(), m.ref.n ? "non-empty" : "empty"); cnt("op_copy_construct"); }
        else { setctxf("%s.operator=/onto-%s", CK::cname(), other.ref.n ? "non-empty" : "empty"); hist.add("other = m\n"); setItem("assign_classes", other.ref.n ? (m.ref.n ? "nonempty=nonempty" : "nonempty=empty") : (m.ref.n ? "empty=nonempty" : "empty=empty")); *other.c = *m.c; other.ref = m.ref; other.cap = CK::capOf(*other.c, other.cap); cnt("op_assign"); }
        otherTouched = true;
      }
      break;
    case 10:  // HashSet bulk operations
      if constexpr (KIND == HSET) {
        if (r.chance(1, 5)) {   // the set itself as argument: append(self) changes nothing, remove(self) empties the set
          if (r.chance(1, 2)) { setctxf("HashSet.append(other)/arg=self"); hist.add("m.append(m)\n"); C& self = *m.c; m.c->append(self); cnt("op_bulk_append_self"); }
          else { setctxf("HashSet.remove(other)/arg=self"); hist.add("m.remove(m)\n"); C& self = *m.c; m.c->remove(self); m.ref.clear(); removed = true; cnt("op_bulk_remove_self"); }
          break;
        }
        if (r.chance(1, 2)) { setctxf("HashSet.append(other)"); hist.add("m.append(other)\n"); m.c->append(*other.c); for (size_t i = 0; i < other.ref.n; ++i) if (findKey(m.ref, other.ref[i].k) == npos) m.ref.push(other.ref[i]); cnt("op_bulk_append"); }
        else { setctxf("HashSet.remove(other)"); hist.add("m.remove(other)\n"); m.c->remove(*other.c); for (size_t i = 0; i < other.ref.n; ++i) { size_t at = findKey(m.ref, other.ref[i].k); if (at != npos) m.ref.removeAt(at); } removed = true; cnt("op_bulk_remove"); }
      }
      break;
    case 11:  // other := perturbed rebuild of m through the public API (feeds the equality oracle with near-equal tables)
      if constexpr (!isPM(KIND)) {
        Model want(m.ref); int pert = (int)r.below(6); static const char* pn[] = { "identical", "two-swapped", "value-changed", "last-dropped", "key-replaced", "identical" };
        if (pert == 1 && want.n >= 2) { size_t i = r.below(want.n - 1); Ent t = want[i]; want[i] = want[i + 1]; want[i + 1] = t; }
        else if (pert == 2 && want.n && KIND == HMAP) want[r.below(want.n)].v = nextVal++;
        else if (pert == 3 && want.n) want.pop();
        else if (pert == 4 && want.n) { size_t i = r.below(want.n); int nk = universe + 2; if (findKey(want, nk) == npos) want[i].k = nk; }
        hist.addf("other := rebuild of m (%s)\n", pn[pert]); setItem("equality_perturbations", pn[pert]);
        ck.opClear(other);
        for (size_t i = 0; i < want.n; ++i) ck.opInsert(other, CK::APPEND, 0, "", want[i].k, want[i].v);
        otherTouched = true; cnt("op_rebuild_other");
      }
      break;
    case 12: { hist.add("swap roles of m and other\n"); Box* t = mp; mp = op; op = t; otherTouched = true; break; }
    default:  // prepend/insert bursts of fresh keys so that chains grow
      for (int j = 0; j < 4; ++j) { int kk2 = (int)r.below((u64)universe); if (!isPM(KIND) && r.chance(1, 2)) ck.opInsert(m, CK::PREPEND, 0, "", kk2, nextVal++); else ck.opInsert(m, CK::APPEND, 0, "", kk2, nextVal++); }
      break;
    }
    Box& cur = *mp;
    if (cur.ref.n > maxn) maxn = cur.ref.n;
    bool walk = cur.cap <= 64 || o % 8 == 0;
    ck.all(cur, universe, walk);
    if (otherTouched) ck.all(*op, universe, true);
    ck.equality(cur, *op);
    cnt("ops");
  }
  setctxf("%s.destructor", CK::cname());
  delete A.c; delete B.c;
  setctxf("%s/case-end", CK::cname());
  ElemReg::checkBalanced(CK::cname());
  statMax("max_size", (long)maxn);
  if (idx % 401 == 0) sample("%.1200s", hist.c());
  endCase(fp, maxn >= 2 && removed);
}

template <int KIND> static void oneHistory(long idx) {
  static Ck<KElem, KIND> ce; static Ck<KStr, KIND> cs; static Ck<KInt, KIND> ci;
  beginCase(idx); ElemReg::reset();
  Rng r(opts.seed, 2001 + KIND, (u64)idx);
  int fam = (int)(idx % 3);
  if (fam == 0) history(ce, r, idx, 0); else if (fam == 1) history(cs, r, idx, 1); else history(ci, r, idx, 2);
}
template <int KIND> static void randomHistories() {
  for (long idx = opts.start; idx < opts.start + opts.cases; ++idx) if (mine(idx)) oneHistory<KIND>(idx);
}
// PoolMap with plain mapped types: key family = idx % 3, mapped type = (idx / 3) % 2 (long / Pod)
static void plainValueHistories() {
  for (long idx = opts.start; idx < opts.start + opts.cases; ++idx) { if (!mine(idx)) continue; if ((idx / 3) % 2 == 0) oneHistory<PMAPL>(idx); else oneHistory<PMAPS>(idx); }
}

// ---------------------------------------------------------------- directed: all insertion orders of n<=N colliding keys into tiny tables, every removal
static bool nextPerm(int* a, int n) { int i = n - 2; while (i >= 0 && a[i] >= a[i + 1]) --i; if (i < 0) return false; int j = n - 1; while (a[j] <= a[i]) --j; int t = a[i]; a[i] = a[j]; a[j] = t; for (int l = i + 1, rr = n - 1; l < rr; ++l, --rr) { t = a[l]; a[l] = a[rr]; a[rr] = t; } return true; }

template <int KIND> static void chainCase(Ck<KElem, KIND>& ck, const int* seq, int n, usize cap, int how) {
  typedef Ck<KElem, KIND> CK; typedef typename CK::C C; typedef typename CK::Box Box;
  // build by append (how 0), prepend / insert-at-begin (how 1), insert before the middle (how 2); then remove every position by iterator, by key, drain
  for (int rm = -2; rm < 2 * n; ++rm) {
    Box b; b.c = new C(cap); b.cap = CK::capOf(*b.c, cap ? cap : 1);
    if constexpr (isPM(KIND)) g_valueAddrs.reset(64);
    for (int i = 0; i < n; ++i) {
      if (how == 0) ck.opInsert(b, CK::APPEND, 0, "", seq[i], 100 + i);
      else if (how == 1) { if (!isPM(KIND)) ck.opInsert(b, CK::PREPEND, 0, "", seq[i], 100 + i); else ck.opInsert(b, CK::INSERT, 0, b.ref.n ? "begin" : "end", seq[i], 100 + i); }
      else { size_t pi = b.ref.n / 2; ck.opInsert(b, CK::INSERT, pi, pi == b.ref.n ? "end" : pi == 0 ? "begin" : "middle", seq[i], 100 + i); }
      if (rm == -2) ck.all(b, n, true);
    }
    if (rm == -2) { while (b.ref.n) { ck.opRemoveEnd(b, true); ck.all(b, n, true); } }
    else if (rm == -1) { while (b.ref.n) { ck.opRemoveEnd(b, false); ck.all(b, n, true); } }
    else if (rm < n) { ck.opRemoveIt(b, (size_t)rm); ck.all(b, n, true); ck.opInsert(b, CK::APPEND, 0, "", seq[rm], 500); ck.all(b, n, true); if (b.ref.n) { ck.opRemoveIt(b, (size_t)rm % b.ref.n); ck.all(b, n, true); } }
    else { ck.opRemoveKey(b, rm - n); ck.all(b, n, true); ck.opClear(b); ck.all(b, n, true); ck.opInsert(b, CK::APPEND, 0, "", seq[0], 600); ck.all(b, n, true); }
    cnt("ops", n + 3);
    setctxf("%s.destructor", CK::cname());
    delete b.c;
  }
}

static void chains(int N) {
  Ck<KElem, HMAP> cm; Ck<KElem, HSET> cs; Ck<KElem, PMAP> cp; Ck<KElem, PMAPL> cl; Ck<KElem, PMAPS> cq; long idx = 0;
  for (int n = 1; n <= N; ++n) {
    int seq[12]; for (int i = 0; i < n; ++i) seq[i] = i; bool more = true;
    while (more) {
      for (usize cap = 1; cap <= 3; ++cap) for (int how = 0; how < 3; ++how, ++idx) {
        if (!(mine(idx) && idx >= opts.start && (opts.cases < 0 || idx < opts.start + opts.cases))) continue;
        beginCase(idx); ElemReg::reset(); elemHashMode = 0;
        hist.addf("# chains: n=%d capacity=%lu build=%s order:", n, (unsigned long)cap, how == 0 ? "append" : how == 1 ? "prepend" : "insert-middle"); for (int i = 0; i < n; ++i) hist.addf(" %d", seq[i]); hist.add("\n");
        hist.add("## HashMap\n"); chainCase<HMAP>(cm, seq, n, cap, how);
        hist.add("## HashSet\n"); chainCase<HSET>(cs, seq, n, cap, how);
        hist.add("## PoolMap\n"); chainCase<PMAP>(cp, seq, n, cap, how);
        hist.add("## PoolMap<Elem, long>\n"); chainCase<PMAPL>(cl, seq, n, cap, how);
        hist.add("## PoolMap<Elem, Pod>\n"); chainCase<PMAPS>(cq, seq, n, cap, how);
        setctx("chains/case-end"); ElemReg::checkBalanced("Hash");
        u64 fp = mix((u64)n * 16 + cap * 4 + (u64)how, 99); for (int i = 0; i < n; ++i) fp = mix(fp, (u64)seq[i]);
        if (idx % 1013 == 0) sample("%.900s", hist.c());
        endCase(fp, n >= 2);
      }
      more = nextPerm(seq, n);
    }
  }
  if (opts.shard == 0) cnt("exhaustive_space", idx);
}

static int probe(const char* key) {
  harnessBug("unknown probe %s", key);
}

int main(int argc, char** argv) {
  init(argc, argv, "h_hash");
  if (opts.probe) { int rc = probe(opts.probe); finish(); return rc; }
  const char* m = opts.mode;
  if (!strcmp(m, "hmap")) randomHistories<HMAP>();
  else if (!strcmp(m, "hset")) randomHistories<HSET>();
  else if (!strcmp(m, "pmap")) randomHistories<PMAP>();
  else if (!strcmp(m, "pmapv")) plainValueHistories();
  else if (!strcmp(m, "chains")) chains(opts.scale > 1 ? (int)opts.scale : 6);   // enumeration order does not depend on the bound: replays need no --scale
  else harnessBug("unknown mode %s", m);
#ifndef VERIF_NO_PRIVATE
  cnt("structure_walks", g_walks); cnt("chain_items_walked", g_chainItems); cnt("walks_with_block_sizes", g_sizedWalks);
  for (int i = 1; i <= MAXU + 1; ++i) if (g_chainLenSeen[i]) { char t[16]; snprintf(t, sizeof t, "%d", i); setItem("chain_lengths", t); }
  for (int i = 0; i <= 64; ++i) if (g_slotsPerBlockSeen[i]) { char t[16]; snprintf(t, sizeof t, "%s%d", i < 64 ? "" : ">=", i); setItem("slots_per_block", t); }
#endif
  g_viewsReady = false; for (int i = 0; i < MAXU; ++i) { g_strTab[i] = String(); g_strView[i] = String(); }
  leakCheck("Hash/leak");
  finish();
  return 0;
}
