// h_variant.cpp - C07: Variant against a tagged-tree value model (plain C structs), coercion table re-implemented independently,
// lazy-copy independence (every variable is compared with its own model after every operation), x == copy_of(x) for every intact copy.
// mode: hist (swarm random histories over 4..6 Variant variables)
// Build flavours: the only private state used is the reference count of a payload (state class inline / unique / shared in context keys, clone counters, "non-trivial" rule).
// With -DVERIF_NO_PRIVATE it is replaced by the harness's own record of payload identities in the model (MV::pid, holdState()); every value oracle is public API in both flavours.
// typed self-assignment (K_ASSIGN_OWN): v = v.toX() / v = ((const Variant&)v).toX() for X in String/List/Array/Map, on a variable or on a nested element,
// sole owner and shared: the value last given is the Variant's own value, so value, type and every other variable stay as they are.
#include "vh.hpp"
#include <nstd/Variant.hpp>
#include <math.h>
#include <limits.h>

using namespace vh;

enum { T_NULL, T_BOOL, T_DOUBLE, T_INT, T_UINT, T_INT64, T_UINT64, T_MAP, T_LIST, T_ARRAY, T_STRING, NTYPES };
static const char* const tname[] = { "null", "bool", "double", "int", "uint", "int64", "uint64", "map", "list", "array", "string" };
static int libType(int t) {   // the enumerators the header documents, by name
  switch (t) { case T_NULL: return Variant::nullType; case T_BOOL: return Variant::boolType; case T_DOUBLE: return Variant::doubleType; case T_INT: return Variant::intType; case T_UINT: return Variant::uintType;
  case T_INT64: return Variant::int64Type; case T_UINT64: return Variant::uint64Type; case T_MAP: return Variant::mapType; case T_LIST: return Variant::listType; case T_ARRAY: return Variant::arrayType; default: return Variant::stringType; }
}
static const char* libTypeName(int lt) { for (int t = 0; t < NTYPES; ++t) if (libType(t) == lt) return tname[t]; return "?"; }

// ------------------------------------------------------------------------------------------------ value model
struct Str {
  char* p; size_t n;
  Str() : p(0), n(0) {}
  Str(const char* s, size_t k) : p(0), n(0) { set(s, k); }
  Str(const Str& o) : p(0), n(0) { set(o.p, o.n); }
  Str& operator=(const Str& o) { if (this != &o) set(o.p, o.n); return *this; }
  ~Str() { free(p); }
  void set(const char* s, size_t k) { char* q = (char*)malloc(k + 1); if (k) memcpy(q, s, k); q[k] = 0; free(p); p = q; n = k; }
  void append(const char* s, size_t k) { char* q = (char*)malloc(n + k + 1); if (n) memcpy(q, p, n); if (k) memcpy(q + n, s, k); q[n + k] = 0; free(p); p = q; n += k; }
  bool eq(const Str& o) const { return n == o.n && (n == 0 || !memcmp(p, o.p, n)); }
  const char* c() const { return p ? p : ""; }
};

// pid: the harness's own record of payload identity. Every heap value (string / list / array / map) made from scratch gets a new number, copying a model value
// (= lazy copy of the Variant) keeps it, a copy-on-write clone gets a new one. It is what the VERIF_NO_PRIVATE flavour derives "shared / unique" from (see holders()).
static u64 g_pid = 0;
struct MV {
  int t; bool b; double d; long long i; unsigned long long u; Str s; Vec<Str> keys; Vec<MV> kids; u64 pid;
  MV() : t(T_NULL), b(false), d(0), i(0), u(0), pid(0) {}
  void reset(int nt) { t = nt; b = false; d = 0; i = 0; u = 0; s.set("", 0); keys.clear(); kids.clear(); pid = nt >= T_MAP ? ++g_pid : 0; }
  void newPayload() { if (t >= T_MAP) pid = ++g_pid; }
};
static size_t nodes(const MV& m) { size_t c = 1; for (size_t k = 0; k < m.kids.n; ++k) c += nodes(m.kids[k]); return c; }
static bool hasArray(const MV& m) { if (m.t == T_ARRAY) return true; for (size_t k = 0; k < m.kids.n; ++k) if (hasArray(m.kids[k])) return true; return false; }
static bool isHeap(int t) { return t >= T_MAP; }
static bool isContainer(int t) { return t == T_MAP || t == T_LIST || t == T_ARRAY; }

static void describe(const MV& m, Text& o, int depth = 0) {
  if (o.n > 600) { o.add("~"); return; }
  switch (m.t) {
  case T_NULL: o.add("null"); break;
  case T_BOOL: o.add(m.b ? "true" : "false"); break;
  case T_DOUBLE: o.addf("%.17gd", m.d); break;
  case T_INT: o.addf("%lldi", m.i); break;
  case T_UINT: o.addf("%lluu", m.u); break;
  case T_INT64: o.addf("%lldL", m.i); break;
  case T_UINT64: o.addf("%lluUL", m.u); break;
  case T_STRING: o.add("\""); o.addEsc(m.s.c(), m.s.n); o.add("\""); break;
  case T_LIST: o.add("["); for (size_t k = 0; k < m.kids.n; ++k) { if (k) o.add(","); describe(m.kids[k], o, depth + 1); } o.add("]"); break;
  case T_ARRAY: o.add("A["); for (size_t k = 0; k < m.kids.n; ++k) { if (k) o.add(","); describe(m.kids[k], o, depth + 1); } o.add("]"); break;
  default: o.add("{"); for (size_t k = 0; k < m.kids.n; ++k) { if (k) o.add(","); o.addf("%s:", m.keys[k].c()); describe(m.kids[k], o, depth + 1); } o.add("}"); break;
  }
}

// ------------------------------------------------------------------------------------------------ documented coercions, re-implemented
// exact integer value of the bool/integer alternatives
static __int128 exactInt(const MV& m) { switch (m.t) { case T_BOOL: return m.b ? 1 : 0; case T_INT: case T_INT64: return (__int128)m.i; default: return (__int128)m.u; } }
static bool isIntegral(int t) { return t == T_BOOL || (t >= T_INT && t <= T_UINT64); }
static unsigned long long low64(__int128 v) { return (unsigned long long)(unsigned __int128)v; }   // reduction modulo 2^64

// strtol/strtoul-style scan of a decimal prefix: optional white space, optional sign, digits
static void scanDec(const char* s, bool& neg, unsigned __int128& mag, bool& huge) {
  while (*s == ' ' || *s == '\t' || *s == '\n' || *s == '\v' || *s == '\f' || *s == '\r') ++s;
  neg = false; if (*s == '+' || *s == '-') { neg = *s == '-'; ++s; }
  mag = 0; huge = false;
  for (; *s >= '0' && *s <= '9'; ++s) { if (!huge) { mag = mag * 10 + (unsigned)(*s - '0'); if (mag >> 100) huge = true; } }
}
// string -> signed target with nbits: defined only when the value is representable (atoi/atoll leave the rest undefined)
static bool strSigned(const Str& s, int nbits, long long& out) {
  bool neg, huge; unsigned __int128 mag; scanDec(s.c(), neg, mag, huge); if (huge) return false;
  __int128 v = neg ? -(__int128)mag : (__int128)mag; __int128 lim = (__int128)1 << (nbits - 1);
  if (v < -lim || v > lim - 1) return false; out = (long long)v; return true;
}
// string -> strtoul/strtoull (unsigned long is 64 bit here): saturates on overflow, negates modulo 2^64 otherwise
static unsigned long long strUnsigned64(const Str& s) {
  bool neg, huge; unsigned __int128 mag; scanDec(s.c(), neg, mag, huge);
  if (huge || mag > (unsigned __int128)ULLONG_MAX) return ULLONG_MAX;
  unsigned long long m = (unsigned long long)mag; return neg ? (unsigned long long)(0 - m) : m;
}
static bool strBool(const Str& s) {
  if (s.n == 0) return false;
  if (s.n == 5 && strcasecmp(s.c(), "false") == 0) return false;
  if (s.n == 1 && s.p[0] == '0') return false;
  // zeros '.' zeros with at least one zero somewhere is still false
  size_t a = 0; while (a < s.n && s.p[a] == '0') ++a;
  if (a < s.n && s.p[a] == '.') { size_t b = a + 1, zb = 0; while (b < s.n && s.p[b] == '0') { ++b; ++zb; } if (b == s.n && (zb > 0 || a > 0)) return false; }
  return true;
}

static bool m_toBool(const MV& m) {
  switch (m.t) { case T_BOOL: return m.b; case T_DOUBLE: return m.d != 0.0; case T_INT: case T_INT64: return m.i != 0; case T_UINT: case T_UINT64: return m.u != 0; case T_STRING: return strBool(m.s); default: return false; }
}
static double m_toDouble(const MV& m) {
  switch (m.t) { case T_BOOL: return m.b ? 1.0 : 0.0; case T_DOUBLE: return m.d; case T_INT: case T_INT64: return (double)m.i; case T_UINT: case T_UINT64: return (double)m.u; case T_STRING: return strtod(m.s.c(), 0); default: return 0.0; }
}
// each returns false when the statement leaves the result open (floating value whose truncation does not fit; decimal string that does not fit a signed target)
static bool m_toInt(const MV& m, int& out) {
  if (isIntegral(m.t)) { unsigned int w = (unsigned int)low64(exactInt(m)); memcpy(&out, &w, sizeof out); return true; }
  if (m.t == T_DOUBLE) { if (!(m.d > -2147483649.0 && m.d < 2147483648.0)) return false; out = (int)m.d; return true; }
  if (m.t == T_STRING) { long long v; if (!strSigned(m.s, 32, v)) return false; out = (int)v; return true; }
  out = 0; return true;
}
static bool m_toUInt(const MV& m, unsigned int& out) {
  if (isIntegral(m.t)) { out = (unsigned int)low64(exactInt(m)); return true; }
  if (m.t == T_DOUBLE) { if (!(m.d > -1.0 && m.d < 4294967296.0)) return false; out = (unsigned int)m.d; return true; }
  if (m.t == T_STRING) { out = (unsigned int)strUnsigned64(m.s); return true; }
  out = 0; return true;
}
static bool m_toInt64(const MV& m, long long& out) {
  if (isIntegral(m.t)) { unsigned long long w = low64(exactInt(m)); memcpy(&out, &w, sizeof out); return true; }
  if (m.t == T_DOUBLE) { if (!(m.d >= -9223372036854775808.0 && m.d < 9223372036854775808.0)) return false; out = (long long)m.d; return true; }
  if (m.t == T_STRING) { return strSigned(m.s, 64, out); }
  out = 0; return true;
}
static bool m_toUInt64(const MV& m, unsigned long long& out) {
  if (isIntegral(m.t)) { out = low64(exactInt(m)); return true; }
  if (m.t == T_DOUBLE) { if (!(m.d > -1.0 && m.d < 18446744073709551616.0)) return false; out = (unsigned long long)m.d; return true; }
  if (m.t == T_STRING) { out = strUnsigned64(m.s); return true; }
  out = 0; return true;
}
static void m_toString(const MV& m, Str& out) {
  char tmp[512]; int k = 0;
  switch (m.t) {
  case T_STRING: out = m.s; return;
  case T_BOOL: out.set(m.b ? "true" : "false", m.b ? 4 : 5); return;
  case T_DOUBLE: k = snprintf(tmp, sizeof tmp, "%f", m.d); break;
  case T_INT: k = snprintf(tmp, sizeof tmp, "%d", (int)m.i); break;
  case T_UINT: k = snprintf(tmp, sizeof tmp, "%u", (unsigned)m.u); break;
  case T_INT64: k = snprintf(tmp, sizeof tmp, "%lld", m.i); break;
  case T_UINT64: k = snprintf(tmp, sizeof tmp, "%llu", m.u); break;
  default: out.set("", 0); return;
  }
  if (k < 0 || (size_t)k >= sizeof tmp) harnessBug("number text too long");
  out.set(tmp, (size_t)k);
}

// equality as the header defines it (dispatch on the left operand's type, right operand coerced); 1 equal, 0 different, -1 the coercion involved is open
static int m_eq(const MV& a, const MV& b) {
  switch (a.t) {
  case T_NULL: return b.t == T_NULL;
  case T_BOOL: return a.b == m_toBool(b);
  case T_DOUBLE: return a.d == m_toDouble(b);
  case T_INT: { int v; if (!m_toInt(b, v)) return -1; return (int)a.i == v; }
  case T_UINT: { unsigned v; if (!m_toUInt(b, v)) return -1; return (unsigned)a.u == v; }
  case T_INT64: { long long v; if (!m_toInt64(b, v)) return -1; return a.i == v; }
  case T_UINT64: { unsigned long long v; if (!m_toUInt64(b, v)) return -1; return a.u == v; }
  case T_STRING: if (b.t == T_STRING) return a.s.eq(b.s); return m_eq(b, a);
  default:
    if (b.t != a.t) return 0;
    if (a.kids.n != b.kids.n) return 0;
    for (size_t k = 0; k < a.kids.n; ++k) {
      if (a.t == T_MAP && !a.keys[k].eq(b.keys[k])) return 0;
      int e = m_eq(a.kids[k], b.kids[k]); if (e != 1) return e;    // the library stops at the first difference; an open comparison before it is never executed by us
    }
    return 1;
  }
}

// ------------------------------------------------------------------------------------------------ building library values from model values
static Variant build(const MV& m);
static void fillList(List<Variant>& l, const MV& m) { for (size_t k = 0; k < m.kids.n; ++k) l.append(build(m.kids[k])); }
static void fillArray(Array<Variant>& a, const MV& m) { for (size_t k = 0; k < m.kids.n; ++k) a.append(build(m.kids[k])); }
static void fillMap(HashMap<String, Variant>& h, const MV& m) { for (size_t k = 0; k < m.kids.n; ++k) h.append(String(m.keys[k].c(), m.keys[k].n), build(m.kids[k])); }
static Variant build(const MV& m) {
  switch (m.t) {
  case T_NULL: return Variant();
  case T_BOOL: return Variant(m.b);
  case T_DOUBLE: return Variant(m.d);
  case T_INT: return Variant((int)m.i);
  case T_UINT: return Variant((uint)m.u);
  case T_INT64: return Variant((int64)m.i);
  case T_UINT64: return Variant((uint64)m.u);
  case T_STRING: return Variant(String(m.s.c(), m.s.n));
  case T_LIST: { List<Variant> l; fillList(l, m); return Variant(l); }
  case T_ARRAY: { Array<Variant> a; fillArray(a, m); return Variant(a); }
  default: { HashMap<String, Variant> h; fillMap(h, m); return Variant(h); }
  }
}

// ------------------------------------------------------------------------------------------------ generators
static void genString(Rng& r, Str& s) {
  char t[96]; int k = 0;
  switch (r.below(16)) {
  case 0: t[0] = 0; break;
  case 1: { static const char* z[] = { "0", "00", "0.0", ".0", "0.", ".", "000.000", "0.00", "-0", "+0", "0.01", "00.10", " 0" }; snprintf(t, sizeof t, "%s", z[r.below(13)]); break; }
  case 2: { static const char* w[] = { "true", "false", "TRUE", "False", "FALSE", "fAlSe", "falsey", "fals", "tru", "yes", "false " }; snprintf(t, sizeof t, "%s", w[r.below(11)]); break; }
  case 3: snprintf(t, sizeof t, "%d", (int)r.range(-1000, 1000)); break;
  case 4: snprintf(t, sizeof t, "%lld", (long long)r.next()); break;
  case 5: snprintf(t, sizeof t, "%llu", (unsigned long long)r.next()); break;
  case 6: { static const char* e[] = { "2147483647", "2147483648", "-2147483648", "-2147483649", "4294967295", "4294967296", "9223372036854775807", "9223372036854775808", "-9223372036854775808", "-9223372036854775809",
                                     "18446744073709551615", "18446744073709551616", "-18446744073709551615", "-1", "99999999999999999999999999", "-99999999999999999999999999" }; snprintf(t, sizeof t, "%s", e[r.below(16)]); break; }
  case 7: snprintf(t, sizeof t, "%.*f", (int)r.range(0, 8), (r.unit() - 0.5) * (r.chance(1, 2) ? 100.0 : 1e12)); break;
  case 8: snprintf(t, sizeof t, "%de%d", (int)r.range(-99, 99), (int)r.range(-30, 30)); break;
  case 9: snprintf(t, sizeof t, "%s%d%s", r.chance(1, 2) ? " " : "\t ", (int)r.range(-50000, 50000), r.chance(1, 2) ? "" : " "); break;
  case 10: snprintf(t, sizeof t, "%+d", (int)r.range(-50000, 50000)); break;
  case 11: snprintf(t, sizeof t, "%dabc", (int)r.range(-500, 500)); break;
  case 12: snprintf(t, sizeof t, "0x%x", (unsigned)r.below(100000)); break;
  default: { static const char al[] = "abcdefgh xyzTRUEFALS.+-0123456789eE_"; k = (int)r.range(1, 24); for (int j = 0; j < k; ++j) t[j] = al[r.below(sizeof al - 1)]; t[k] = 0; break; }
  }
  s.set(t, strlen(t));
}
static double genDouble(Rng& r) {
  static const double fixed[] = { 0.0, -0.0, 1.0, -1.0, 0.5, -0.5, 0.999999, -0.999999, 2147483647.0, 2147483647.5, 2147483648.0, -2147483648.0, -2147483648.5, -2147483649.0, 4294967295.0, 4294967295.5, 4294967296.0,
                                  9223372036854774784.0, 9223372036854775808.0, -9223372036854775808.0, -9223372036854777856.0, 18446744073709549568.0, 18446744073709551616.0, 1e300, -1e300, 1e-300, 4.9406564584124654e-324,
                                  1e15, 123456789.125, -1e10, 3.0e9, 1.0e19 };
  switch (r.below(4)) {
  case 0: return fixed[r.below(sizeof fixed / sizeof *fixed)];
  case 1: return (double)r.range(-1000, 1000);
  case 2: return (r.unit() - 0.5) * 2000.0;
  default: { double m = r.unit() * 2 - 1; int e = (int)r.range(-40, 70); return ldexp(m, e); }
  }
}
static void genScalar(Rng& r, MV& m, int t) {
  m.reset(t);
  switch (t) {
  case T_BOOL: m.b = r.chance(1, 2); break;
  case T_DOUBLE: m.d = genDouble(r); break;
  case T_INT: { static const int e[] = { 0, 1, -1, INT_MAX, INT_MIN, 2, 255, -256 }; m.i = r.chance(1, 3) ? e[r.below(8)] : r.chance(1, 2) ? (int)r.range(-100, 100) : (int)(unsigned)r.next(); break; }
  case T_UINT: { static const unsigned e[] = { 0u, 1u, UINT_MAX, 2147483647u, 2147483648u, 65536u }; m.u = r.chance(1, 3) ? e[r.below(6)] : r.chance(1, 2) ? (unsigned)r.below(200) : (unsigned)r.next(); break; }
  case T_INT64: { static const long long e[] = { 0, 1, -1, LLONG_MAX, LLONG_MIN, 2147483647LL, 2147483648LL, -2147483648LL, -2147483649LL, 4294967295LL, 4294967296LL, -4294967296LL }; m.i = r.chance(1, 3) ? e[r.below(12)] : r.chance(1, 2) ? (long long)r.range(-100, 100) : (long long)r.next(); break; }
  case T_UINT64: { static const unsigned long long e[] = { 0ULL, 1ULL, ULLONG_MAX, 9223372036854775807ULL, 9223372036854775808ULL, 4294967295ULL, 4294967296ULL, 2147483648ULL }; m.u = r.chance(1, 3) ? e[r.below(8)] : r.chance(1, 2) ? r.below(200) : r.next(); break; }
  case T_STRING: genString(r, m.s); break;
  default: break;
  }
}
static void genKey(Rng& r, Str& s, const MV& in) {   // a key not yet used in map model `in`
  for (;;) { char t[8]; snprintf(t, sizeof t, "k%d", (int)r.below(12)); bool used = false; for (size_t k = 0; k < in.keys.n; ++k) if (!strcmp(in.keys[k].c(), t)) used = true; if (!used) { s.set(t, strlen(t)); return; } }
}
static void genValue(Rng& r, MV& m, int depth) {
  int t;
  if (depth >= 2 || !r.chance(1, 3)) { static const int sc[] = { T_NULL, T_BOOL, T_DOUBLE, T_DOUBLE, T_INT, T_UINT, T_INT64, T_UINT64, T_STRING, T_STRING, T_STRING }; t = sc[r.below(11)]; genScalar(r, m, t); return; }
  static const int ct[] = { T_MAP, T_LIST, T_ARRAY }; t = ct[r.below(3)]; m.reset(t);
  int n = (int)r.range(0, 4);
  for (int k = 0; k < n; ++k) { MV kid; genValue(r, kid, depth + 1); if (t == T_MAP) { Str key; genKey(r, key, m); m.keys.push(key); } m.kids.push(kid); }
}

// ------------------------------------------------------------------------------------------------ observation
static char g_key[300];
static const char* key(const char* what) { snprintf(g_key, sizeof g_key, "%s/%s", (const char*)ctx, what); return g_key; }
static const char* keyf(const char* fmt, ...) __attribute__((format(printf, 1, 2)));
static const char* keyf(const char* fmt, ...) { va_list ap; va_start(ap, fmt); vsnprintf(g_key, sizeof g_key, fmt, ap); va_end(ap); return g_key; }
// true when a listed finding whose key starts with `pre` was passed in --exclude
static bool excludedPrefix(const char* pre) { const char* e = opts.exclude; size_t k = strlen(pre); while (e && *e) { if (!strncmp(e, pre, k)) return true; const char* c = strchr(e, ','); if (!c) break; e = c + 1; } return false; }
static long g_cmpNative = 0, g_cmpCoerce = 0, g_coerceSkipped = 0, g_eqChecked = 0, g_eqSkipped = 0, g_copyEq = 0;

static bool sameDouble(double a, double b) { return a == b && signbit(a) == signbit(b); }

// every to* of one Variant against the coercion table
static void checkCoercions(const Variant& v, const MV& m) {
  const char* from = tname[m.t];
  { bool got = v.toBool(), want = m_toBool(m); ++g_cmpCoerce; if (got != want) { Text d; describe(m, d); fail(keyf("Variant.toBool/from=%s/value", from), "toBool() of %s gives %d, documented coercion gives %d", d.c(), (int)got, (int)want); } }
  { double got = v.toDouble(), want = m_toDouble(m); ++g_cmpCoerce; if (!sameDouble(got, want)) { Text d; describe(m, d); fail(keyf("Variant.toDouble/from=%s/value", from), "toDouble() of %s gives %.17g, documented coercion gives %.17g", d.c(), got, want); } }
  { int want; if (m_toInt(m, want)) { int got = v.toInt(); ++g_cmpCoerce; if (got != want) { Text d; describe(m, d); fail(keyf("Variant.toInt/from=%s/value", from), "toInt() of %s gives %d, documented coercion gives %d", d.c(), got, want); } } else ++g_coerceSkipped; }
  { unsigned want; if (m_toUInt(m, want)) { unsigned got = v.toUInt(); ++g_cmpCoerce; if (got != want) { Text d; describe(m, d); fail(keyf("Variant.toUInt/from=%s/value", from), "toUInt() of %s gives %u, documented coercion gives %u", d.c(), got, want); } } else ++g_coerceSkipped; }
  { long long want; if (m_toInt64(m, want)) { long long got = v.toInt64(); ++g_cmpCoerce; if (got != want) { Text d; describe(m, d); fail(keyf("Variant.toInt64/from=%s/value", from), "toInt64() of %s gives %lld, documented coercion gives %lld", d.c(), got, want); } } else ++g_coerceSkipped; }
  { unsigned long long want; if (m_toUInt64(m, want)) { unsigned long long got = v.toUInt64(); ++g_cmpCoerce; if (got != want) { Text d; describe(m, d); fail(keyf("Variant.toUInt64/from=%s/value", from), "toUInt64() of %s gives %llu, documented coercion gives %llu", d.c(), got, want); } } else ++g_coerceSkipped; }
  { Str want; m_toString(m, want); String got = v.toString(); ++g_cmpCoerce;
    if (got.length() != want.n || memcmp((const char*)got, want.c(), want.n)) { Text d; describe(m, d); fail(keyf("Variant.toString-const/from=%s/value", from), "toString() of %s gives \"%.80s\" (%lu chars), documented coercion gives \"%.80s\" (%lu chars)", d.c(), (const char*)got, (unsigned long)got.length(), want.c(), (unsigned long)want.n); } }
  if (m.t != T_LIST) { ++g_cmpCoerce; if (v.toList().size() != 0 || !v.toList().isEmpty()) fail(keyf("Variant.toList-const/from=%s/not-empty", from), "const toList() of a %s is not the empty list", from); }
  if (m.t != T_ARRAY) { ++g_cmpCoerce; if (v.toArray().size() != 0 || !v.toArray().isEmpty()) fail(keyf("Variant.toArray-const/from=%s/not-empty", from), "const toArray() of a %s is not the empty array", from); }
  if (m.t != T_MAP) { ++g_cmpCoerce; if (v.toMap().size() != 0 || !v.toMap().isEmpty()) fail(keyf("Variant.toMap-const/from=%s/not-empty", from), "const toMap() of a %s is not the empty map", from); }
  if (v.isNull() != (m.t == T_NULL)) fail(keyf("Variant.isNull/from=%s/value", from), "isNull() gives %d", (int)v.isNull());
}

// type and own ("native") value of a Variant and of everything below it; `who` prefixes the kind ("" or "other-variable/")
static void checkValue(const Variant& v, const MV& m, const char* who, const char* path) {
  char kb[96];
  int lt = (int)v.getType();
  if (lt != libType(m.t)) { Text d; describe(m, d); snprintf(kb, sizeof kb, "%stype", who); fail(key(kb), "%s: getType() is %s, the value last given is %s", path, libTypeName(lt), d.c()); }
  ++g_cmpNative;
  bool bad = false; char got[160]; got[0] = 0;
  switch (m.t) {
  case T_NULL: break;
  case T_BOOL: { bool g = v.toBool(); bad = g != m.b; snprintf(got, sizeof got, "%d", (int)g); break; }
  case T_DOUBLE: { double g = v.toDouble(); bad = !sameDouble(g, m.d); snprintf(got, sizeof got, "%.17g", g); break; }
  case T_INT: { int g = v.toInt(); bad = g != (int)m.i; snprintf(got, sizeof got, "%d", g); break; }
  case T_UINT: { unsigned g = v.toUInt(); bad = g != (unsigned)m.u; snprintf(got, sizeof got, "%u", g); break; }
  case T_INT64: { long long g = v.toInt64(); bad = g != m.i; snprintf(got, sizeof got, "%lld", g); break; }
  case T_UINT64: { unsigned long long g = v.toUInt64(); bad = g != m.u; snprintf(got, sizeof got, "%llu", g); break; }
  case T_STRING: { String g = v.toString(); bad = g.length() != m.s.n || memcmp((const char*)g, m.s.c(), m.s.n); if (bad) snprintf(got, sizeof got, "\"%.100s\" (%lu chars)", (const char*)g, (unsigned long)g.length()); break; }
  case T_LIST: {
    const List<Variant>& l = v.toList();
    if (l.size() != m.kids.n || l.isEmpty() != (m.kids.n == 0)) { snprintf(got, sizeof got, "a list of %lu elements", (unsigned long)l.size()); bad = true; break; }
    size_t k = 0; for (List<Variant>::Iterator it = l.begin(), e = l.end(); it != e; ++it, ++k) { if (k >= m.kids.n) { snprintf(kb, sizeof kb, "%svalue", who); fail(key(kb), "%s: list iteration yields more than %lu elements", path, (unsigned long)m.kids.n); } char p2[160]; snprintf(p2, sizeof p2, "%.120s[%lu]", path, (unsigned long)k); checkValue(*it, m.kids[k], who, p2); }
    if (k != m.kids.n) { snprintf(got, sizeof got, "a list iterating over %lu elements", (unsigned long)k); bad = true; }
    break; }
  case T_ARRAY: {
    const Array<Variant>& a = v.toArray();
    if (a.size() != m.kids.n || a.isEmpty() != (m.kids.n == 0)) { snprintf(got, sizeof got, "an array of %lu elements", (unsigned long)a.size()); bad = true; break; }
    const Variant* p = a; for (size_t k = 0; k < m.kids.n; ++k) { char p2[160]; snprintf(p2, sizeof p2, "%.120s[%lu]", path, (unsigned long)k); checkValue(p[k], m.kids[k], who, p2); }
    break; }
  default: {
    const HashMap<String, Variant>& h = v.toMap();
    if (h.size() != m.kids.n || h.isEmpty() != (m.kids.n == 0)) { snprintf(got, sizeof got, "a map of %lu entries", (unsigned long)h.size()); bad = true; break; }
    size_t k = 0; for (HashMap<String, Variant>::Iterator it = h.begin(), e = h.end(); it != e; ++it, ++k) {
      if (k >= m.kids.n) { snprintf(kb, sizeof kb, "%svalue", who); fail(key(kb), "%s: map iteration yields more than %lu entries", path, (unsigned long)m.kids.n); }
      const String& kk = it.key();
      if (kk.length() != m.keys[k].n || memcmp((const char*)kk, m.keys[k].c(), m.keys[k].n)) { snprintf(kb, sizeof kb, "%svalue", who); fail(key(kb), "%s: map entry %lu has key \"%.40s\", the value last given has \"%s\" there", path, (unsigned long)k, (const char*)kk, m.keys[k].c()); }
      char p2[160]; snprintf(p2, sizeof p2, "%.120s{%s}", path, m.keys[k].c()); checkValue(*it, m.kids[k], who, p2);
      // lookup by key reaches the same entry
      HashMap<String, Variant>::Iterator f = h.find(kk); if (f == h.end() || &*f != &*it) { snprintf(kb, sizeof kb, "%svalue", who); fail(key(kb), "%s: map entry \"%s\" is not found by its key", path, m.keys[k].c()); }
    }
    if (k != m.kids.n) { snprintf(got, sizeof got, "a map iterating over %lu entries", (unsigned long)k); bad = true; }
    break; }
  }
  if (bad) { Text d; describe(m, d); snprintf(kb, sizeof kb, "%svalue", who); fail(key(kb), "%s: holds %s, the value last given is %s", path, got, d.c()); }
  checkCoercions(v, m);
}

// ------------------------------------------------------------------------------------------------ variables
enum { MAXV = 6 };
static int NV = 4;
static Variant* V[MAXV]; static MV* M[MAXV];
static long ver[MAXV];
struct CopyRel { bool on; long vi, vj; };
static CopyRel cp[MAXV][MAXV];
static void bump(int i) { ++ver[i]; }
static void noteCopy(int i, int j) { if (i == j) return; cp[i][j].on = true; cp[i][j].vi = ver[i]; cp[i][j].vj = ver[j]; }

static const char* eqClass(const MV& a, const MV& b) { return (hasArray(a) && hasArray(b)) ? "array" : tname[a.t]; }

static void checkAll(int target) {
  for (int i = 0; i < NV; ++i) { char path[16]; snprintf(path, sizeof path, "v%d", i); checkValue(*V[i], *M[i], i == target ? "" : "other-variable/", path); }
  bool noArrayEq = excludedPrefix("Variant.operator==/array");   // trigger: both operands contain an Array
  // a Variant compares equal to every copy of itself (as long as neither side was modified since the copy was made)
  for (int i = 0; i < NV; ++i) for (int j = 0; j < NV; ++j) {
    CopyRel& c = cp[i][j]; if (!c.on) continue; if (c.vi != ver[i] || c.vj != ver[j]) { c.on = false; continue; }
    if (noArrayEq && hasArray(*M[i])) continue;
    if (m_eq(*M[i], *M[j]) != 1 || m_eq(*M[j], *M[i]) != 1) { Text d, e; describe(*M[i], d); describe(*M[j], e); harnessBug("model of a copy differs or is not reflexive: %s vs %s", d.c(), e.c()); }
    bool e1 = *V[i] == *V[j], e2 = *V[j] == *V[i], n1 = *V[i] != *V[j], n2 = *V[j] != *V[i]; ++g_copyEq;
    if (!e1 || !e2 || n1 || n2) { Text d; describe(*M[i], d); fail(keyf("Variant.operator==/%s/copy-not-equal", eqClass(*M[i], *M[j])), "v%d is an unmodified copy of v%d (%s) but copy==orig %d, orig==copy %d, copy!=orig %d, orig!=copy %d", i, j, d.c(), (int)e1, (int)e2, (int)n1, (int)n2); }
  }
  // all ordered pairs against the header's definition of equality
  for (int i = 0; i < NV; ++i) for (int j = 0; j < NV; ++j) {
    if (noArrayEq && hasArray(*M[i]) && hasArray(*M[j])) continue;
    int e = m_eq(*M[i], *M[j]); if (e < 0) { ++g_eqSkipped; continue; }
    bool eq = *V[i] == *V[j], ne = *V[i] != *V[j]; ++g_eqChecked;
    if (eq != (e == 1) || ne != (e == 0)) { Text d, f; describe(*M[i], d); describe(*M[j], f); const char* cls = eqClass(*M[i], *M[j]);
      fail(keyf("Variant.operator==/%s-vs-%s/value", cls, !strcmp(cls, "array") ? "array" : tname[M[j]->t]), "%.300s == %.300s gives %d (!= gives %d), the coercion table gives %d", d.c(), f.c(), (int)eq, (int)ne, e); }
  }
}

// ------------------------------------------------------------------------------------------------ who holds a payload (state class "inline / unique / shared")
// normal flavour: the reference count of the payload (private). VERIF_NO_PRIVATE flavour: the harness's own record - the number of Variant objects that got this payload by
// copying: variables, the temporary of the running operation, and elements of DISTINCT live container payloads (a payload shared by two variables exists once).
// No verdict depends on it: it names the state class in context keys / evidence and feeds the "non-trivial" rule and the clone counters.
static const MV* g_tmpHolder = 0;     // model of a temporary Variant that is alive during the operation (lazy copy of a variable)
static Vec<u64> g_seenPayloads;
static void countHolders(const MV& m, u64 pid, long& n) {
  if (m.pid == pid) ++n;
  if (!isContainer(m.t)) return;
  for (size_t k = 0; k < g_seenPayloads.n; ++k) if (g_seenPayloads[k] == m.pid) return;
  g_seenPayloads.push(m.pid);
  for (size_t k = 0; k < m.kids.n; ++k) countHolders(m.kids[k], pid, n);
}
static long g_holdAgree = 0, g_holdDiffer = 0;
// 0 = no payload (null / scalar stored in the object), 1 = sole holder, 2 = shared
static int holdState(const Variant& v, const MV& m) {
  int est = 0;
  if (isHeap(m.t)) { g_seenPayloads.clear(); long n = 0; for (int i = 0; i < NV; ++i) if (M[i]) countHolders(*M[i], m.pid, n); if (g_tmpHolder) countHolders(*g_tmpHolder, m.pid, n); est = n > 1 ? 2 : 1; }
#ifndef VERIF_NO_PRIVATE
  int real = v.data->ref == 0 ? 0 : v.data->ref > 1 ? 2 : 1;
  if (real == est) ++g_holdAgree; else ++g_holdDiffer;     // how good the fallback flavour's record is (evidence only)
  return real;
#else
  (void)v; return est;
#endif
}
static const char* holdClass(const Variant& v, const MV& m) { static const char* const n[] = { "inline", "unique", "shared" }; return n[holdState(v, m)]; }
static bool isShared(const Variant& v, const MV& m) { return holdState(v, m) == 2; }

// ------------------------------------------------------------------------------------------------ typed assignment / construction
static long g_sharedBefore = 0;

static void assignTyped(Variant& v, const MV& nv) {
  switch (nv.t) {
  case T_NULL: { Variant n; v = n; break; }
  case T_BOOL: v = nv.b; break;
  case T_DOUBLE: v = nv.d; break;
  case T_INT: v = (int)nv.i; break;
  case T_UINT: v = (uint)nv.u; break;
  case T_INT64: v = (int64)nv.i; break;
  case T_UINT64: v = (uint64)nv.u; break;
  case T_STRING: { String s(nv.s.c(), nv.s.n); v = s; break; }
  case T_LIST: { List<Variant> l; fillList(l, nv); v = l; break; }
  case T_ARRAY: { Array<Variant> a; fillArray(a, nv); v = a; break; }
  default: { HashMap<String, Variant> h; fillMap(h, nv); v = h; break; }
  }
}
static Variant* constructTyped(const MV& nv) {
  switch (nv.t) {
  case T_NULL: return new Variant();
  case T_BOOL: return new Variant(nv.b);
  case T_DOUBLE: return new Variant(nv.d);
  case T_INT: return new Variant((int)nv.i);
  case T_UINT: return new Variant((uint)nv.u);
  case T_INT64: return new Variant((int64)nv.i);
  case T_UINT64: return new Variant((uint64)nv.u);
  case T_STRING: { String s(nv.s.c(), nv.s.n); return new Variant(s); }
  case T_LIST: { List<Variant> l; fillList(l, nv); return new Variant(l); }
  case T_ARRAY: { Array<Variant> a; fillArray(a, nv); return new Variant(a); }
  default: { HashMap<String, Variant> h; fillMap(h, nv); return new Variant(h); }
  }
}

// ------------------------------------------------------------------------------------------------ mutable accessors followed by a mutation (recursive: nested up to 3 levels)
static long g_cowClones = 0, g_nestedClones = 0, g_mutations = 0;
static void cell(const char* acc, const MV& m, const char* cow, int depth) { char t[96]; snprintf(t, sizeof t, "%s/from=%s/%s/depth%d", acc, tname[m.t], cow, depth); setItem("mutable_access_cells", t); }

static void mutate(Variant& v, MV& m, Rng& r, int depth, bool& changed, const Variant& val, const MV& valm) {
  static const int heapT[] = { T_STRING, T_LIST, T_ARRAY, T_MAP };
  int want = (isHeap(m.t) && r.chance(9, 10)) ? m.t : heapT[r.below(4)];
  bool sharedNow = m.t == want && isShared(v, m);
  const char* cow = m.t != want ? "convert" : sharedNow ? "shared-clone" : "unique-in-place";
  if (sharedNow) { ++g_cowClones; if (depth) ++g_nestedClones; m.newPayload(); }   // the mutable accessor below gives this holder a payload of its own (elements: lazy copies, same identities)
  bool descend = depth < 2 && m.t == want && isContainer(want) && m.kids.n && r.chance(1, 2);
  size_t at = m.kids.n ? (size_t)r.below(m.kids.n) : 0;
  for (int k = 0; k < depth; ++k) hist.add("  ");
  switch (want) {
  case T_STRING: {
    cell("toString", m, cow, depth);
    setctxf("Variant.toString-mutable/from=%s/%s", tname[m.t], cow);
    String& s = v.toString();
    if (m.t != T_STRING) { Str t; m_toString(m, t); m.reset(T_STRING); m.s = t; changed = true; }
    int op = (int)r.below(6);
    Str piece; genString(r, piece);
    switch (op) {
    case 0: hist.add("toString() [no change]\n"); break;
    case 1: case 2: hist.add("toString().append(\""); hist.addEsc(piece.c(), piece.n); hist.add("\")\n"); setctxf("Variant.toString-mutable/from=string/%s/then-append", cow); s.append(String(piece.c(), piece.n)); m.s.append(piece.c(), piece.n); changed = true; break;
    case 3: hist.add("toString() = \""); hist.addEsc(piece.c(), piece.n); hist.add("\"\n"); setctxf("Variant.toString-mutable/from=string/%s/then-assign", cow); s = String(piece.c(), piece.n); m.s = piece; changed = true; break;
    case 4: hist.add("toString().append('x')\n"); setctxf("Variant.toString-mutable/from=string/%s/then-append-char", cow); s.append('x'); m.s.append("x", 1); changed = true; break;
    default: hist.add("toString().clear()\n"); setctxf("Variant.toString-mutable/from=string/%s/then-clear", cow); s.clear(); m.s.set("", 0); changed = true; break;
    }
    break; }
  case T_LIST: {
    cell("toList", m, cow, depth);
    setctxf("Variant.toList-mutable/from=%s/%s", tname[m.t], cow);
    List<Variant>& l = v.toList();
    if (m.t != T_LIST) { m.reset(T_LIST); changed = true; }
    if (descend) { hist.addf("toList()[%lu] ->\n", (unsigned long)at); List<Variant>::Iterator it = l.begin(); for (size_t k = 0; k < at; ++k) ++it; mutate(*it, m.kids[at], r, depth + 1, changed, val, valm); return; }
    int op = (int)r.below(10);
    if ((op == 4 || op == 5 || op == 6 || op == 7) && !m.kids.n) op = 1;
    const char* names[] = { "none", "append", "append", "prepend", "removeFront", "removeBack", "overwrite", "remove", "clear", "insert" };
    setctxf("Variant.toList-mutable/from=list/%s/then-%s", cow, names[op]);
    switch (op) {
    case 0: hist.add("toList() [no change]\n"); break;
    case 1: case 2: hist.add("toList().append(value)\n"); l.append(val); m.kids.push(valm); changed = true; break;
    case 3: hist.add("toList().prepend(value)\n"); l.prepend(val); m.kids.insert(0, valm); changed = true; break;
    case 4: hist.add("toList().removeFront()\n"); l.removeFront(); m.kids.removeAt(0); changed = true; break;
    case 5: hist.add("toList().removeBack()\n"); l.removeBack(); m.kids.pop(); changed = true; break;
    case 6: { hist.addf("toList()[%lu] = value\n", (unsigned long)at); List<Variant>::Iterator it = l.begin(); for (size_t k = 0; k < at; ++k) ++it; *it = val; m.kids[at] = valm; changed = true; break; }
    case 7: { hist.addf("toList().remove(@%lu)\n", (unsigned long)at); List<Variant>::Iterator it = l.begin(); for (size_t k = 0; k < at; ++k) ++it; l.remove(it); m.kids.removeAt(at); changed = true; break; }
    case 8: hist.add("toList().clear()\n"); l.clear(); m.kids.clear(); changed = true; break;
    default: { size_t pos = (size_t)r.below(m.kids.n + 1); hist.addf("toList().insert(@%lu, value)\n", (unsigned long)pos); List<Variant>::Iterator it = l.begin(); for (size_t k = 0; k < pos; ++k) ++it; l.insert(it, val); m.kids.insert(pos, valm); changed = true; break; }
    }
    break; }
  case T_ARRAY: {
    cell("toArray", m, cow, depth);
    setctxf("Variant.toArray-mutable/from=%s/%s", tname[m.t], cow);
    Array<Variant>& a = v.toArray();
    if (m.t != T_ARRAY) { m.reset(T_ARRAY); changed = true; }
    if (descend) { hist.addf("toArray()[%lu] ->\n", (unsigned long)at); Variant* p = a; mutate(p[at], m.kids[at], r, depth + 1, changed, val, valm); return; }
    int op = (int)r.below(9);
    if ((op == 3 || op == 4 || op == 5 || op == 6) && !m.kids.n) op = 1;
    const char* names[] = { "none", "append", "append", "overwrite", "remove", "removeBack", "removeFront", "resize", "clear" };
    setctxf("Variant.toArray-mutable/from=array/%s/then-%s", cow, names[op]);
    switch (op) {
    case 0: hist.add("toArray() [no change]\n"); break;
    case 1: case 2: hist.add("toArray().append(value)\n"); a.append(val); m.kids.push(valm); changed = true; break;
    case 3: { hist.addf("toArray()[%lu] = value\n", (unsigned long)at); Variant* p = a; p[at] = val; m.kids[at] = valm; changed = true; break; }
    case 4: hist.addf("toArray().remove(%lu)\n", (unsigned long)at); a.remove(at); m.kids.removeAt(at); changed = true; break;
    case 5: hist.add("toArray().removeBack()\n"); a.removeBack(); m.kids.pop(); changed = true; break;
    case 6: hist.add("toArray().removeFront()\n"); a.removeFront(); m.kids.removeAt(0); changed = true; break;
    case 7: { size_t n = (size_t)r.range(0, (long)m.kids.n + 2); hist.addf("toArray().resize(%lu)\n", (unsigned long)n); a.resize(n); MV nul; while (m.kids.n > n) m.kids.pop(); while (m.kids.n < n) m.kids.push(nul); changed = true; break; }
    default: hist.add("toArray().clear()\n"); a.clear(); m.kids.clear(); changed = true; break;
    }
    break; }
  default: {
    cell("toMap", m, cow, depth);
    setctxf("Variant.toMap-mutable/from=%s/%s", tname[m.t], cow);
    HashMap<String, Variant>& h = v.toMap();
    if (m.t != T_MAP) { m.reset(T_MAP); changed = true; }
    if (descend) { hist.addf("toMap(){%s} ->\n", m.keys[at].c()); HashMap<String, Variant>::Iterator it = h.find(String(m.keys[at].c(), m.keys[at].n)); if (it == h.end()) fail(key("value"), "map entry \"%s\" is not found by its key", m.keys[at].c()); mutate(*it, m.kids[at], r, depth + 1, changed, val, valm); return; }
    int op = (int)r.below(10);
    if ((op == 4 || op == 5 || op == 6 || op == 7) && !m.kids.n) op = 1;
    const char* names[] = { "none", "append-new", "append-new", "prepend-new", "removeFront", "removeBack", "overwrite", "remove", "clear", "append-existing" };
    if (op == 9 && !m.kids.n) op = 1;
    setctxf("Variant.toMap-mutable/from=map/%s/then-%s", cow, names[op]);
    switch (op) {
    case 0: hist.add("toMap() [no change]\n"); break;
    case 1: case 2: { Str kk; genKey(r, kk, m); hist.addf("toMap().append(%s, value)\n", kk.c()); h.append(String(kk.c(), kk.n), val); m.keys.push(kk); m.kids.push(valm); changed = true; break; }
    case 3: { Str kk; genKey(r, kk, m); hist.addf("toMap().prepend(%s, value)\n", kk.c()); h.prepend(String(kk.c(), kk.n), val); m.keys.insert(0, kk); m.kids.insert(0, valm); changed = true; break; }
    case 4: hist.add("toMap().removeFront()\n"); h.removeFront(); m.keys.removeAt(0); m.kids.removeAt(0); changed = true; break;
    case 5: hist.add("toMap().removeBack()\n"); h.removeBack(); m.keys.pop(); m.kids.pop(); changed = true; break;
    case 6: { hist.addf("*toMap().find(%s) = value\n", m.keys[at].c()); HashMap<String, Variant>::Iterator it = h.find(String(m.keys[at].c(), m.keys[at].n)); if (it == h.end()) fail(key("value"), "map entry \"%s\" is not found by its key", m.keys[at].c()); *it = val; m.kids[at] = valm; changed = true; break; }
    case 7: hist.addf("toMap().remove(%s)\n", m.keys[at].c()); h.remove(String(m.keys[at].c(), m.keys[at].n)); m.keys.removeAt(at); m.kids.removeAt(at); changed = true; break;
    case 8: hist.add("toMap().clear()\n"); h.clear(); m.keys.clear(); m.kids.clear(); changed = true; break;
    default: hist.addf("toMap().append(%s [existing], value)\n", m.keys[at].c()); h.append(String(m.keys[at].c(), m.keys[at].n), val); m.kids[at] = valm; changed = true; break;   // overwrites in place
    }
    break; }
  }
  ++g_mutations;
}

// a random descendant of a container value (const path); returns 0 when there is none
static const Variant* pickDescendant(const Variant& v, const MV& m, Rng& r, const MV*& dm, Text& path) {
  if (!isContainer(m.t) || !m.kids.n) return 0;
  size_t at = (size_t)r.below(m.kids.n); const Variant* c = 0;
  if (m.t == T_LIST) { const List<Variant>& l = v.toList(); List<Variant>::Iterator it = l.begin(); for (size_t k = 0; k < at; ++k) ++it; c = &*it; path.addf("[%lu]", (unsigned long)at); }
  else if (m.t == T_ARRAY) { const Array<Variant>& a = v.toArray(); const Variant* p = a; c = &p[at]; path.addf("[%lu]", (unsigned long)at); }
  else { const HashMap<String, Variant>& h = v.toMap(); HashMap<String, Variant>::Iterator it = h.find(String(m.keys[at].c(), m.keys[at].n)); if (it == h.end()) fail(key("value"), "map entry \"%s\" is not found by its key", m.keys[at].c()); c = &*it; path.addf("{%s}", m.keys[at].c()); }
  dm = &m.kids[at];
  if (r.chance(1, 3)) { const MV* dm2 = 0; const Variant* c2 = pickDescendant(*c, *dm, r, dm2, path); if (c2) { dm = dm2; return c2; } }
  return c;
}

// a random descendant of a container value reached through the MUTABLE accessors (detaches shared payloads on the way; values stay as they are); 0 when there is none
static Variant* descendMutable(Variant& v, MV& m, Rng& r, MV*& dm, Text& path, int depth = 0) {
  if (!isContainer(m.t) || !m.kids.n) return 0;
  size_t at = (size_t)r.below(m.kids.n); Variant* c = 0;
  if (isShared(v, m)) { ++g_cowClones; if (depth) ++g_nestedClones; m.newPayload(); }
  if (m.t == T_LIST) { List<Variant>& l = v.toList(); List<Variant>::Iterator it = l.begin(); for (size_t k = 0; k < at; ++k) ++it; c = &*it; path.addf(".toList()[%lu]", (unsigned long)at); }
  else if (m.t == T_ARRAY) { Array<Variant>& a = v.toArray(); Variant* p = a; c = &p[at]; path.addf(".toArray()[%lu]", (unsigned long)at); }
  else { HashMap<String, Variant>& h = v.toMap(); HashMap<String, Variant>::Iterator it = h.find(String(m.keys[at].c(), m.keys[at].n)); if (it == h.end()) fail(key("value"), "map entry \"%s\" is not found by its key", m.keys[at].c()); c = &*it; path.addf(".toMap(){%s}", m.keys[at].c()); }
  dm = &m.kids[at];
  if (r.chance(1, 3)) { MV* dm2 = 0; Variant* c2 = descendMutable(*c, *dm, r, dm2, path, depth + 1); if (c2) { dm = dm2; return c2; } }
  return c;
}

// e = e.toX() (mutable accessor) or e = ((const Variant&)e).toX() (const accessor) through the typed overload operator=(const X&), X = `want`.
// want == em.t: the argument IS the payload of e (unique) / the payload e shares (shared): the value last given is e's own value -> the model stays as it is.
// want != em.t: the argument is the accessor's view of a value of another type (empty container, decimal text) -> the model becomes that view.
static long g_ownInPlace[NTYPES];
static bool assignOwnValue(Variant& e, MV& em, int want, bool mut, bool nested, const char* lhs) {
  const Variant& ce = e;
  int hs = holdState(e, em); const char* hc = hs == 0 ? "inline" : hs == 1 ? "unique" : "shared"; bool same = em.t == want;
  static const char* acc[] = { "?", "?", "?", "?", "?", "?", "?", "Map", "List", "Array", "String" };
  if (same) setctxf("Variant.operator=(%s)/arg=own-value-%s/%s%s", tname[want], mut ? "mutable" : "const", hc, nested ? "/nested" : "");
  else setctxf("Variant.operator=(%s)/arg=own-view-%s/from=%s/%s%s", tname[want], mut ? "mutable" : "const", tname[em.t], hc, nested ? "/nested" : "");
  if (mut) hist.addf("%s = %s.to%s()   [%s; receiver %s, %s]\n", lhs, lhs, acc[want], same ? "own value" : "own view as another type", tname[em.t], hc);
  else hist.addf("%s = ((const Variant&)%s).to%s()   [%s; receiver %s, %s]\n", lhs, lhs, acc[want], same ? "own value" : "own view as another type", tname[em.t], hc);
  { char t[96]; snprintf(t, sizeof t, "%s<-%s/%s/%s/%s", tname[em.t], tname[want], mut ? "mutable" : "const", hc, nested ? "nested" : "top"); setItem("own_value_cells", t); }
  if (same && hs == 2 && mut) { ++g_cowClones; if (nested) ++g_nestedClones; }
  if (same && (mut || hs == 1)) ++g_ownInPlace[want];    // the overload's in-place branch runs with its argument aliasing its destination
  if (same && hs == 2) em.newPayload();                  // shared: the accessor clones (mutable) or the overload builds a new payload from the shared one (const)
  switch (want) {
  case T_STRING: if (mut) e = e.toString(); else e = ce.toString(); break;
  case T_LIST: if (mut) e = e.toList(); else e = ce.toList(); break;
  case T_ARRAY: if (mut) e = e.toArray(); else e = ce.toArray(); break;
  default: if (mut) e = e.toMap(); else e = ce.toMap(); break;
  }
  if (same) return false;
  if (want == T_STRING) { Str t; m_toString(em, t); em.reset(T_STRING); em.s = t; } else em.reset(want);
  return true;
}

// ------------------------------------------------------------------------------------------------ one history
static void historyCase(long idx) {
  Rng r(opts.seed, 7001, (u64)idx);
  NV = (int)r.range(4, 6); int nops = (int)r.range(20, 120);
  enum { K_ASSIGN_SCALAR, K_ASSIGN_STRING, K_ASSIGN_CONTAINER, K_CONSTRUCT, K_COPYCTOR, K_ASSIGNVAR, K_SWAP, K_CLEAR, K_MUTATE, K_MUTATE2, K_ASSIGN_ELEM, K_ASSIGN_VIEW, K_ASSIGN_OWN, NK };
  int w[NK], tot = 0;
  for (int k = 0; k < NK; ++k) w[k] = r.chance(1, 4) ? 0 : (int)r.range(1, 10);
  w[K_MUTATE] += 3; w[K_COPYCTOR] += 1; w[K_ASSIGNVAR] += 2; w[K_ASSIGN_CONTAINER] += 1; w[K_ASSIGN_OWN] += 1; if (w[K_CLEAR] > 2) w[K_CLEAR] = 2;
  bool noOwnElem = excludedPrefix("Variant.operator=(Variant)/arg=own-element");   // trigger: the assigned value lives inside the receiver's own payload
  for (int k = 0; k < NK; ++k) tot += w[k];
  hist.addf("# Variant history vars=%d nops=%d\n", NV, nops);
  for (int i = 0; i < NV; ++i) { V[i] = new Variant; M[i] = new MV; ver[i] = 0; for (int j = 0; j < MAXV; ++j) cp[i][j].on = cp[j][i].on = false; }
  setctx("Variant.Variant()"); checkAll(0);
  u64 fp = 0; long sharedMut = 0, lazyCopies = 0, clonesBefore = g_cowClones; size_t maxNodes = 0;
  for (int o = 0; o < nops; ++o) {
    int pick = (int)r.below((u64)tot), kind = 0; while (pick >= w[kind]) pick -= w[kind++];
    int i = (int)r.below((u64)NV), j = (int)r.below((u64)NV);
    if (kind == K_MUTATE || kind == K_MUTATE2 || kind == K_ASSIGN_OWN) for (int t = 0; t < 3 && !isHeap(M[i]->t); ++t) i = (int)r.below((u64)NV);   // prefer variables that hold a payload
    Variant& v = *V[i]; MV& m = *M[i];
    fp = mix(fp, (u64)kind * 16 + (u64)m.t);
    char mutCtx[256]; mutCtx[0] = 0;
    switch (kind) {
    case K_ASSIGN_SCALAR: case K_ASSIGN_STRING: case K_ASSIGN_CONTAINER: case K_CONSTRUCT: {
      MV nv;
      if (kind == K_ASSIGN_SCALAR) { static const int sc[] = { T_NULL, T_BOOL, T_DOUBLE, T_INT, T_UINT, T_INT64, T_UINT64 }; genScalar(r, nv, sc[r.below(7)]); }
      else if (kind == K_ASSIGN_STRING) genScalar(r, nv, T_STRING);
      else if (kind == K_ASSIGN_CONTAINER) { do genValue(r, nv, 0); while (!isContainer(nv.t)); }
      else genValue(r, nv, r.chance(1, 2) ? 0 : 2);
      Text d; describe(nv, d);
      if (kind == K_CONSTRUCT) {
        setctxf("Variant.Variant(%s)", tname[nv.t]); hist.addf("v%d := Variant(%s)\n", i, d.c()); { char t[64]; snprintf(t, sizeof t, "construct(%s)", tname[nv.t]); setItem("op_type_cells", t); }
        Variant* n = constructTyped(nv); setctx("Variant.~Variant"); delete V[i]; V[i] = n; setctxf("Variant.Variant(%s)", tname[nv.t]); cnt("op_construct");
      } else {
        const char* hc = holdClass(v, m);
        setctxf("Variant.operator=(%s)/from=%s/%s", tname[nv.t], tname[m.t], hc); hist.addf("v%d = %s   [was %s, %s]\n", i, d.c(), tname[m.t], hc);
        { char t[96]; snprintf(t, sizeof t, "assign(%s)/from=%s/%s", tname[nv.t], tname[m.t], hc); setItem("op_type_cells", t); }
        assignTyped(v, nv); cnt("op_assign_typed");
      }
      *M[i] = nv; bump(i); break; }
    case K_COPYCTOR: {
      setctxf("Variant.Variant(Variant)/from=%s/%s", tname[M[j]->t], holdClass(*V[j], *M[j])); hist.addf("v%d := Variant(v%d)   [%s]\n", i, j, tname[M[j]->t]);
      { char t[64]; snprintf(t, sizeof t, "copy-construct(%s)", tname[M[j]->t]); setItem("op_type_cells", t); }
      Variant* n = new Variant(*V[j]); if (isHeap(M[j]->t)) ++lazyCopies;
      setctx("Variant.~Variant"); delete V[i]; V[i] = n; setctxf("Variant.Variant(Variant)/from=%s", tname[M[j]->t]);
      if (i != j) { MV t(*M[j]); *M[i] = t; bump(i); noteCopy(i, j); }
      cnt("op_copy_construct"); break; }
    case K_ASSIGNVAR: {
      const char* hc = holdClass(v, m);
      setctxf("Variant.operator=(Variant)/%s/from=%s/%s/to=%s", i == j ? "arg=self" : "other", tname[m.t], hc, tname[M[j]->t]); hist.addf("v%d = v%d   [%s <- %s]\n", i, j, tname[m.t], tname[M[j]->t]);
      { char t[96]; snprintf(t, sizeof t, "assign-variant/%s/from=%s/%s/to=%s", i == j ? "self" : "other", tname[m.t], hc, tname[M[j]->t]); setItem("op_type_cells", t); }
      v = *V[j]; if (isHeap(M[j]->t) && i != j) ++lazyCopies;
      if (i != j) { MV t(*M[j]); *M[i] = t; bump(i); noteCopy(i, j); }
      cnt("op_assign_variant"); break; }
    case K_SWAP: {
      setctxf("Variant.swap/%s/%s-%s", i == j ? "arg=self" : "other", tname[m.t], tname[M[j]->t]); hist.addf("v%d.swap(v%d)\n", i, j);
      v.swap(*V[j]);
      if (i != j) { MV t(*M[i]); *M[i] = *M[j]; *M[j] = t; bump(i); bump(j); }
      cnt("op_swap"); break; }
    case K_CLEAR: {
      { const char* hc = holdClass(v, m); setctxf("Variant.clear/from=%s/%s", tname[m.t], hc); hist.addf("v%d.clear()   [%s %s]\n", i, tname[m.t], hc); }
      v.clear(); m.reset(T_NULL); bump(i); cnt("op_clear"); break; }
    case K_MUTATE: case K_MUTATE2: {
      // the value to store is built first: a fresh one or a lazy copy of a variable (possibly of the receiver itself)
      MV valm; bool fromVar = r.chance(1, 3); int src = (int)r.below((u64)NV);
      if (fromVar && nodes(*M[src]) + nodes(m) <= 60) valm = *M[src]; else { fromVar = false; genValue(r, valm, 1); }
      Variant val = fromVar ? Variant(*V[src]) : build(valm);
      { Text d; describe(valm, d); if (fromVar) hist.addf("value := Variant(v%d) %s\n", src, d.c()); else hist.addf("value := %s\n", d.c()); }
      hist.addf("v%d.", i);
      bool changed = false; long before = g_cowClones;
      g_tmpHolder = fromVar ? &valm : 0;
      mutate(v, m, r, 0, changed, val, valm);
      g_tmpHolder = 0;
      if (g_cowClones > before) ++sharedMut;
      if (changed) bump(i);
      snprintf(mutCtx, sizeof mutCtx, "%s", (const char*)ctx);
      setctx("Variant.~Variant/temporary");    // the stored value's source is destroyed at the end of this block
      cnt("op_mutable_access"); break; }
    case K_ASSIGN_ELEM: {
      int src = r.chance(1, 2) ? i : j; if (src == i && noOwnElem) { src = j; if (src == i) break; }
      const MV* dm = 0; Text path; const Variant* d = pickDescendant(*V[src], *M[src], r, dm, path); if (!d) break;
      const char* hc = holdClass(v, m);
      setctxf("Variant.operator=(Variant)/%s/%s", src == i ? "arg=own-element" : "arg=element-of-other", isHeap(dm->t) ? "heap-element" : "inline-element");
      hist.addf("v%d = v%d%s   [%s <- %s, receiver %s]\n", i, src, path.c(), tname[m.t], tname[dm->t], hc);
      { char t[96]; snprintf(t, sizeof t, "assign-element/%s/%s", src == i ? "own" : "other", tname[dm->t]); setItem("op_type_cells", t); }
      MV t(*dm);
      v = *d;
      *M[i] = t; bump(i); cnt("op_assign_element"); if (src == i) cnt("op_assign_own_element"); break; }
    case K_ASSIGN_VIEW: {
      if (i == j || !isContainer(M[j]->t)) break;     // the receiver's own view: K_ASSIGN_OWN
      const char* hc = holdClass(v, m);
      setctxf("Variant.operator=(%s)/arg=view-of-other/from=%s/%s", tname[M[j]->t], tname[m.t], hc); hist.addf("v%d = ((const Variant&)v%d).to%s()   [was %s, %s]\n", i, j, M[j]->t == T_LIST ? "List" : M[j]->t == T_ARRAY ? "Array" : "Map", tname[m.t], hc);
      const Variant& cv = *V[j];
      if (M[j]->t == T_LIST) v = cv.toList(); else if (M[j]->t == T_ARRAY) v = cv.toArray(); else v = cv.toMap();
      MV t(*M[j]); *M[i] = t; M[i]->newPayload(); bump(i); cnt("op_assign_view"); break; }   // a container built from the view: new payload, elements are lazy copies
    case K_ASSIGN_OWN: {
      // typed overload given the receiver's own value: on the variable itself or on an element reached through the mutable accessors
      Variant* e = &v; MV* em = &m; Text lhs; lhs.addf("v%d", i); bool nested = false;
      if (isContainer(m.t) && m.kids.n && r.chance(2, 5)) { MV* dm = 0; setctxf("Variant.to%s-mutable/descend", m.t == T_LIST ? "List" : m.t == T_ARRAY ? "Array" : "Map"); Variant* d = descendMutable(v, m, r, dm, lhs); if (d) { e = d; em = dm; nested = true; } }
      static const int heapT[] = { T_STRING, T_LIST, T_ARRAY, T_MAP };
      int want = (isHeap(em->t) && r.chance(7, 8)) ? em->t : heapT[r.below(4)];
      bool mut = r.chance(1, 2);
      bool changed = assignOwnValue(*e, *em, want, mut, nested, lhs.c());
      if (changed) bump(i);
      cnt("op_assign_own_value"); if (!changed) cnt("op_assign_own_value_same_type"); if (nested) cnt("op_assign_own_value_nested");
      break; }
    default: break;
    }
    if (kind == K_MUTATE || kind == K_MUTATE2) setctxf("%s", mutCtx);
    size_t nn = nodes(*M[i]); if (nn > maxNodes) maxNodes = nn;
    checkAll(i);
    cnt("ops");
  }
  setctx("Variant.~Variant");
  // destroy in a random order: the last handle releases each shared payload
  { int order[MAXV]; for (int i = 0; i < NV; ++i) order[i] = i; for (int i = NV - 1; i > 0; --i) { int k = (int)r.below((u64)i + 1); int t = order[i]; order[i] = order[k]; order[k] = t; }
    for (int q = 0; q < NV; ++q) { int i = order[q]; delete V[i]; V[i] = 0; for (int k = q + 1; k < NV; ++k) { char path[16]; snprintf(path, sizeof path, "v%d", order[k]); checkValue(*V[order[k]], *M[order[k]], "other-variable/", path); } }
    for (int i = 0; i < NV; ++i) { delete M[i]; M[i] = 0; } }
  statMax("max_nodes_in_one_value", (long)maxNodes);
  cnt("lazy_copies_of_heap_payloads", lazyCopies); cnt("histories_with_shared_mutation", sharedMut > 0);
  if (idx % 301 == 0) sample("%.1500s", hist.c());
  endCase(fp, lazyCopies > 0 && g_cowClones > clonesBefore);
}

// ------------------------------------------------------------------------------------------------ probes
static int probe(const char* k) {
  if (!strncmp(k, "Variant.operator==/array", 24)) {
    Array<Variant> a; a.append(Variant(1)); a.append(Variant(String("x")));
    Variant x(a); Variant y(x); y.toArray();     // y: detached, unmodified copy of x
    if (!(x == y) || x != y) fail(k, "an unmodified copy of an array Variant does not compare equal to the original"); return 0; }
  if (!strncmp(k, "Variant.operator=(Variant)/arg=own-element", 42)) {
    List<Variant> l; l.append(Variant(42)); l.append(Variant(String("tail")));
    { Variant* x = new Variant(l); const Variant& cx = *x; *x = cx.toList().front(); int got = x->toInt(); int t = (int)x->getType(); delete x; if (t != Variant::intType || got != 42) fail(k, "x = x.toList().front() left type %d value %d", t, got); }
    { Variant* x = new Variant(l); const Variant& cx = *x; *x = cx.toList().back(); String got = x->toString(); delete x; if (!(got == String("tail"))) fail(k, "x = x.toList().back() left \"%s\"", (const char*)got); }
    return 0; }
  // NOT generated by the histories (see assumptions): typed overload given a container that lives inside an element of the receiver's own, solely owned payload.
  // List/Array/HashMap::operator= clear the destination first, which destroys the element holding the argument (heap-use-after-free on the pinned tree).
  if (!strncmp(k, "Variant.operator=(list)/arg=list-inside-own-element", 51)) {
    setctx("Variant.operator=(list)/arg=list-inside-own-element");
    List<Variant> in; in.append(Variant(3.5)); in.append(Variant(String("x")));
    List<Variant> l; l.append(Variant(in)); l.append(Variant(2));
    Variant* x = new Variant(l); const Variant& cx = *x;
    x->toList().front().toList();                 // the inner list is now solely owned by the element
    *x = cx.toList().front().toList();
    size_t n = cx.toList().size(); int t = (int)x->getType(); delete x;
    if (t != Variant::listType || n != 2) fail(k, "x = x.toList().front().toList() left type %d with %lu elements instead of the inner list of 2", t, (unsigned long)n);
    return 0; }
  harnessBug("unknown probe %s", k);
}

int main(int argc, char** argv) {
  init(argc, argv, "h_variant");
  if (opts.probe) { int rc = probe(opts.probe); leakCheck("Variant/leak"); finish(); return rc; }
  if (strcmp(opts.mode, "hist")) harnessBug("unknown mode %s", opts.mode);
  for (long idx = opts.start; idx < opts.start + opts.cases; ++idx) {
    if (!mine(idx)) continue;
    beginCase(idx);
    historyCase(idx);
    if ((idx / (opts.nshards > 0 ? opts.nshards : 1)) % 256 == 255) leakCheck("Variant/leak");
  }
  cnt("native_values_compared", g_cmpNative); cnt("coercions_compared", g_cmpCoerce); cnt("coercions_open_skipped", g_coerceSkipped);
  cnt("equalities_compared", g_eqChecked); cnt("equalities_open_skipped", g_eqSkipped); cnt("copy_equalities_checked", g_copyEq);
  cnt("cow_clones_of_shared_payload", g_cowClones); cnt("nested_cow_clones", g_nestedClones); cnt("mutations_through_accessor", g_mutations);
  if (g_holdAgree || g_holdDiffer) { cnt("holder_record_agrees_with_refcount", g_holdAgree); cnt("holder_record_differs_from_refcount", g_holdDiffer); }
  cnt("own_value_inplace_string", g_ownInPlace[T_STRING]); cnt("own_value_inplace_list", g_ownInPlace[T_LIST]); cnt("own_value_inplace_array", g_ownInPlace[T_ARRAY]); cnt("own_value_inplace_map", g_ownInPlace[T_MAP]);
  (void)g_sharedBefore;
  leakCheck("Variant/leak");
  finish();
  return 0;
}
