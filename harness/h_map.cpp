// h_map.cpp - C01: Map / MultiMap against a sorted reference model, comparison-count bound, AVL structure walker
// modes: map-exh, multi-exh (exhaustive small insertion orders), map-rand, multi-rand (swarm random histories), depth (long monotone runs)
#include "vh.hpp"
#include <nstd/Map.hpp>
#include <nstd/MultiMap.hpp>
#include <math.h>

using namespace vh;

static long g_cmp = 0;
struct CKey {
  int v;
  CKey() : v(0) {}
  CKey(int x) : v(x) {}
  bool operator<(const CKey& o) const { ++g_cmp; return v < o.v; }
  bool operator>(const CKey& o) const { ++g_cmp; return v > o.v; }
  bool operator<=(const CKey& o) const { ++g_cmp; return v <= o.v; }
  bool operator>=(const CKey& o) const { ++g_cmp; return v >= o.v; }
  bool operator==(const CKey& o) const { ++g_cmp; return v == o.v; }
  bool operator!=(const CKey& o) const { ++g_cmp; return v != o.v; }
};

struct Ent { int k; long v; };
typedef Vec<Ent> Model;

static size_t lowerBound(const Model& m, int k) { size_t i = 0; while (i < m.n && m[i].k < k) ++i; return i; }
static size_t upperBound(const Model& m, int k) { size_t i = 0; while (i < m.n && m[i].k <= k) ++i; return i; }

static long cmpBound(size_t n) { return 2 * (long)floor(1.4405 * log2((double)n + 2.0)); }

template <class M> struct Tr;
template <> struct Tr<Map<CKey, long> > { enum { multi = 0 }; static const char* name() { return "Map"; } };
template <> struct Tr<MultiMap<CKey, long> > { enum { multi = 1 }; static const char* name() { return "MultiMap"; } };

static u64 g_shapeSeen[1 << 16]; static long g_shapes = 0;
static void noteShape(u64 h) { size_t s = (size_t)(h >> 20) & 0xffff; for (int i = 0; i < 8; ++i) { size_t j = (s + i) & 0xffff; if (g_shapeSeen[j] == h) return; if (!g_shapeSeen[j]) { g_shapeSeen[j] = h; ++g_shapes; return; } } }

template <class M> struct Checker {
#ifndef VERIF_NO_PRIVATE
  typedef typename M::Item Item;
#endif
  typedef typename M::Iterator It;
  enum { multi = Tr<M>::multi };
  char keybuf[128];
  const char* key(const char* what) { snprintf(keybuf, sizeof keybuf, "%s/%s", (const char*)ctx, what); return keybuf; }

  long walkCount; u64 shape; long rotSeen;
#ifdef VERIF_NO_PRIVATE
  // fallback flavour (no access to the tree's private nodes): structure is only observable through the public API
  void structure(const M&, const Model&) {}
#else
  // recursive structural check; returns height
  size_t walk(const M& m, Item* it, Item* parent, Vec<Item*>& inorder, int depth) {
    if (!it) { shape = mix(shape, 1); return 0; }
    if (depth > 80) fail(key("structure"), "tree deeper than 80 levels (cycle?)");
    shape = mix(shape, 2);
    if (it->parent != parent) fail(key("structure"), "parent link of key %d wrong", it->key.v);
    size_t lh = walk(m, it->left, it, inorder, depth + 1);
    inorder.push(it);
    size_t rh = walk(m, it->right, it, inorder, depth + 1);
    size_t h = (lh > rh ? lh : rh) + 1;
    if (it->height != h) fail(key("structure"), "stored height %lu of key %d != recomputed %lu", (unsigned long)it->height, it->key.v, (unsigned long)h);
    long slope = (long)lh - (long)rh;
    if (it->slope != slope) fail(key("structure"), "stored slope %ld of key %d != recomputed %ld", (long)it->slope, it->key.v, slope);
    if (slope > 1 || slope < -1) fail(key("balance"), "key %d has slope %ld: tree is not AVL balanced", it->key.v, slope);
    return h;
  }
  void structure(const M& m, const Model& ref) {
    Vec<Item*> inorder; shape = 7;
    size_t h = walk(m, m.root, 0, inorder, 0);
    noteShape(mix(shape, ref.n));
    statMax("max_tree_height", (long)h);
    if (inorder.n != ref.n) fail(key("structure"), "tree holds %lu nodes, model %lu", (unsigned long)inorder.n, (unsigned long)ref.n);
    if (m._size != ref.n) fail(key("size"), "_size %lu != model %lu", (unsigned long)m._size, (unsigned long)ref.n);
    // threaded list == in-order walk
    Item* p = m._begin.item; Item* prev = 0;
    for (size_t i = 0; i < inorder.n; ++i) {
      if (p != inorder[i]) fail(key("structure"), "next-chain differs from in-order walk at position %lu", (unsigned long)i);
      if (p->prev != prev) fail(key("structure"), "prev link wrong at position %lu", (unsigned long)i);
      prev = p; p = p->next;
    }
    if (p != &m.endItem) fail(key("structure"), "next-chain does not end at the sentinel");
    if (m.endItem.prev != prev) fail(key("structure"), "sentinel prev is not the last item");
    if (m._end.item != &m.endItem) fail(key("structure"), "_end iterator moved");
    if ((m.root == 0) != (ref.n == 0)) fail(key("structure"), "root/emptiness mismatch");
    ++walkCount;
  }

#endif
  void contents(const M& m, const Model& ref) {
    if (m.size() != ref.n) fail(key("size"), "size() %lu != model %lu", (unsigned long)m.size(), (unsigned long)ref.n);
    if (m.isEmpty() != (ref.n == 0)) fail(key("isEmpty"), "isEmpty() %d with model size %lu", (int)m.isEmpty(), (unsigned long)ref.n);
    size_t i = 0;
    for (It it = m.begin(), e = m.end(); it != e; ++it, ++i) {
      if (i >= ref.n) fail(key("iteration"), "iteration yields more than %lu entries", (unsigned long)ref.n);
      if (it.key().v != ref[i].k || *it != ref[i].v) fail(key("iteration"), "forward position %lu holds (%d,%ld), model (%d,%ld)", (unsigned long)i, it.key().v, *it, ref[i].k, ref[i].v);
    }
    if (i != ref.n) fail(key("iteration"), "forward iteration yields %lu entries, model %lu", (unsigned long)i, (unsigned long)ref.n);
    if (ref.n) {
      It it = m.end();
      for (size_t j = ref.n; j-- > 0;) { --it; if (it.key().v != ref[j].k || *it != ref[j].v) fail(key("iteration"), "backward position %lu holds (%d,%ld), model (%d,%ld)", (unsigned long)j, it.key().v, *it, ref[j].k, ref[j].v); }
      if (it != m.begin()) fail(key("iteration"), "backward iteration does not end at begin()");
      if (m.front() != ref[0].v) fail(key("front"), "front() %ld != %ld", m.front(), ref[0].v);
      if (m.back() != ref[ref.n - 1].v) fail(key("back"), "back() %ld != %ld", m.back(), ref[ref.n - 1].v);
    }
  }

  size_t count(Map<CKey, long>&, const CKey&) { return 0; }
  size_t count(MultiMap<CKey, long>& m, const CKey& k) { return m.count(k); }

  void lookups(M& m, const Model& ref, int universe) {
    const char* saved = (const char*)ctx;
    for (int k = -1; k <= universe; ++k) {
      size_t lo = lowerBound(ref, k), hi = upperBound(ref, k);
      g_cmp = 0;
      It it = m.find(CKey(k));
      long used = g_cmp;
      statMax("max_find_comparisons", used);
      if (used > cmpBound(ref.n)) { setctx(saved); fail(key("find-comparisons"), "find(%d) among %lu entries used %ld comparisons, bound %ld", k, (unsigned long)ref.n, used, cmpBound(ref.n)); }
      if (lo == hi) { if (it != m.end()) fail(key("find"), "find(%d) returned an entry although the key is absent", k); }
      else {
        if (it == m.end()) fail(key("find"), "find(%d) returned end() although the key is present", k);
        if (it.key().v != k) fail(key("find"), "find(%d) returned key %d", k, it.key().v);
        bool ok = false; for (size_t i = lo; i < hi; ++i) if (ref[i].v == *it) ok = true;
        if (!ok) fail(key("find"), "find(%d) returned value %ld which no entry with that key holds", k, *it);
      }
      if (m.contains(CKey(k)) != (lo != hi)) fail(key("contains"), "contains(%d) wrong", k);
      if (multi) { size_t c = count(m, CKey(k)); if (c != hi - lo) fail("MultiMap.count/value", "count(%d) = %lu, model has %lu equal keys (after %s)", k, (unsigned long)c, (unsigned long)(hi - lo), saved); }
      cnt("lookups");
    }
  }

  void all(M& m, const Model& ref, int universe, bool withStructure) {
    contents(m, ref);
    if (withStructure) structure(m, ref);
    lookups(m, ref, universe);
  }

  // position of iterator in container (index), n if end
  size_t indexOf(const M& m, const It& x) { size_t i = 0; for (It it = m.begin(), e = m.end(); it != e; ++it, ++i) if (it == x) return i; return (size_t)m.size(); }
  It iterAt(const M& m, size_t idx) { It it = m.begin(); while (idx--) ++it; return it; }

  // ---- operations with model update; each returns nothing, fails on divergence
  void opInsert(M& m, Model& ref, int k, long v) {
    setctxf("%s.insert", Tr<M>::name()); hist.addf("insert(%d,%ld)\n", k, v);
    It r = m.insert(CKey(k), v);
    size_t lo = lowerBound(ref, k), hi = upperBound(ref, k);
    if (!multi && lo != hi) { ref[lo].v = v; if (indexOf(m, r) != lo) fail(key("returned-iterator"), "insert of existing key %d returned iterator at index %lu, expected %lu", k, (unsigned long)indexOf(m, r), (unsigned long)lo); }
    else { Ent e = { k, v }; ref.insert(hi, e); size_t at = indexOf(m, r); if (at != hi) fail(key(multi ? "insertion-order" : "returned-iterator"), "insert(%d) landed/returned index %lu, expected %lu (upper bound)", k, (unsigned long)at, (unsigned long)hi); }
    cnt("op_insert");
  }
  void opInsertHint(M& m, Model& ref, Rng& r, int k, long v) {
    int cls = (int)r.below(7); size_t n = ref.n; size_t hintIdx;
    size_t lo = lowerBound(ref, k), hi = upperBound(ref, k);
    static const char* names[] = { "end", "begin", "lower-bound", "predecessor", "upper-bound", "random", "equal-key" };
    switch (cls) { case 0: hintIdx = n; break; case 1: hintIdx = 0; break; case 2: hintIdx = lo; break; case 3: hintIdx = lo ? lo - 1 : 0; break; case 4: hintIdx = hi; break; case 5: hintIdx = r.below(n + 1); break; default: hintIdx = lo < hi ? lo + r.below(hi - lo) : r.below(n + 1); if (lo == hi) cls = 5; break; }
    setctxf("%s.insert/hint=%s", Tr<M>::name(), names[cls]); hist.addf("insert(hint@%lu[%s],%d,%ld)\n", (unsigned long)hintIdx, names[cls], k, v);
    setItem("hint_classes", names[cls]);
    It hint = iterAt(m, hintIdx);
    It res = m.insert(hint, CKey(k), v);
    size_t at = indexOf(m, res);
    if (!multi && lo != hi) { ref[lo].v = v; if (at != lo) fail(key("returned-iterator"), "hinted insert of existing key %d returned index %lu, expected %lu", k, (unsigned long)at, (unsigned long)lo); }
    else {
      // hinted insert of an equal key may land anywhere in its run of equal keys
      if (at < lo || at > hi) fail(key("position"), "hinted insert(%d) landed at index %lu outside [%lu,%lu]", k, (unsigned long)at, (unsigned long)lo, (unsigned long)hi);
      Ent e = { k, v }; ref.insert(at, e);
    }
    cnt("op_insert_hint");
  }
  void opRemoveKey(M& m, Model& ref, int k) {
    setctxf("%s.remove(key)", Tr<M>::name()); hist.addf("remove(key %d)\n", k);
    size_t lo = lowerBound(ref, k), hi = upperBound(ref, k);
    m.remove(CKey(k));
    if (lo != hi) {
      if (!multi) ref.removeAt(lo);
      else { // exactly one entry with that key must have vanished; find which
        if (m.size() + 1 != ref.n) fail(key("size"), "remove(key %d) changed size from %lu to %lu", k, (unsigned long)ref.n, (unsigned long)m.size());
        size_t gone = hi - 1; It it = iterAt(m, lo);
        for (size_t i = lo; i < hi - 1; ++i, ++it) if (*it != ref[i].v) { gone = i; break; }
        ref.removeAt(gone);
      }
    }
    cnt("op_remove_key");
  }
  void opRemoveIt(M& m, Model& ref, size_t idx) {
    setctxf("%s.remove(iterator)", Tr<M>::name()); hist.addf("remove(it@%lu)\n", (unsigned long)idx);
    It it = iterAt(m, idx);
#ifndef VERIF_NO_PRIVATE
    { Item* node = it.item; bool two = node->left && node->right; if (two) cnt("two_child_removals"); }
#endif
    It res = m.remove(it);
    ref.removeAt(idx);
    if (indexOf(m, res) != idx) fail(key("returned-iterator"), "remove(iterator at %lu) returned index %lu, expected the successor", (unsigned long)idx, (unsigned long)indexOf(m, res));
    cnt("op_remove_it");
  }
  void opRemoveFront(M& m, Model& ref) { setctxf("%s.removeFront", Tr<M>::name()); hist.add("removeFront\n"); It r = m.removeFront(); ref.removeAt(0); if (r != m.begin()) fail(key("returned-iterator"), "removeFront did not return begin()"); cnt("op_remove_front"); }
  void opRemoveBack(M& m, Model& ref) { setctxf("%s.removeBack", Tr<M>::name()); hist.add("removeBack\n"); It r = m.removeBack(); ref.pop(); if (r != m.end()) fail(key("returned-iterator"), "removeBack did not return end()"); cnt("op_remove_back"); }
};

// -------------------------------------------------------------------------------------------------------------
static bool nextPerm(int* a, int n) { int i = n - 2; while (i >= 0 && a[i] >= a[i + 1]) --i; if (i < 0) return false; int j = n - 1; while (a[j] <= a[i]) --j; int t = a[i]; a[i] = a[j]; a[j] = t; for (int l = i + 1, r = n - 1; l < r; ++l, --r) { t = a[l]; a[l] = a[r]; a[r] = t; } return true; }

template <class M> static void build(Checker<M>& c, M& m, Model& ref, const int* seq, int n, bool check) {
  for (int i = 0; i < n; ++i) { c.opInsert(m, ref, seq[i], 100 + i); if (check) c.all(m, ref, n, true); }
}

// exhaustive: every insertion order of n<=N distinct keys (Map) / every sequence over <=3 keys (MultiMap), then every single removal and both drains
template <class M> static void exhaustive(int N) {
  Checker<M> c; c.walkCount = 0; long idx = 0;
  for (int n = 1; n <= N; ++n) {
    int seq[12]; bool more = true;
    if (!Tr<M>::multi) for (int i = 0; i < n; ++i) seq[i] = i; else for (int i = 0; i < n; ++i) seq[i] = 0;
    while (more) {
      if (mine(idx) && idx >= opts.start && (opts.cases < 0 || idx < opts.start + opts.cases)) {
        beginCase(idx);
        hist.addf("# %s exhaustive n=%d order:", Tr<M>::name(), n); for (int i = 0; i < n; ++i) hist.addf(" %d", seq[i]); hist.add("\n");
        u64 fp = n; for (int i = 0; i < n; ++i) fp = mix(fp, (u64)seq[i]);
        int universe = Tr<M>::multi ? 3 : n;
        { M m; Model ref; build(c, m, ref, seq, n, true);
          // drain from the front, checking at each step
          while (ref.n) { c.opRemoveFront(m, ref); c.all(m, ref, universe, true); } }
        { M m; Model ref; build(c, m, ref, seq, n, false); while (ref.n) { c.opRemoveBack(m, ref); c.all(m, ref, universe, true); } }
        for (int rm = 0; rm < n; ++rm) {   // every single removal by iterator, then by key
          { M m; Model ref; build(c, m, ref, seq, n, false); c.opRemoveIt(m, ref, (size_t)rm); c.all(m, ref, universe, true);
            // and a second removal next to it (two-step shapes)
            if (ref.n) { c.opRemoveIt(m, ref, (size_t)rm % ref.n); c.all(m, ref, universe, true); } }
          { M m; Model ref; build(c, m, ref, seq, n, false); c.opRemoveKey(m, ref, Tr<M>::multi ? rm % 3 : rm); c.all(m, ref, universe, true); }
        }
        if (idx % 997 == 0) sample("%s", hist.c());
        endCase(fp, n >= 2);
      }
      ++idx;
      if (!Tr<M>::multi) more = nextPerm(seq, n);
      else { int i = n - 1; while (i >= 0 && seq[i] == 2) seq[i--] = 0; if (i < 0) more = false; else ++seq[i]; }
    }
  }
  cnt("structure_walks", c.walkCount);
  cnt("exhaustive_space", idx);
}

template <class M> static auto tryAssign(M& a, const M& b, int) -> decltype(a = b, true) { a = b; return true; }
template <class M> static bool tryAssign(M&, const M&, long) { return false; }   // MultiMap declares no usable operator= on the pinned tree
template <class M> static void copyOps(Checker<M>& c, M& m, Model& ref, M& other, Model& oref, Rng& r, int universe, long& nextVal);
template <> void copyOps<Map<CKey, long> >(Checker<Map<CKey, long> >& c, Map<CKey, long>& m, Model& ref, Map<CKey, long>& other, Model& oref, Rng& r, int universe, long& nextVal) {
  typedef Map<CKey, long> M;
  if (r.chance(1, 6)) { setctx("Map.operator=/arg=self"); hist.add("m = m (through a second reference)\n"); M& alias = m; m = alias; c.all(m, ref, universe, true); cnt("op_assign_self"); return; }
  switch (r.below(3)) {
  case 0: { setctx("Map.copy-construct"); hist.add("copy-construct\n"); M cp(m); c.all(cp, ref, universe, true); { Model r2(ref); c.opInsert(cp, r2, 0, -1); } setctx("Map.copy-construct/independence"); c.contents(m, ref); cnt("op_copy"); break; }
  case 1: { setctx("Map.operator="); hist.add("other = m\n"); other = m; oref = ref; c.all(other, oref, universe, true); cnt("op_assign"); break; }
  default: { setctx("Map.insert(other)"); hist.add("m.insert(other)\n");
      m.insert(other);
      for (size_t i = 0; i < oref.n; ++i) { size_t lo = lowerBound(ref, oref[i].k), hi = upperBound(ref, oref[i].k); if (lo != hi) ref[lo].v = oref[i].v; else ref.insert(hi, oref[i]); }
      cnt("op_bulk_insert"); break; }
  }
  (void)nextVal;
}
template <> void copyOps<MultiMap<CKey, long> >(Checker<MultiMap<CKey, long> >& c, MultiMap<CKey, long>& m, Model& ref, MultiMap<CKey, long>& other, Model& oref, Rng& r, int universe, long& nextVal) {
  typedef MultiMap<CKey, long> M;
  if (excluded("MultiMap.copy-construct/shallow")) return;
  if (r.chance(1, 6)) { setctx("MultiMap.operator=/arg=self"); hist.add("m = m (through a second reference)\n"); M& alias = m; if (tryAssign(m, alias, 0)) { c.all(m, ref, universe, true); cnt("op_assign_self"); } return; }
  switch (r.below(2)) {
  case 0: { setctx("MultiMap.copy-construct"); hist.add("copy-construct\n"); { M cp(m); c.all(cp, ref, universe, true); Model r2(ref); c.opInsert(cp, r2, 0, -1); } setctx("MultiMap.copy-construct/independence"); c.all(m, ref, universe, true); cnt("op_copy"); break; }
  default: { setctx("MultiMap.operator="); hist.add("other = m\n"); if (tryAssign(other, m, 0)) { oref = ref; c.all(other, oref, universe, true); cnt("op_assign"); } break; }
  }
  (void)nextVal;
}

template <class M> static void randomHistories() {
  Checker<M> c; c.walkCount = 0;
  for (long idx = opts.start; idx < opts.start + opts.cases; ++idx) {
    if (!mine(idx)) continue;
    beginCase(idx);
    Rng r(opts.seed, Tr<M>::multi ? 1002 : 1001, (u64)idx);
    int universe = (int)(r.chance(1, 3) ? r.range(2, 8) : r.range(8, 64));
    int nops = (int)r.range(20, r.chance(1, 8) ? 1500 : 300);
    // swarm: weights per op kind, some disabled
    int w[9]; int tot = 0; for (int i = 0; i < 9; ++i) { w[i] = r.chance(1, 4) ? 0 : (int)r.range(1, 10); } w[0] += 3; if (r.chance(1, 2)) w[5] = r.chance(1, 2) ? 0 : 1; w[8] = w[8] ? 1 + w[8] / 4 : 0; for (int i = 0; i < 9; ++i) tot += w[i];
    hist.addf("# %s random universe=%d nops=%d\n", Tr<M>::name(), universe, nops);
    M* mp = new M; Model ref; M* op = new M; Model oref; long nextVal = 1; u64 fp = 0; bool removed = false; size_t maxn = 0;
    for (int o = 0; o < nops; ++o) {
      M& m = *mp; M& other = *op;
      int pick = (int)r.below((u64)tot), kind = 0; while (pick >= w[kind]) pick -= w[kind++];
      int k = (int)r.below((u64)universe);
      fp = mix(fp, (u64)kind * 131 + (u64)k);
      switch (kind) {
      case 0: c.opInsert(m, ref, k, nextVal++); break;
      case 1: c.opInsertHint(m, ref, r, k, nextVal++); break;
      case 2: c.opRemoveKey(m, ref, k); removed = true; break;
      case 3: if (ref.n) { c.opRemoveIt(m, ref, r.below(ref.n)); removed = true; } break;
      case 4: if (ref.n) { if (r.chance(1, 2)) c.opRemoveFront(m, ref); else c.opRemoveBack(m, ref); removed = true; } break;
      case 5: setctxf("%s.clear", Tr<M>::name()); hist.add("clear\n"); m.clear(); ref.clear(); cnt("op_clear"); break;
      case 6: case 7: copyOps<M>(c, m, ref, other, oref, r, universe, nextVal); break;
      default: { hist.add("swap roles\n"); M* t = mp; mp = op; op = t; ref.swap(oref); break; }
      }
      if (ref.n > maxn) maxn = ref.n;
      setctxf("%s/after-op-%d", Tr<M>::name(), kind);
      c.all(*mp, ref, universe, ref.n <= 64 || o % 16 == 0);
      cnt("ops");
    }
    setctxf("%s.destructor", Tr<M>::name());
    delete mp; delete op;
    statMax("max_size", (long)maxn);
    if (idx % 501 == 0) sample("%.900s", hist.c());
    endCase(fp, maxn >= 2 && removed);
  }
  cnt("structure_walks", c.walkCount);
}

// long monotone / zig-zag runs for the depth bound
template <class M> static void depthRuns() {
  Checker<M> c; c.walkCount = 0;
  for (long idx = opts.start; idx < opts.start + opts.cases; ++idx) {
    if (!mine(idx)) continue;
    beginCase(idx);
    Rng r(opts.seed, 1003, (u64)idx);
    int pattern = (int)(idx % 4); long n = r.range(1000, 50000) * (opts.scale > 0 ? opts.scale : 1) / 1;
    if (n > 50000) n = 50000;
    hist.addf("# %s depth run pattern=%d n=%ld\n", Tr<M>::name(), pattern, n);
    M m; Model ref;  // model not maintained (O(n^2)); only bound + structure are checked here
    setctxf("%s.insert/depth-run", Tr<M>::name());
    for (long i = 0; i < n; ++i) {
      int k = pattern == 0 ? (int)i : pattern == 1 ? (int)(n - i) : pattern == 2 ? (int)((i & 1) ? n + i : n - i) : (int)r.below(1000000);
      if (r.chance(1, 2)) m.insert(CKey(k), i); else m.insert(m.end(), CKey(k), i);
      if ((i & (i - 1)) == 0 || i % 4099 == 0) {
        for (int probe = 0; probe < 20; ++probe) { g_cmp = 0; m.find(CKey((int)r.below(1000000))); long used = g_cmp; statMax("max_find_comparisons", used); if (used > cmpBound(m.size())) fail("Map.find/depth-run/find-comparisons", "find among %lu entries used %ld comparisons, bound %ld", (unsigned long)m.size(), used, cmpBound(m.size())); cnt("lookups"); }
      }
    }
    // remove half, check again
    setctxf("%s.remove/depth-run", Tr<M>::name());
    long rem = (long)m.size() / 2; for (long i = 0; i < rem; ++i) { if (pattern & 1) m.removeFront(); else m.removeBack(); }
    for (int probe = 0; probe < 200; ++probe) { g_cmp = 0; m.find(CKey((int)r.below(1000000))); long used = g_cmp; statMax("max_find_comparisons", used); if (used > cmpBound(m.size())) fail("Map.find/depth-run/find-comparisons", "after removals: find among %lu entries used %ld comparisons, bound %ld", (unsigned long)m.size(), used, cmpBound(m.size())); cnt("lookups"); }
    // structure walk without model: emulate with sizes only
#ifndef VERIF_NO_PRIVATE
    { Vec<typename M::Item*> io; c.shape = 3; c.walk(m, m.root, 0, io, 0); if (io.n != m.size()) fail("Map/depth-run/structure", "node count %lu != size %lu", (unsigned long)io.n, (unsigned long)m.size()); for (size_t i = 1; i < io.n; ++i) if (io[i - 1]->key.v > io[i]->key.v) fail("Map/depth-run/order", "in-order walk not ascending at %lu", (unsigned long)i); }
#endif
    statMax("max_size", n); cnt("ops", n + rem);
    endCase(mix((u64)pattern, (u64)n), true);
  }
}

// probes for listed findings
static int probe(const char* key) {
  if (!strcmp(key, "MultiMap.count/value")) { MultiMap<CKey, long> m; for (int i = 0; i < 7; ++i) m.insert(CKey(5), i); size_t c = m.count(CKey(5)); if (c != 7) fail(key, "count(5) = %lu with 7 equal keys", (unsigned long)c); return 0; }
  if (!strcmp(key, "MultiMap.copy-construct/shallow")) { MultiMap<CKey, long> a; a.insert(CKey(1), 1); a.insert(CKey(2), 2); { MultiMap<CKey, long> b(a); b.insert(CKey(3), 3); if (a.size() != 2) fail(key, "copy is not independent"); } return 0; }
  harnessBug("unknown probe %s", key);
}

int main(int argc, char** argv) {
  init(argc, argv, "h_map");
  if (opts.probe) { int rc = probe(opts.probe); finish(); return rc; }
  const char* m = opts.mode;
  if (!strcmp(m, "map-exh")) exhaustive<Map<CKey, long> >((int)opts.scale);
  else if (!strcmp(m, "multi-exh")) exhaustive<MultiMap<CKey, long> >((int)opts.scale);
  else if (!strcmp(m, "map-rand")) randomHistories<Map<CKey, long> >();
  else if (!strcmp(m, "multi-rand")) randomHistories<MultiMap<CKey, long> >();
  else if (!strcmp(m, "map-depth")) depthRuns<Map<CKey, long> >();
  else if (!strcmp(m, "multi-depth")) depthRuns<MultiMap<CKey, long> >();
  else harnessBug("unknown mode %s", m);
  statMax("distinct_tree_shapes_in_one_process", g_shapes);
  leakCheck("Map/leak");
  finish();
  return 0;
}
